"""C02 - the doctree is a faithful image of the Markdown token tree (structural necessary conditions)."""

from __future__ import annotations

import ast

from ..corpus import (
    AnchorMissing,
    Corpus,
    FunctionInfo,
    Module,
    Unsupported,
    ancestors,
    arg_or_kw,
    dotted,
    kwarg,
    parent,
    short,
    splice,
    unparse,
    walk_local,
)
from ..flow import EXIT, get_cfg
from ..mutant import Mutant
from ..report import Report
from .common import find_node, indent_of, rule

PROP = "C02"
READY = False
TECHNIQUE = (
    "token-type exhaustiveness against the parsed markdown-it/plugin sources, CFG path counting of node attachment, child rendering and leaf emission "
    "with computed helper summaries, truth/decision tables for branch conditions, def-use slicing of leaf content and link destinations, writer enumeration for current_node"
)

META = {
    "explanation": (
        "Seven families of structural necessary conditions, decided on syntax trees, per-function control-flow graphs and small truth / decision tables. "
        "R1 exhaustiveness: every token type that the markdown-it rule modules and the plugin modules imported by parsers/mdit.py can emit "
        "(state.push / Token(...) / .type = ..., folded X_open/X_close -> X as SyntaxTreeNode does) has a render_<type> method that the renderer's "
        "`rules` table admits, or is consumed inside another handler / removed by a core rule / never registered by MyST (each table entry re-verified "
        "against the sources on every run; the table, definition-list and field-list handlers are followed through their helper methods); the two dispatch loops hand every child exactly "
        "once, in order, to the handler selected by its own type or warn (helper methods, hoisted keys and .get idioms are followed). "
        "R2 nesting, by path counting on the CFG of every render method and of the helpers it reaches (self.m(), getattr(self, TABLE[k])(), Class.m(), module functions): "
        "(a) each docutils node that is constructed and bound to a name is attached exactly once on every normal path (helper attachment is a computed summary; `return n` hands an unattached node to the caller, "
        "a helper that attaches the node it returns hands out a reference that must not be attached again); "
        "(b) every container handler renders the token's children exactly once; a path that renders none is accepted only if it reports conditionally, or if the branch "
        "condition that selects it implies that the link is implicit (token.info == 'auto' or no children) - decided by a truth table after unfolding locals, `is None` tests, "
        "parameters through their call sites and predicate helpers through their return statements; (c) per-child loops, pop-bindings and helpers that take a sequence of "
        "tokens render every child once; (d) children are rendered inside current_node_context of an empty element built by the handler; (e) a value stored in the node built "
        "for one child is assigned on every path of that iteration (no stale value of an earlier child); (f) the handlers of the leaf types the property names "
        "(text, inline code, code block, fence, math, raw HTML, image, thematic break) add something to the node being filled on every normal path (an empty token.content excepted); "
        "(g) nothing in the render scope removes nodes from a tree handed in by the caller or from the renderer's own nodes, unless the name was rebound to a deepcopy on every path, or the removal is a relocation of system_message nodes (each removed node re-inserted exactly once), or a detach-and-return helper (only system_message nodes are removed and the list of them is returned); "
        "(h) the message node handed to note_explicit_target / note_implicit_target is not the target node itself when that node can be a text element or image (classes from constructors, call sites of node parameters, isinstance guards); "
        "(j) where a block container handler drops the token's children under a reported condition (duplicate footnote definition ...), the condition inspects the token's data (label, content, attributes) as markdown-it produced it, not a normalised copy; "
        "(i) a node that gets a refname carries a rawsource (docutils' DanglingReferences transform, read from its source, replaces an unresolved reference by problematic(rawsource)). "
        "In the handlers of inline containers (link, em, strong, s, span - read off which rules push the opening token) and the helpers they hand the token to, a warning does not excuse dropping the children. "
        "R3 content: the text of text, inline code, code block, fence, math and raw HTML leaves is exactly token.content (def-use chain, extracted helpers followed); the code highlighter "
        "feeds the lexer the text it was given and appends every fragment once; refuri/refname/uri/reftarget derive from token.attrGet('href'/'src') (backward slice through locals, "
        "parameters and helpers); an inventory link's refuri is computed from the inventory match (assumed, recognised by role: result of get_inventory_matches or an InvMatch parameter); a destination that receives only one part of a split href must have the remainder stored on the same node (download_reference excepted); image alt is "
        "the text of the image token's children, agrees per token type with markdown-it's reference renderInlineAsText (content / recursion / constant; any other contribution, e.g. an attribute that markdown-it only fills at HTML render time, is a disagreement) and visits nested inline nodes in source order (recursion or an "
        "order-preserving work list); the ordered-list start reaches the node for every legal start including 0 (decision table of the guards and the stored value), copy_attributes never "
        "tests the truthiness of a value it copies; the code language derives from token.info, is computed from the unescaped info string on every path, with the unescaping applied before the word is cut out (unescapeAll, as markdown-it's own fence renderer - a raw / cut-raw / unescaped state flow) and is its first whitespace-delimited word (cut with str.split on any whitespace, as markdown-it's fence renderer does, not at one separator character); "
        "a forward flow analysis of the percent-encoding state (attrGet/normalizeLink = encoded, normalizeLinkText = decoded) shows that no refuri/uri receives a decoded value on any path (an id_link refuri is a local target name, C09); "
        "html_to_nodes' convertibility gate and conversion loop range over every child of the parsed HTML (all-or-nothing conversion of a raw-HTML leaf); no output-format encoder (escapeHtml, html.escape ...) lies between the href/src and the stored destination; the fragments of the library lexer add up to the code text (the lexing may live in the highlighter or in a helper that is handed the text), checked as two facts read off the docutils/pygments sources: "
        "(1) pygments' default stripnl=True (docutils passes no options) must be switched off on the lexer on every path to the fragment loop, (2) the final newline that docutils' Lexer.merge strips must be put back, "
        "(3) the joined fragments are compared with the text and the text is used as a single fragment on a mismatch (lexers are lossy in general). A refname / reftarget is a target name and must not be markdown-it's percent-encoded href; within a family (footnotes / all other names) the sites that register names and the sites that store a refname agree on the normal form "
        "(nodes.fully_normalize_name on both sides or on neither). The alt text gets the content of every content-bearing inline leaf (text, code_inline: read off which RendererHTML rules emit escapeHtml(token.content)) and a line break for soft and hard breaks. "
        "Sphinx' ImageCollector reads the uri of a local image as a file path without decoding (read from its source) while render_image stores the percent-encoded src also for Sphinx: reported as a known finding. "
        "Known findings on the current tree: render_link_url stores escapeHtml(uri) as refuri (R3); the final newline of highlighted code is not restored in the docutils back end (R3); the image uri is percent-encoded in the Sphinx back end (R3). "
        "R4: current_node is rebound only by setup_render, by the save/set/restore halves of current_node_context (append before the rebind) and as the final statement of the section branch of "
        "render_heading or of a helper that render_heading calls last; += on it appends in place (docutils Element.__iadd__). "
        "R5 back ends: renderer subclasses override only link/math methods and add no handler; create_md_parser's renderer argument reaches only MarkdownIt(renderer_cls=...) and no condition; both "
        "front ends render with create_md_parser(config, <DocutilsRenderer class>) of the document being parsed - directly, through a helper returning a fresh parser, or from a cache (module-, class- or instance-level, in the front end or a helper) whose key covers "
        "every configuration field create_md_parser reads (repr(config) covers only the fields MdParserConfig.__repr__ prints in full) and whose options['myst_config'] is refreshed. "
        "R6: update_section_level_state records the section under its level, picks the parent among exactly the strictly shallower levels and removes exactly the deeper levels (if the level is stored after the pruning, the filter may drop the level itself) "
        "(decision table of the filter over key - level, or linear form of the range bounds; a constant bound is accepted only if no call site adds an unbounded term such as self._heading_offset to the level). "
        "R7: a docutils node constructed in place as an argument of a renderer helper call (no local name, so R2(a) has nothing to track; e.g. the inline wrapper of the missing-file branch of SphinxRenderer.render_link_path) is attached exactly once: "
        "the helper's computed summary for the receiving parameter attaches it once on every normal path, or the helper hands it back unattached (`return p`) on every path and the caller attaches the value of the call "
        "(argument of append/extend/insert, `+=`, child of a node constructor, or bound to a name that is attached once on every path); a call whose value is dropped (expression statement, `return <call>` in a render_* / `-> None` method) is a violation, "
        "a helper that attaches on some paths and hands back on others, or any other use of the value, is an analysis error. Only normal control flow is judged (exception handlers are C01's subject)."
    ),
    "not_decided": (
        "equality of the token tree and the doctree for all documents (needs the trees); the content model of docutils (which node may contain which); behaviour of directives/roles and of "
        "html_to_nodes; markdown-it's own tokenisation; what docutils' Lexer yields for a text; table cell alignment beyond 'computed from the current cell'; losses through library calls "
        "(urlparse, regular expressions) on a destination; intended 'inherit from the previous sibling' values would be reported by R2(e); exactness of a caller-side compensation for the newlines the lexer strips; recursion depth on pathologically nested input"
    ),
    "trusted_base": [
        "CPython ast",
        "installed markdown_it / mdit_py_plugins / docutils / sphinx.addnodes sources as parsed",
        "consumed-elsewhere table of R1 (re-verified per entry)",
        "markdown_it.renderer.RendererHTML.renderInlineAsText as the oracle for alt text",
        "the engine's CFG (mystsa/flow.py)",
    ],
    "assumptions": [
        "markdown-it emits tokens only through state.push / Token(...) / `.type =` with literal type strings in its rule modules",
        "users do not disable the core rule text_join via myst_disable_syntax",
        "a path that reports a warning/error conditionally may drop the children of a BLOCK container token (the loss is announced); inline containers and leaf tokens may not be dropped",
        "a node parameter of a helper may be part of the live doctree",
        "ordered-list start numbers are ints with 0 legal; the decision table samples 0, 2 and 10",
    ],
}

BASE = "mdit_to_docutils.base"
SPHINX = "mdit_to_docutils.sphinx_"
RENDERER = f"{BASE}:DocutilsRenderer"
NODE_MODS = ("docutils.nodes.", "sphinx.addnodes.")


# ---------------------------------------------------------------------------
# shared helpers


def _renderer_classes(corpus: Corpus):
    base = corpus.cls(RENDERER)
    return [base] + corpus.subclasses(base)


def _tok_params(fi: FunctionInfo) -> list[str]:
    """Parameters holding a syntax-tree node (annotated SyntaxTreeNode; render_* handlers: first after self)."""
    if fi.is_lambda:
        return []
    a = fi.node.args
    out = [p.arg for p in a.posonlyargs + a.args + a.kwonlyargs if p.annotation is not None and unparse(p.annotation).strip("'\"") == "SyntaxTreeNode"]
    ps = fi.params
    if not out and fi.name.startswith("render_") and len(ps) >= 2 and ps[0] == "self":
        out = [ps[1]]
    return out


def _tok_param(fi: FunctionInfo) -> str | None:
    ps = _tok_params(fi)
    return ps[0] if ps else None


def _is_self_call(call: ast.Call, name: str | None = None) -> bool:
    f = call.func
    return isinstance(f, ast.Attribute) and isinstance(f.value, ast.Name) and f.value.id == "self" and (name is None or f.attr == name)


def _node_class(call: ast.Call, mod: Module) -> str | None:
    """'docutils.nodes.paragraph' when the call constructs a docutils/Sphinx node."""
    d = dotted(call.func)
    if not d:
        return None
    r = mod.resolve(d)
    if r.startswith(NODE_MODS) and r.count(".") == 2:
        if not _NODE_CLASSES:
            raise Unsupported("node class tables not loaded")
        if r.rsplit(".", 1)[1] in _NODE_CLASSES.get(r.rsplit(".", 1)[0], ()):
            return r
    return None


_NODE_CLASSES: dict[str, set[str]] = {}
_TEXT_ELEMENTS: set[str] = set()


def _load_node_classes(corpus: Corpus, rep: Report | None = None) -> None:
    """Class names (and which of them are TextElements) of docutils.nodes / sphinx.addnodes, read off the sources."""
    if _NODE_CLASSES:
        return
    dn = corpus.sibling("docutils/nodes.py")
    an = corpus.sibling("sphinx/addnodes.py")
    for m, key in ((dn, "docutils.nodes"), (an, "sphinx.addnodes")):
        if rep is not None:
            rep.saw_sibling(m.rel)
        _NODE_CLASSES[key] = {n for n in m.classes if "." not in n}
    bases = {n: [b.rsplit(".", 1)[-1] for b in ci.bases] for n, ci in dn.classes.items()}
    for n, ci in an.classes.items():
        bases.setdefault(n, [b.rsplit(".", 1)[-1] for b in ci.bases])

    def is_te(n, depth=0):
        if n == "TextElement":
            return True
        return depth < 8 and any(is_te(b, depth + 1) for b in bases.get(n, []))

    _TEXT_ELEMENTS.update(n for n in bases if is_te(n))
    if "paragraph" not in _NODE_CLASSES["docutils.nodes"] or "literal" not in _TEXT_ELEMENTS or "pending_xref" not in _NODE_CLASSES["sphinx.addnodes"]:
        raise Unsupported("docutils/sphinx node class tables not understood")


def _single_defs(fi: FunctionInfo, name: str) -> list[ast.expr]:
    out = []
    for n in fi.local_nodes():
        if isinstance(n, ast.Assign):
            for t in n.targets:
                if isinstance(t, ast.Name) and t.id == name:
                    out.append(n.value)
        elif isinstance(n, ast.AnnAssign) and isinstance(n.target, ast.Name) and n.target.id == name and n.value is not None:
            out.append(n.value)
    return out


def _path_counts(cfg, start, weight, is_stop) -> dict[object, set[int]]:
    """Event counts (saturating at 2) over all paths that leave ``start`` and end at the first node
    satisfying ``is_stop`` (EXIT always stops; ``start`` itself stops when reached again)."""
    inn: dict[object, set[int]] = {}
    res: dict[object, set[int]] = {}
    work = []
    w0 = weight(start) if start != "ENTRY" else 0
    for s in cfg.succ.get(start, []):
        inn.setdefault(s, set()).add(min(2, w0))
        work.append(s)
    done: dict[object, set[int]] = {}
    while work:
        n = work.pop()
        cur = inn.get(n, set())
        if n == EXIT or n == start or is_stop(n):
            res.setdefault(n, set()).update(cur)
            continue
        if n == "RAISE" or (isinstance(n, tuple) and n[0] == "H"):
            continue  # exceptional flow is C01's subject; only normal paths are judged here
        new = cur - done.get(n, set())
        if not new:
            continue
        done.setdefault(n, set()).update(new)
        w = weight(n)
        out = {min(2, c + w) for c in new}
        for s in cfg.succ.get(n, []):
            if not out <= inn.get(s, set()):
                inn.setdefault(s, set()).update(out)
                work.append(s)
    return res


# ---------------------------------------------------------------------------
# R1 handler exhaustiveness


class TokenTypes:
    """Token types the configured markdown-it + plugins can emit, read off the library sources."""

    def __init__(self, corpus: Corpus, rep: Report | None = None):
        self.c = corpus
        self.mods: dict[str, Module] = {}
        # type -> list of (module, function name, site, nesting, node)
        self.sites: dict[str, list[tuple[Module, str, str, int | None, ast.AST]]] = {}
        self.plugin_names: dict[str, str] = {}
        self._load_roots()
        for m in self.mods.values():
            if rep is not None:
                rep.saw_sibling(m.rel)
            self._scan(m)

    def _load(self, dotted_mod: str) -> Module | None:
        if dotted_mod in self.mods:
            return self.mods[dotted_mod]
        m = self.c.sibling_module(dotted_mod)
        if m is None or m.rel.startswith("stdlib:"):
            return None
        self.mods[dotted_mod] = m
        # follow imports inside the same distribution
        root = dotted_mod.split(".")[0]
        for target in list(m.imports.values()):
            if target.split(".")[0] != root:
                continue
            parts = target.split(".")
            for k in (len(parts), len(parts) - 1):
                if k >= 2 and self._try(".".join(parts[:k])):
                    break
        return m

    def _try(self, name: str) -> bool:
        if name in self.mods:
            return True
        if name.startswith("markdown_it.") and not name.startswith(("markdown_it.rules_", "markdown_it.parser_")):
            return False  # helpers/common/token: no rules there
        return self._load(name) is not None

    def _load_roots(self) -> None:
        for pkg in ("markdown_it.rules_block", "markdown_it.rules_inline", "markdown_it.rules_core"):
            if self._load(pkg) is None:
                raise AnchorMissing(f"sibling package {pkg} not found")
        mdit = self.c.mod("parsers.mdit")
        n = 0
        for alias, target in mdit.imports.items():
            if target.startswith("mdit_py_plugins."):
                modname = target.rsplit(".", 1)[0]
                if self._load(modname) is None:
                    raise AnchorMissing(f"plugin module {modname} (imported by parsers/mdit.py) not found")
                self.plugin_names[alias] = target
                n += 1
        if n < 5:
            raise AnchorMissing("parsers/mdit.py imports fewer than 5 mdit_py_plugins plugins")

    def _type_values(self, e: ast.expr, m: Module) -> list[str] | None:
        if isinstance(e, ast.Constant) and isinstance(e.value, str):
            return [e.value]
        if isinstance(e, ast.IfExp):
            a, b = self._type_values(e.body, m), self._type_values(e.orelse, m)
            return None if a is None or b is None else a + b
        if isinstance(e, ast.Name) and e.id in m.const_nodes:
            try:
                v = m.eval_const(e)
            except Unsupported:
                return None
            return [v] if isinstance(v, str) else None
        return None

    def _scan(self, m: Module) -> None:
        for fnode in ast.walk(m.tree):
            if not isinstance(fnode, (ast.FunctionDef, ast.AsyncFunctionDef)):
                continue
            params = {a.arg for a in fnode.args.posonlyargs + fnode.args.args + fnode.args.kwonlyargs}
            for n in walk_local(fnode):
                texpr = None
                nesting = None
                if isinstance(n, ast.Call):
                    f = n.func
                    is_push = isinstance(f, ast.Attribute) and f.attr == "push" and len(n.args) == 3
                    is_token = m.resolve(dotted(f) or "") == "markdown_it.token.Token" and (n.args or kwarg(n, "type") is not None)
                    if not (is_push or is_token):
                        continue
                    texpr = arg_or_kw(n, 0, "type")
                    ne = arg_or_kw(n, 2, "nesting")
                    if isinstance(ne, ast.Constant):
                        nesting = ne.value
                    elif isinstance(ne, ast.UnaryOp) and isinstance(ne.op, ast.USub) and isinstance(ne.operand, ast.Constant):
                        nesting = -ne.operand.value
                elif isinstance(n, ast.Assign) and len(n.targets) == 1 and isinstance(n.targets[0], ast.Attribute) and n.targets[0].attr == "type":
                    texpr = n.value
                else:
                    continue
                if texpr is None:
                    continue
                if isinstance(texpr, ast.Name) and texpr.id in params and fnode.name == "push":
                    continue  # the generic sink itself (StateBlock.push / StateInline.push)
                vals = self._type_values(texpr, m)
                if vals is None:
                    raise Unsupported(f"token type expression not understood at {m.rel}:{n.lineno}: {short(texpr, 60)}")
                for v in vals:
                    self.sites.setdefault(v, []).append((m, fnode.name, f"{m.rel}:{n.lineno}", nesting, n))

    def folded(self) -> dict[str, list]:
        out: dict[str, list] = {}
        for t, sites in self.sites.items():
            base = t
            if t.endswith("_open"):
                base = t[: -len("_open")]
            elif t.endswith("_close"):
                base = t[: -len("_close")]
            out.setdefault(base, []).extend(sites)
        return out

    def inline_containers(self) -> set[str]:
        """Container types whose opening token is produced by an inline rule (a function of a rules_inline module, or
        one that takes a ``StateInline``), or by the core linkify rule."""
        out = set()
        for t, sites in self.sites.items():
            if not t.endswith("_open"):
                continue
            for m, fname, _site, _nest, node in sites:
                inline = m.name.startswith("markdown_it.rules_inline") or m.name.endswith("rules_core.linkify")
                if not inline:
                    for a in ancestors(node):
                        if isinstance(a, (ast.FunctionDef, ast.AsyncFunctionDef)):
                            args = a.args.posonlyargs + a.args.args + a.args.kwonlyargs
                            inline = any(p.annotation is not None and "StateInline" in unparse(p.annotation) for p in args)
                            break
                if inline:
                    out.add(t[: -len("_open")])
        return out

    def containers(self) -> set[str]:
        """Types pushed with an opening token (they own children) plus `inline`."""
        out = {"inline"}
        for t in self.sites:
            if t.endswith("_open"):
                out.add(t[: -len("_open")])
        return out


def _token_types(corpus: Corpus, rep: Report | None = None) -> TokenTypes:
    return corpus.cache("c02-token-types", lambda: TokenTypes(corpus, rep))


def _compares_type_with(fi: FunctionInfo, lit: str) -> bool:
    """``<x>.type ==/!=/in "<lit>"`` occurs in the function."""
    for n in fi.local_nodes():
        if isinstance(n, ast.Compare) and len(n.ops) == 1 and isinstance(n.ops[0], (ast.Eq, ast.NotEq, ast.In, ast.NotIn)):
            sides = [n.left, n.comparators[0]]
            if not any(isinstance(s, ast.Attribute) and s.attr == "type" for s in sides):
                continue
            for s_ in sides:
                if isinstance(s_, ast.Constant) and s_.value == lit:
                    return True
                if isinstance(s_, (ast.Tuple, ast.List, ast.Set)) and any(isinstance(e, ast.Constant) and e.value == lit for e in s_.elts):
                    return True
    return False


def _mentions_literal(fi: FunctionInfo, lit: str) -> bool:
    return any(isinstance(n, ast.Constant) and n.value == lit for n in fi.local_nodes())


def _renders_children_of_loop_var(fi: FunctionInfo, over_attr: str = "children") -> bool:
    """A ``for c in <x>.children [or []]`` loop whose body calls self.render_children(c)."""
    for n in fi.local_nodes():
        if isinstance(n, ast.For) and isinstance(n.target, ast.Name):
            it = n.iter
            if isinstance(it, ast.BoolOp) and isinstance(it.op, ast.Or):
                it = it.values[0]
            if isinstance(it, ast.Attribute) and it.attr == over_attr:
                for c in ast.walk(n):
                    if isinstance(c, ast.Call) and _is_self_call(c, "render_children") and c.args and isinstance(c.args[0], ast.Name) and c.args[0].id == n.target.id:
                        return True
    return False


OK, BROKEN, UNKNOWN = "ok", "broken", "unknown"


def _consumed_elsewhere(corpus: Corpus, tt: TokenTypes, t: str) -> tuple[str, str] | None:
    """(status, reason) for a type without its own handler that is dealt with elsewhere; None = not tabled.
    ``broken``: the consumer demonstrably no longer covers the type (VIOLATION);
    ``unknown``: the consumer was rewritten in an idiom this table does not understand (ANALYSIS-ERROR)."""
    base = corpus.mod(BASE)
    R = "DocutilsRenderer."

    def handler(n):
        return base.func(R + n)

    def renders_via_helpers(f0: FunctionInfo) -> bool:
        an0 = _nesting(corpus, corpus.cls(RENDERER))
        seen: set[str] = set()
        work = [f0]
        while work:
            f1 = work.pop()
            if f1.fq in seen or f1.is_lambda:
                continue
            seen.add(f1.fq)
            for c in f1.local_nodes():
                if isinstance(c, ast.Call):
                    if _is_self_call(c, "render_children"):
                        return True
                    if _is_self_call(c) or isinstance(c.func, ast.Call):
                        work.extend(m for m in an0.call_targets_safe(c, f1) if m.cls is not None)
        return False

    def by_literal(f: FunctionInfo, why: str):
        renders = renders_via_helpers(f)
        if _compares_type_with(f, t) and renders:
            return OK, why
        if not _mentions_literal(f, t):
            return BROKEN, f"{f.qualname} no longer mentions the type literal `{t}`"
        return UNKNOWN, f"{f.qualname} mentions `{t}` but not in a recognised `.type` comparison"

    if t in ("dt", "dd"):
        return by_literal(handler("render_dl"), "consumed by render_dl (child.type compared with the literal, children rendered there)")
    if t in ("fieldlist_name", "fieldlist_body"):
        return by_literal(handler("render_field_list"), "consumed by render_field_list (child.type compared with the literal, children rendered there)")
    if t in ("thead", "tbody", "tr", "th", "td"):
        # the table handler walks its sub-tokens itself; how often each is rendered is judged by R2, here only:
        # render_table, or a helper it calls, renders the children of some sub-token
        an = _nesting(corpus, corpus.cls(RENDERER))
        ft = handler("render_table")
        seen: set[str] = set()
        work = [ft]
        renders = False
        while work:
            f = work.pop()
            if f.fq in seen or f.is_lambda:
                continue
            seen.add(f.fq)
            for c in f.local_nodes():
                if isinstance(c, ast.Call):
                    if _is_self_call(c, "render_children"):
                        renders = True
                    elif _is_self_call(c) or isinstance(c.func, ast.Call):
                        work.extend(m for m in an.call_targets_safe(c, f) if m.cls is not None)
        if renders:
            return OK, "consumed by render_table and its helpers (which render the children of the cells; counts and nesting are judged by C02.R2)"
        return BROKEN, "neither render_table nor any helper it calls renders the children of a table sub-token"
    if t == "text_special":
        m = tt.mods.get("markdown_it.rules_core.text_join")
        f = m.functions.get("text_join") if m is not None else None
        if f is None:
            return UNKNOWN, "markdown_it.rules_core.text_join not found"
        ok = False
        for n in f.local_nodes():
            if isinstance(n, ast.If) and isinstance(n.test, ast.Compare) and "text_special" in unparse(n.test) and isinstance(n.test.ops[0], ast.Eq):
                for s in n.body:
                    if isinstance(s, ast.Assign) and unparse(s.targets[0]) == unparse(n.test.left) and isinstance(s.value, ast.Constant) and s.value.value == "text":
                        ok = True
        # every producer of text_special is an inline rule (runs before the core rule)
        ok = ok and all(mm.name.startswith("markdown_it.rules_inline") for mm, *_ in tt.sites.get("text_special", []))
        return (OK if ok else UNKNOWN), "re-typed to `text` by markdown-it's core rule text_join (verified in its source)"
    if t == "attrs_block":
        ok = False
        for mm in tt.mods.values():
            if not mm.name.startswith("mdit_py_plugins.attrs"):
                continue
            for f in mm.functions.values():
                if _compares_type_with(f, "attrs_block") and any(isinstance(c, ast.Call) and isinstance(c.func, ast.Attribute) and c.func.attr == "pop" and "tokens" in unparse(c.func.value) for c in f.local_nodes()):
                    ok = True
        return (OK if ok else UNKNOWN), "removed from the stream by the plugin's own core rule (tokens.pop under the type test)"
    if t in ("footnote_block", "footnote", "footnote_anchor"):
        why = "only pushed by footnote_tail, which the plugin registers under `if move_to_end:`; MyST passes move_to_end=False"
        sites = tt.sites.get(t, []) + tt.sites.get(t + "_open", []) + tt.sites.get(t + "_close", [])
        only_tail = bool(sites) and all(fn == "footnote_tail" for _, fn, *_ in sites)
        guarded = False
        for mm in tt.mods.values():
            fp = mm.functions.get("footnote_plugin")
            if fp is None:
                continue
            refs = [n for n in fp.local_nodes() if isinstance(n, ast.Name) and n.id == "footnote_tail"]
            guarded = bool(refs) and all(any(isinstance(a, ast.If) and unparse(a.test) == "move_to_end" and any(n in ast.walk(s) for s in a.body) for a in ancestors(n)) for n in refs)
        if not (only_tail and guarded):
            return UNKNOWN, "the footnote plugin no longer confines these tokens to footnote_tail under `if move_to_end:`"
        f = corpus.func("parsers.mdit:create_md_parser")
        uses = [c for c in f.local_nodes() if isinstance(c, ast.Call) and c.args and isinstance(c.args[0], ast.Name) and c.args[0].id == "footnote_plugin"]
        if not uses:
            return UNKNOWN, "no `.use(footnote_plugin, ...)` found in create_md_parser"
        for c in uses:
            v = kwarg(c, "move_to_end")
            if v is None or (isinstance(v, ast.Constant) and v.value is not False):
                return BROKEN, "create_md_parser does not pass move_to_end=False (the plugin's default is True): footnote_tail emits these tokens"
            if not isinstance(v, ast.Constant):
                return UNKNOWN, f"move_to_end={short(v, 30)} is not a constant"
        return OK, why
    if t == "definition":
        sites = tt.sites.get("definition", [])
        ok = bool(sites)
        for mm, fn, _site, _nest, node in sites:
            g = any(isinstance(a, ast.If) and "inline_definitions" in unparse(a.test) and any(node in ast.walk(s) for s in a.body) for a in ancestors(node))
            ok = ok and g
        if not ok:
            return UNKNOWN, "`definition` tokens are no longer confined to the `inline_definitions` option"
        used = any(isinstance(n, ast.Constant) and n.value == "inline_definitions" for m2 in corpus.modules.values() for n in ast.walk(m2.tree))
        if used:
            return BROKEN, "a MyST module mentions the markdown-it option `inline_definitions`, which makes markdown-it emit `definition` tokens"
        return OK, "only pushed under the markdown-it option `inline_definitions`, which no MyST module sets"
    return None


def _rules_filter_admits(init: FunctionInfo, name: str) -> bool | None:
    """Evaluate the comprehension filter that builds ``self.rules`` for a method name.
    None = filter not understood."""
    comp = None
    for n in init.local_nodes():
        if isinstance(n, ast.Assign) and any(unparse(t) == "self.rules" for t in n.targets):
            comp = n.value
    if not isinstance(comp, ast.DictComp) or len(comp.generators) != 1:
        return None
    gen = comp.generators[0]
    it = gen.iter
    if not (isinstance(it, ast.Call) and (dotted(it.func) or "").endswith("getmembers") and it.args and unparse(it.args[0]) == "self"):
        return None
    pred = kwarg(it, "predicate") or (it.args[1] if len(it.args) > 1 else None)
    if pred is not None and (dotted(pred) or "") not in ("inspect.ismethod", "ismethod", "callable", "inspect.isroutine"):
        return None
    if not (isinstance(gen.target, ast.Tuple) and len(gen.target.elts) == 2 and isinstance(gen.target.elts[0], ast.Name)):
        return None
    kname = gen.target.elts[0].id
    vname = unparse(gen.target.elts[1])
    if unparse(comp.key) != kname or unparse(comp.value) != vname:
        return None

    def ev(e) -> bool | None:
        if isinstance(e, ast.BoolOp):
            vals = [ev(v) for v in e.values]
            if any(v is None for v in vals):
                return None
            return all(vals) if isinstance(e.op, ast.And) else any(vals)
        if isinstance(e, ast.UnaryOp) and isinstance(e.op, ast.Not):
            v = ev(e.operand)
            return None if v is None else not v
        if isinstance(e, ast.Call) and isinstance(e.func, ast.Attribute) and unparse(e.func.value) == kname and e.func.attr in ("startswith", "endswith") and len(e.args) == 1 and isinstance(e.args[0], ast.Constant):
            return getattr(name, e.func.attr)(e.args[0].value)
        if isinstance(e, ast.Compare) and len(e.ops) == 1 and unparse(e.left) == kname:
            op, rhs = e.ops[0], e.comparators[0]
            try:
                val = ast.literal_eval(rhs)
            except Exception:
                return None
            if isinstance(op, ast.Eq):
                return name == val
            if isinstance(op, ast.NotEq):
                return name != val
            if isinstance(op, ast.In):
                return name in val
            if isinstance(op, ast.NotIn):
                return name not in val
        return None

    res = True
    for cond in gen.ifs:
        v = ev(cond)
        if v is None:
            return None
        res = res and v
    return res


def _is_type_key(key: ast.expr, var: str, fi: FunctionInfo, depth: int = 0) -> bool:
    """``f"render_{var.type}"`` / ``"render_" + var.type`` / a local bound once to one of these."""
    if isinstance(key, ast.JoinedStr):
        return len(key.values) == 2 and isinstance(key.values[0], ast.Constant) and key.values[0].value == "render_" and isinstance(key.values[1], ast.FormattedValue) and unparse(key.values[1].value) == f"{var}.type"
    if isinstance(key, ast.BinOp) and isinstance(key.op, ast.Add):
        return isinstance(key.left, ast.Constant) and key.left.value == "render_" and unparse(key.right) == f"{var}.type"
    if isinstance(key, ast.Name) and depth < 2:
        defs = _all_defs(fi, key.id)
        return len(defs) == 1 and _is_type_key(defs[0], var, fi, depth + 1)
    return False


def _rules_lookup(e: ast.expr) -> ast.expr | None:
    """The key of ``self.rules[K]`` / ``self.rules.get(K[, d])``; None for anything else."""
    if isinstance(e, ast.Subscript) and unparse(e.value) == "self.rules":
        return e.slice
    if isinstance(e, ast.Call) and isinstance(e.func, ast.Attribute) and e.func.attr == "get" and unparse(e.func.value) == "self.rules" and e.args:
        return e.args[0]
    return None


def _dispatch_calls(fi: FunctionInfo, root: ast.AST) -> list[tuple[ast.Call, ast.expr]]:
    """(call, key) for every call of a handler looked up in self.rules inside ``root``:
    ``self.rules[K](x)``, or ``h(x)`` with ``h`` bound once to ``self.rules[K]`` / ``self.rules.get(K)``."""
    out = []
    for c in ast.walk(root):
        if not isinstance(c, ast.Call):
            continue
        key = _rules_lookup(c.func)
        if key is None and isinstance(c.func, ast.Name):
            defs = _all_defs(fi, c.func.id)
            if len(defs) == 1:
                key = _rules_lookup(defs[0])
        if key is not None:
            out.append((c, key))
    return out


def _dispatch_events(corpus: Corpus, fi: FunctionInfo, var: str, start, stop, depth: int = 0) -> tuple[set[int], str | None]:
    """Counts, over all normal paths start -> stop/EXIT, of 'the node held by ``var`` is handed to the handler
    selected by its own type, or a warning is issued' (helper methods receiving ``var`` are followed)."""
    cfg = get_cfg(fi)
    root = start[1] if isinstance(start, tuple) else fi.node
    calls = _dispatch_calls(fi, root)
    complaint = None
    for c, key in calls:
        if not _is_type_key(key, var, fi):
            raise Unsupported(f"{fi.qualname}: dispatch key `{short(key, 50)}` not understood")
        if not (len(c.args) == 1 and not c.keywords and isinstance(c.args[0], ast.Name) and c.args[0].id == var):
            complaint = f"the handler selected for `{var}` is called with `{short(c, 50)}`: another node than the one dispatched on"
    helper_w: dict[int, int] = {}
    for c in ast.walk(root):
        if isinstance(c, ast.Call) and _is_self_call(c) and c.func.attr not in ("create_warning", "render_children") and any(isinstance(a, ast.Name) and a.id == var for a in list(c.args) + [k.value for k in c.keywords]):
            m = corpus.lookup_method(fi.cls, c.func.attr) if fi.cls is not None else None
            if m is None or m.is_lambda or depth >= 2 or m.fq == fi.fq:
                continue
            ps = m.params
            pname = None
            for i, a in enumerate(c.args):
                if isinstance(a, ast.Name) and a.id == var and i + 1 < len(ps):
                    pname = ps[i + 1]
            for kw in c.keywords:
                if isinstance(kw.value, ast.Name) and kw.value.id == var:
                    pname = kw.arg
            if pname is None:
                raise Unsupported(f"{fi.qualname}: cannot map `{var}` to a parameter of {m.qualname}")
            got, comp = _dispatch_events(corpus, m, pname, "ENTRY", None, depth + 1)
            complaint = complaint or comp
            if got == {1}:
                helper_w[id(c)] = 1
            elif got == {0}:
                helper_w[id(c)] = 0
            else:
                return got, complaint or f"{m.qualname} renders (or reports) its node {sorted(got)} times depending on the path"
    helper_calls = [c for c in ast.walk(root) if id(c) in helper_w]

    def weight(n):
        if not isinstance(n, ast.stmt):
            return 0
        w = 0
        for c, _key in calls:
            if cfg.stmt_of(c) is n:
                w += 1
        for c in helper_calls:
            if cfg.stmt_of(c) is n:
                w += helper_w[id(c)]
        for root_e in _header_exprs(n):
            for c in _walk_expr(root_e):
                if isinstance(c, ast.Call) and _is_self_call(c, "create_warning"):
                    w += 1
        return w

    res = _path_counts(cfg, start, weight, (lambda n: n is stop) if stop is not None else (lambda n: False))
    got: set[int] = set()
    for k, v in res.items():
        if stop is None or k is stop:
            got |= v
    return got, complaint


def _dispatch_loop_ok(corpus: Corpus, fi: FunctionInfo) -> str | None:
    """The function holds one loop over ``<x>.children`` (in order, unsliced) whose body hands the loop variable
    exactly once to the handler selected by its type (directly or through a helper method) or warns.
    Returns a complaint or None."""
    loops = []
    for n in fi.local_nodes():
        if isinstance(n, ast.For) and isinstance(n.target, ast.Name):
            direct = bool(_dispatch_calls(fi, n))
            via = False
            for c in ast.walk(n):
                if isinstance(c, ast.Call) and _is_self_call(c) and fi.cls is not None and any(isinstance(a, ast.Name) and a.id == n.target.id for a in list(c.args) + [k.value for k in c.keywords]):
                    m = corpus.lookup_method(fi.cls, c.func.attr)
                    if m is not None and not m.is_lambda:
                        if _dispatch_calls(m, m.node):
                            via = True
                        else:  # second level
                            for c2 in m.local_nodes():
                                if isinstance(c2, ast.Call) and _is_self_call(c2):
                                    m2 = corpus.lookup_method(fi.cls, c2.func.attr)
                                    if m2 is not None and not m2.is_lambda and m2.fq != fi.fq and _dispatch_calls(m2, m2.node):
                                        via = True
            if direct or via:
                loops.append(n)
    if len(loops) != 1:
        raise Unsupported(f"{fi.qualname}: expected one dispatch loop over self.rules, found {len(loops)}")
    loop = loops[0]
    var = loop.target.id
    it = loop.iter
    if isinstance(it, ast.Name):
        defs = _all_defs(fi, it.id)
        if len(defs) == 1:
            it = defs[0]
    if isinstance(it, ast.BoolOp) and isinstance(it.op, ast.Or) and len(it.values) == 2 and isinstance(it.values[1], (ast.List, ast.Tuple)) and not it.values[1].elts:
        it = it.values[0]
    if not (isinstance(it, ast.Attribute) and it.attr == "children"):
        return f"the dispatch loop iterates `{short(loop.iter, 50)}`, not the children of the node as they are: order or completeness of the rendered children is no longer that of the token tree"
    got, complaint = _dispatch_events(corpus, fi, var, ("T", loop), loop)
    if complaint:
        return complaint
    if got != {1}:
        return f"some path through the dispatch loop body renders (or reports) a child {sorted(got)} times instead of once"
    return None


@rule("C02.R1")
def r1_handler_exhaustiveness(corpus: Corpus, rep: Report, tier: str):
    rep.rule("C02.R1", "every token type markdown-it + the configured plugins can emit has an admitted render_<type> handler or a verified consumer; dispatch loops visit each child once, in order")
    tt = _token_types(corpus, rep)
    base_ci = corpus.cls(RENDERER)
    init = corpus.func(f"{RENDERER}.__init__")
    folded = tt.folded()
    for t in sorted(folded):
        sites = folded[t]
        site = sites[0][2]
        k = f"token type {t}"
        hname = f"render_{t}"
        h = corpus.lookup_method(base_ci, hname)
        if h is not None:
            rep.saw_function(h.fq)
            if h.decorators():
                rep.error("C02.R1", f"{h.fq} is decorated ({h.decorators()}): inspect.ismethod membership not understood")
                continue
            adm = _rules_filter_admits(init, hname)
            if adm is None:
                rep.error("C02.R1", "the construction of DocutilsRenderer.rules is not the understood getmembers/startswith filter")
                return
            if adm:
                rep.ok("C02.R1", k, h.site(), f"{hname}; emitted at {site}")
            else:
                rep.violation("C02.R1", k, init.site(), f"{hname} exists but the filter that builds self.rules excludes it: `{t}` tokens (emitted at {site}) end in the 'No render method' warning and their content is lost")
            continue
        ce = _consumed_elsewhere(corpus, tt, t)
        if ce is None:
            rep.violation("C02.R1", k, site, f"markdown-it/plugin source {site} emits token type `{t}` but DocutilsRenderer has no {hname}: the node is replaced by a 'No render method' warning and its content is lost")
        elif ce[0] == OK:
            rep.assumed("C02.R1", k, site, ce[1])
        elif ce[0] == BROKEN:
            rep.violation("C02.R1", k, site, f"token type `{t}` (emitted at {site}) has no {hname} and is no longer consumed elsewhere: {ce[1]}")
        else:
            rep.error("C02.R1", f"token type `{t}`: tabled consumer could not be re-verified ({ce[1]})")
    # a back end must not be the only one with a handler: subclasses are covered by R5.
    for q in ("DocutilsRenderer._render_tokens", "DocutilsRenderer.render_children"):
        f = corpus.mod(BASE).func(q)
        rep.saw_function(f.fq)
        bad = _dispatch_loop_ok(corpus, f)
        k = f"{f.fq}|dispatch loop"
        if bad:
            rep.violation("C02.R1", k, f.site(), bad)
        else:
            rep.ok("C02.R1", k, f.site(), "for child in <node>.children: self.rules[f'render_{child.type}'](child) exactly once, else one warning")
    rep.expect_min("C02.R1", 45, "folded token types (59 on the pinned tree) + 2 dispatch loops")


# ---------------------------------------------------------------------------
# R2 nesting discipline


def _header_exprs(st) -> list[ast.AST]:
    """The expressions a CFG statement node itself evaluates (bodies of compound statements are separate nodes)."""
    if isinstance(st, (ast.If, ast.While)):
        return [st.test]
    if isinstance(st, ast.For):
        return [st.iter]
    if isinstance(st, ast.With):
        return [i.context_expr for i in st.items]
    if isinstance(st, (ast.Try, ast.FunctionDef, ast.AsyncFunctionDef, ast.ClassDef)):
        return []
    if isinstance(st, ast.Match):
        return [st.subject]
    return [st]


def _walk_expr(e: ast.AST):
    """Walk without entering lambdas / nested defs."""
    stack = [e]
    while stack:
        n = stack.pop()
        if isinstance(n, (ast.Lambda, ast.FunctionDef, ast.AsyncFunctionDef, ast.ClassDef)) and n is not e:
            continue
        yield n
        stack.extend(ast.iter_child_nodes(n))


def _binds(st, name: str) -> ast.expr | bool:
    """Does the CFG statement (re)bind ``name``? Returns the assigned value when it is a plain assignment."""
    if isinstance(st, ast.Assign):
        for t in st.targets:
            for e in (t.elts if isinstance(t, (ast.Tuple, ast.List)) else [t]):
                if isinstance(e, ast.Name) and e.id == name:
                    return st.value
                if isinstance(e, ast.Starred) and isinstance(e.value, ast.Name) and e.value.id == name:
                    return True
    elif isinstance(st, ast.AnnAssign) and isinstance(st.target, ast.Name) and st.target.id == name and st.value is not None:
        return st.value
    elif isinstance(st, ast.For):
        if any(isinstance(n, ast.Name) and n.id == name for n in ast.walk(st.target)):
            return True
    elif isinstance(st, ast.With):
        for i in st.items:
            if i.optional_vars is not None and any(isinstance(n, ast.Name) and n.id == name for n in ast.walk(i.optional_vars)):
                return True
    elif isinstance(st, ast.Delete):
        if any(isinstance(t, ast.Name) and t.id == name for t in st.targets):
            return True
    return False


def _mentions(e: ast.AST | None, name: str) -> bool:
    return e is not None and any(isinstance(n, ast.Name) and n.id == name for n in ast.walk(e))


BENIGN_CALLEES = {"isinstance", "len", "str", "repr", "bool", "getattr", "hasattr", "type", "id", "cast", "print"}
REPORT_ATTRS = {"error", "warning", "severe", "info", "system_message"}


class Nesting:
    """Attach-once / render-children-once analysis for one concrete renderer class."""

    def __init__(self, corpus: Corpus, klass):
        self.c = corpus
        self.k = klass
        self.memo: dict = {}
        self.assumed: list[tuple[str, str, str, str]] = []
        self.escapes: set[tuple[str, str]] = set()
        self._atoms: set[str] = set()
        self.last_raw_returns: dict = {}

    # -- resolution ---------------------------------------------------------
    def method(self, name: str) -> FunctionInfo | None:
        return self.c.lookup_method(self.k, name)

    def scope(self) -> list[FunctionInfo]:
        """render_* methods visible from the class and everything they call through ``self.<m>(...)``."""
        key = ("scope",)
        if key in self.memo:
            return self.memo[key]
        names = set()
        for ci in self.c.mro(self.k):
            names |= {n for n in ci.methods if n.startswith("render_")}
        work = sorted(names)
        seen: dict[str, FunctionInfo] = {}
        while work:
            n = work.pop()
            if n in seen:
                continue
            m = self.method(n)
            if m is None:
                continue
            seen[n] = m
            for c in m.local_nodes():
                if isinstance(c, ast.Call) and _is_self_call(c) and c.func.attr not in seen:
                    work.append(c.func.attr)
                elif isinstance(c, ast.Call):
                    for nm in self.table_dispatch_names(c, m) or []:
                        if nm not in seen:
                            work.append(nm)
        out = [seen[n] for n in sorted(seen)]
        self.memo[key] = out
        return out

    def class_table(self, name: str) -> dict | None:
        """A class-level ``NAME = {"k": "method_name", ...}`` constant visible from the class."""
        for ci in self.c.mro(self.k):
            for st in ci.node.body:
                tgt = st.targets[0] if isinstance(st, ast.Assign) and len(st.targets) == 1 else st.target if isinstance(st, ast.AnnAssign) else None
                if isinstance(tgt, ast.Name) and tgt.id == name and isinstance(getattr(st, "value", None), ast.Dict):
                    try:
                        return ast.literal_eval(st.value)
                    except Exception:
                        return None
        return None

    def table_dispatch_names(self, call: ast.Call, fi: FunctionInfo) -> list[str] | None:
        """``getattr(self, self.TABLE[k])(...)`` / ``getattr(self, self.TABLE.get(k))(...)``: the method names in TABLE."""
        f = call.func
        if not (isinstance(f, ast.Call) and dotted(f.func) == "getattr" and len(f.args) >= 2 and isinstance(f.args[0], ast.Name) and f.args[0].id == "self"):
            return None
        sel = f.args[1]
        if isinstance(sel, ast.Name):
            defs = _all_defs(fi, sel.id)
            if len(defs) == 1:
                sel = defs[0]
        tab = None
        if isinstance(sel, ast.Subscript):
            tab = sel.value
        elif isinstance(sel, ast.Call) and isinstance(sel.func, ast.Attribute) and sel.func.attr == "get":
            tab = sel.func.value
        d = dotted(tab) if tab is not None else None
        if not d or d.split(".")[0] not in ("self", "cls") and not d.startswith("type(self)"):
            raise Unsupported(f"{fi.qualname}: dynamic method lookup `{short(f, 50)}` not understood")
        table = self.class_table(d.rsplit(".", 1)[-1])
        if not table or not all(isinstance(v, str) for v in table.values()):
            raise Unsupported(f"{fi.qualname}: `{d}` is not a class-level table of method names")
        return sorted(set(table.values()))

    def call_targets(self, call: ast.Call, fi: FunctionInfo) -> list[FunctionInfo]:
        """Package functions a call can reach: self.m(), getattr(self, TABLE[k])(), Class.m(), f()."""
        names = self.table_dispatch_names(call, fi)
        if names is not None:
            out = [self.method(n) for n in names]
            if any(m is None for m in out):
                raise Unsupported(f"{fi.qualname}: dispatch table names a missing method")
            return out  # type: ignore[return-value]
        m = self.resolve_callee(call, fi)
        return [m] if m is not None else []

    def _param_for_arg(self, call: ast.Call, m: FunctionInfo, pred) -> list[str]:
        """Names of the parameters of ``m`` that receive an argument satisfying ``pred`` at ``call``."""
        ps = m.params
        off = 1 if ps and ps[0] in ("self", "cls") and m.cls is not None and "staticmethod" not in m.decorators() else 0
        out = []
        for i, a in enumerate(call.args):
            if isinstance(a, ast.Starred):
                if any(pred(x) for x in ast.walk(a)):
                    raise Unsupported(f"starred argument at {m.fq} call")
                continue
            if pred(a):
                if i + off >= len(ps):
                    raise Unsupported(f"too many positional arguments for {m.fq}")
                out.append(ps[i + off])
        for kw in call.keywords:
            if kw.arg is None:
                if any(pred(x) for x in ast.walk(kw.value)):
                    raise Unsupported("** argument")
                continue
            if pred(kw.value):
                out.append(kw.arg)
        return out

    def resolve_callee(self, call: ast.Call, fi: FunctionInfo) -> FunctionInfo | None:
        if _is_self_call(call):
            return self.method(call.func.attr)
        d = dotted(call.func)
        if d and "." not in d:
            return self.c.find_function(fi.module.resolve(d)) if fi.module.resolve(d) != d else fi.module.functions.get(d)
        if d and d.count(".") == 1:
            head, meth = d.split(".")
            if head == "cls" and fi.cls is not None:
                return self.c.lookup_method(fi.cls, meth)
            r = fi.module.resolve(head)
            ci = self.c.find_class(r) if r != head else fi.module.classes.get(head)
            if ci is None and head in fi.module.classes:
                ci = fi.module.classes[head]
            if ci is not None:
                return self.c.lookup_method(ci, meth)
        return None

    # -- producers ------------------------------------------------------------
    def is_producer(self, e: ast.expr, fi: FunctionInfo) -> str | None:
        if not isinstance(e, ast.Call):
            return None
        nc = _node_class(e, fi.module)
        if nc is not None:
            return None if nc.endswith(".document") else nc
        if isinstance(e.func, ast.Name):
            a = fi.node.args
            for p in a.posonlyargs + a.args + a.kwonlyargs:
                if p.arg == e.func.id and p.annotation is not None and unparse(p.annotation).startswith("type[nodes."):
                    return unparse(p.annotation)
        if _is_self_call(e):
            m = self.method(e.func.attr)
            if m is not None and not m.is_lambda and m.node.returns is not None:
                r = m.node.returns
                d = dotted(r)
                if d and m.module.resolve(d).startswith(NODE_MODS) and not d.endswith(".document"):
                    return m.module.resolve(d)
        return None

    # -- attach events ----------------------------------------------------------
    def attach_weight(self, st, name: str, fi: FunctionInfo) -> int:
        w = 0
        is_n = lambda x: isinstance(x, ast.Name) and x.id == name  # noqa: E731

        def direct(elems) -> bool:
            for a in elems:
                if is_n(a):
                    return True
                if isinstance(a, ast.Starred) and isinstance(a.value, (ast.List, ast.Tuple)) and any(is_n(x) for x in a.value.elts):
                    return True
                if isinstance(a, (ast.List, ast.Tuple)) and any(is_n(x) for x in a.elts):
                    return True
            return False

        # `return n` hands the node to the caller: judged in track() (a transfer only if it was not attached before)
        if isinstance(st, ast.AugAssign) and isinstance(st.op, ast.Add) and not is_n(st.target) and direct([st.value]):
            w += 1
        if isinstance(st, (ast.Assign, ast.AnnAssign)) and direct([getattr(st, "value", None)]):
            tgts = st.targets if isinstance(st, ast.Assign) else [st.target]
            if any(isinstance(t, ast.Name) for t in tgts):
                raise Unsupported(f"{fi.qualname}: `{short(st, 50)}` aliases the node `{name}`")
            # stored in a registry slot (dict entry / attribute): not an attachment, but the node escapes;
            # `self.current_node = n` is the rebinding judged by R4, not a registry
            if not all(isinstance(t, ast.Attribute) and t.attr == "current_node" for t in tgts):
                self.escapes.add((fi.fq, name))
        for root in _header_exprs(st):
            for c in _walk_expr(root):
                if not isinstance(c, ast.Call):
                    continue
                hit = direct(c.args) or any(is_n(k.value) for k in c.keywords)
                if not hit:
                    continue
                f = c.func
                if isinstance(f, ast.Attribute) and f.attr in ("append", "extend", "insert") and not is_n(f.value):
                    if direct(c.args):
                        w += 1
                    continue
                if _is_self_call(c, "current_node_context"):
                    if not (c.args and is_n(c.args[0])):
                        raise Unsupported(f"{fi.qualname}: current_node_context call `{short(c, 50)}`")
                    ap = arg_or_kw(c, 1, "append")
                    if ap is None or (isinstance(ap, ast.Constant) and ap.value is False):
                        continue
                    if isinstance(ap, ast.Constant) and ap.value is True:
                        w += 1
                        continue
                    raise Unsupported(f"{fi.qualname}: append={short(ap, 30)} is not a constant")
                if _node_class(c, fi.module) is not None:
                    if direct(c.args):
                        w += 1
                    continue
                d = dotted(f) or ""
                if d in BENIGN_CALLEES or d.split(".")[-1] in ("deepcopy", "copy") or (isinstance(f, ast.Attribute) and (f.attr.startswith("note_") or f.attr in ("index", "count", "remove", "first_child_matching_class", "first_child_not_matching_class"))):
                    continue  # copies, registrations and pure lookups (list.index / Element.index ...) leave the tree as it is
                m = self.resolve_callee(c, fi)
                if m is None:
                    raise Unsupported(f"{fi.qualname}: node `{name}` is handed to `{short(c, 60)}`, whose effect on the tree is unknown")
                for p in self._param_for_arg(c, m, lambda x: is_n(x) or (isinstance(x, (ast.List, ast.Tuple)) and any(is_n(y) for y in x.elts))):
                    s = self.attach_summary(m, p)
                    if s == {1}:
                        w += 1
                    elif s != {0}:
                        raise Unsupported(f"{m.fq} attaches its parameter `{p}` {sorted(s)} times depending on the path")
        return w

    def attach_summary(self, m: FunctionInfo, p: str) -> set[int]:
        key = ("attach", m.fq, p)
        if key in self.memo:
            if self.memo[key] is None:
                raise Unsupported(f"recursive helper {m.fq}")
            return self.memo[key]
        self.memo[key] = None
        if m.is_lambda or p not in m.params:
            raise Unsupported(f"{m.fq} has no parameter {p}")
        res = self.track(m, "ENTRY", p)
        out = set()
        for v in res.values():
            out |= v
        out = out or {0}
        self.memo[key] = out
        return out

    def track(self, fi: FunctionInfo, start, name: str) -> dict[object, set[int]]:
        cfg = get_cfg(fi)

        def weight(n):
            return self.attach_weight(n, name, fi) if isinstance(n, ast.stmt) else 0

        def is_stop(n):
            if not isinstance(n, ast.stmt):
                return False
            b = _binds(n, name)
            if b is False:
                return False
            if b is not True and _mentions(b, name):
                if (fi.fq, name, short(n, 70), fi.module.site(n)) not in self.assumed:
                    self.assumed.append((fi.fq, name, short(n, 70), fi.module.site(n)))
                return False  # the new value is derived from the old one: same object role continues
            return True

        def returns_it(n) -> bool:
            if not (isinstance(n, ast.Return) and n.value is not None):
                return False
            v = n.value
            cands = [v] + ([v.left, v.right] if isinstance(v, ast.BinOp) else []) + (list(v.elts) if isinstance(v, (ast.List, ast.Tuple)) else [])
            for c in cands:
                if isinstance(c, ast.Name) and c.id == name:
                    return True
                if isinstance(c, (ast.List, ast.Tuple)) and any(isinstance(x, ast.Name) and x.id == name for x in c.elts):
                    return True
            return False

        raw = _path_counts(cfg, start, weight, lambda n: is_stop(n) or returns_it(n))
        self.last_raw_returns = {k: set(v) for k, v in raw.items() if returns_it(k)}
        # returning an unattached node transfers the obligation to the caller (counts as its one attachment);
        # returning a node that is already attached just hands out a reference
        return {k: ({c if c >= 1 else 1 for c in v} if returns_it(k) else v) for k, v in raw.items()}

    def returned_node_kind(self, m: FunctionInfo) -> str:
        """'fresh' if the node a node-returning helper returns still has to be attached by the caller,
        'attached' if the helper attached it itself on every path."""
        key = ("retkind", m.fq)
        if key in self.memo:
            return self.memo[key]
        self.memo[key] = "fresh"
        kinds = set()
        for r in m.local_nodes():
            if isinstance(r, ast.Return) and isinstance(r.value, ast.Name):
                nm = r.value.id
                starts = [st for st in m.local_nodes() if isinstance(st, (ast.Assign, ast.AnnAssign)) and getattr(st, "value", None) is not None and _binds(st, nm) is not False and self.is_producer(st.value, m)]
                for st in starts:
                    self.track(m, st, nm)
                    for k, v in self.last_raw_returns.items():
                        if k is r:
                            kinds |= {"attached" if c >= 1 else "fresh" for c in v}
        if len(kinds) > 1:
            raise Unsupported(f"{m.fq} returns its node attached on some paths and unattached on others")
        self.memo[key] = kinds.pop() if kinds else "fresh"
        return self.memo[key]

    # -- children rendered once ---------------------------------------------------
    # The only silent way not to render the children of a link is that the link is *implicit*:
    #   IMPLICIT := tok.info == "auto"  or  tok.children is empty
    # A branch edge excuses a 0-path iff (condition of the edge) => IMPLICIT, decided by a truth table over the
    # atoms A (info == "auto"), C (children non-empty) and opaque atoms for everything else. Locals, `x is None`
    # tests, parameters (via the call sites) and helper predicates (via their return statements) are unfolded.
    def _atom(self, name: str):
        self._atoms.add(name)
        return lambda env: env[name]

    def _is_children(self, e: ast.AST, tok: str | None) -> bool:
        if isinstance(e, ast.BoolOp) and isinstance(e.op, ast.Or) and len(e.values) == 2 and isinstance(e.values[1], (ast.List, ast.Tuple)) and not e.values[1].elts:
            e = e.values[0]
        return isinstance(e, ast.Attribute) and e.attr == "children" and isinstance(e.value, ast.Name) and e.value.id == tok

    def _guards_formula(self, st, fi: FunctionInfo, tok, depth: int):
        cfg = get_cfg(fi)
        fs = []
        for t, pol in cfg.guards(cfg.stmt_of(st)):
            f = self.formula(t, fi, tok, depth + 1)[0]
            fs.append(f if pol else (lambda env, f=f: not f(env)))
        return lambda env: all(f(env) for f in fs)

    def _callee_value(self, call: ast.Call, fi: FunctionInfo, tok, depth: int, index: int | None, want: str):
        """Formula of (element ``index`` of) the value returned by a package helper that receives the token:
        ``want`` = 'truthy' or 'nonnone'. None if the call cannot be unfolded."""
        ms = self.call_targets(call, fi) if not (isinstance(call.func, ast.Subscript)) else []
        if len(ms) != 1 or ms[0].is_lambda or depth > 5:
            return None
        m = ms[0]
        pt = _tok_param(m)
        if pt is not None:
            bound = self._param_for_arg(call, m, lambda x: isinstance(x, ast.Name) and x.id == tok)
            if pt not in bound:
                pt = None
        alts = []
        for r in m.local_nodes():
            if not (isinstance(r, ast.Return) and r.value is not None):
                continue
            v = r.value
            if index is not None:
                if not (isinstance(v, ast.Tuple) and index < len(v.elts)):
                    return None
                v = v.elts[index]
            g = self._guards_formula(r, m, pt, depth)
            if want == "nonnone":
                if isinstance(v, ast.Constant):
                    val = (lambda env, b=v.value is not None: b)
                elif isinstance(v, ast.Name):
                    val = self.nonnone(v.id, m, pt, depth + 1)
                else:
                    val = lambda env: True  # noqa: E731
            else:
                val = self.formula(v, m, pt, depth + 1)[0]
            alts.append(lambda env, g=g, val=val: g(env) and val(env))
        if not alts:
            return None
        return lambda env: any(a(env) for a in alts)

    def nonnone(self, name: str, fi: FunctionInfo, tok, depth: int):
        """Formula of 'local ``name`` is not None' from its assignments and their guards."""
        alts = []
        for st in fi.local_nodes():
            if not isinstance(st, (ast.Assign, ast.AnnAssign)) or getattr(st, "value", None) is None:
                continue
            tgts = st.targets if isinstance(st, ast.Assign) else [st.target]
            for t in tgts:
                if isinstance(t, ast.Name) and t.id == name:
                    if isinstance(st.value, ast.Constant) and st.value.value is None:
                        continue
                    g = self._guards_formula(st, fi, tok, depth)
                    alts.append(g)
                elif isinstance(t, (ast.Tuple, ast.List)):
                    for i, el in enumerate(t.elts):
                        if isinstance(el, ast.Name) and el.id == name:
                            g = self._guards_formula(st, fi, tok, depth)
                            cv = self._callee_value(st.value, fi, tok, depth + 1, i, "nonnone") if isinstance(st.value, ast.Call) else None
                            if cv is None:
                                cv = self._atom(f"O:{fi.fq}:{name} is not None after {short(st, 40)}")
                            alts.append(lambda env, g=g, cv=cv: g(env) and cv(env))
        if name in fi.params:
            return self._atom(f"O:{fi.fq}:{name} is not None")
        return lambda env: any(a(env) for a in alts)

    def formula(self, e: ast.AST, fi: FunctionInfo, tok: str | None, depth: int = 0) -> list:
        """Truthiness of ``e`` as boolean functions over the atom assignment (one per call-site alternative)."""
        def opaque():
            return [self._atom(f"O:{fi.fq}:{unparse(e)}")]

        if depth > 8:
            return opaque()
        if isinstance(e, ast.Constant):
            return [lambda env, b=bool(e.value): b]
        if isinstance(e, ast.UnaryOp) and isinstance(e.op, ast.Not):
            return [(lambda env, f=f: not f(env)) for f in self.formula(e.operand, fi, tok, depth + 1)]
        if self._is_children(e, tok):
            return [self._atom("C")]
        if isinstance(e, ast.BoolOp):
            combos = [[]]
            for v in e.values:
                fs = self.formula(v, fi, tok, depth + 1)
                combos = [c + [f] for c in combos for f in fs][:8]
            if isinstance(e.op, ast.And):
                return [(lambda env, c=c: all(f(env) for f in c)) for c in combos]
            return [(lambda env, c=c: any(f(env) for f in c)) for c in combos]
        if isinstance(e, ast.Compare) and len(e.ops) == 1:
            l, op, r = e.left, e.ops[0], e.comparators[0]
            if isinstance(l, ast.Attribute) and l.attr == "info" and isinstance(l.value, ast.Name) and l.value.id == tok and isinstance(r, ast.Constant) and r.value == "auto" and isinstance(op, (ast.Eq, ast.NotEq)):
                a = self._atom("A")
                return [a if isinstance(op, ast.Eq) else (lambda env: not a(env))]
            if isinstance(l, ast.Call) and dotted(l.func) == "len" and l.args and self._is_children(l.args[0], tok) and isinstance(r, ast.Constant) and isinstance(r.value, int):
                c = self._atom("C")
                table = {(ast.Gt, 0): True, (ast.GtE, 1): True, (ast.NotEq, 0): True, (ast.Eq, 0): False, (ast.Lt, 1): False, (ast.LtE, 0): False}
                pol = table.get((type(op), r.value))
                if pol is not None:
                    return [c if pol else (lambda env: not c(env))]
            if isinstance(l, ast.Name) and isinstance(r, ast.Constant) and r.value is None and isinstance(op, (ast.Is, ast.IsNot, ast.Eq, ast.NotEq)):
                nn = self.nonnone(l.id, fi, tok, depth + 1)
                return [nn if isinstance(op, (ast.IsNot, ast.NotEq)) else (lambda env: not nn(env))]
            return opaque()
        if isinstance(e, ast.Call):
            d = dotted(e.func) or ""
            if d == "bool" and len(e.args) == 1:
                return self.formula(e.args[0], fi, tok, depth + 1)
            if d == "len" and e.args and self._is_children(e.args[0], tok):
                return [self._atom("C")]
            if tok is not None and any(isinstance(a, ast.Name) and a.id == tok for a in list(e.args) + [k.value for k in e.keywords]):
                cv = self._callee_value(e, fi, tok, depth + 1, None, "truthy")
                if cv is not None:
                    return [cv]
            return opaque()
        if isinstance(e, ast.Name):
            if e.id in fi.params and e.id != tok and e.id not in ("self", "cls"):
                alts = []
                for g in self.scope():
                    for c in g.local_nodes():
                        if isinstance(c, ast.Call) and fi in self.call_targets_safe(c, g):
                            args = self._args_for_param(c, fi, e.id)
                            tg = _tok_param(g)
                            # the same token must travel along
                            pt = _tok_param(fi)
                            same = pt is not None and tg is not None and any(isinstance(a, ast.Name) and a.id == tg for a in self._args_for_param(c, fi, pt))
                            for a in args:
                                alts.extend(self.formula(a, g, tg if same else None, depth + 1))
                return alts[:8] or opaque()
            defs = [st for st in fi.local_nodes() if isinstance(st, ast.stmt) and _binds(st, e.id) is not False]
            if len(defs) == 1 and isinstance(defs[0], (ast.Assign, ast.AnnAssign)):
                st = defs[0]
                tgts = st.targets if isinstance(st, ast.Assign) else [st.target]
                if len(tgts) == 1 and isinstance(tgts[0], ast.Name):
                    return self.formula(st.value, fi, tok, depth + 1)
                if len(tgts) == 1 and isinstance(tgts[0], (ast.Tuple, ast.List)) and isinstance(st.value, ast.Call):
                    for i, el in enumerate(tgts[0].elts):
                        if isinstance(el, ast.Name) and el.id == e.id:
                            cv = self._callee_value(st.value, fi, tok, depth + 1, i, "truthy")
                            if cv is not None:
                                return [cv]
            return opaque()
        return opaque()

    def call_targets_safe(self, call: ast.Call, fi: FunctionInfo) -> list[FunctionInfo]:
        try:
            return self.call_targets(call, fi)
        except Unsupported:
            return []

    def _args_for_param(self, call: ast.Call, m: FunctionInfo, pname: str) -> list[ast.expr]:
        ps = m.params
        off = 1 if ps and ps[0] in ("self", "cls") and m.cls is not None and "staticmethod" not in m.decorators() else 0
        out = []
        if pname in ps:
            i = ps.index(pname) - off
            if 0 <= i < len(call.args) and not any(isinstance(a, ast.Starred) for a in call.args[: i + 1]):
                out.append(call.args[i])
        for kw in call.keywords:
            if kw.arg == pname:
                out.append(kw.value)
        return out

    def edge_implies_implicit(self, test: ast.expr, pol: bool, fi: FunctionInfo, tok: str | None) -> bool:
        """(test == pol)  =>  (tok.info == 'auto' or not tok.children), for every assignment of the atoms."""
        import itertools

        self._atoms = set()
        fs = self.formula(test, fi, tok)
        atoms = sorted(self._atoms | {"A", "C"})
        if len(atoms) > 12:
            return False
        sat = False
        for f in fs:
            for vals in itertools.product((False, True), repeat=len(atoms)):
                env = dict(zip(atoms, vals))
                if bool(f(env)) == pol:
                    sat = True
                    if not (env["A"] or not env["C"]):
                        return False
        return sat

    def is_report(self, st, fi: FunctionInfo) -> bool:
        for root in _header_exprs(st):
            for c in _walk_expr(root):
                if isinstance(c, ast.Call):
                    if _is_self_call(c, "create_warning"):
                        return True
                    f = c.func
                    if isinstance(f, ast.Attribute) and f.attr in REPORT_ATTRS and "reporter" in unparse(f.value):
                        return True
        return False

    def consume_weight(self, st, name: str, fi: FunctionInfo) -> set[int]:
        """How often the statement renders the children of ``name``; several values when a dispatch table
        selects among handlers that differ."""
        w = 0
        totals = {0}
        is_n = lambda x: isinstance(x, ast.Name) and x.id == name  # noqa: E731
        in_seq = lambda x: isinstance(x, (ast.List, ast.Tuple)) and any(is_n(y) for y in x.elts)  # noqa: E731
        for root in _header_exprs(st):
            for c in _walk_expr(root):
                if not isinstance(c, ast.Call):
                    continue
                allargs = list(c.args) + [k.value for k in c.keywords]
                if not any(is_n(a) or in_seq(a) for a in allargs):
                    continue
                if _is_self_call(c, "render_children"):
                    w += 1
                    continue
                if not (_is_self_call(c) or isinstance(c.func, ast.Call)):
                    continue
                ms = self.call_targets(c, fi)
                if not ms:
                    continue
                ws = set()
                for m in ms:
                    wm = 0
                    for p in self._param_for_arg(c, m, is_n):
                        k, mode = self.consume_summary(m, p)
                        wm += k if mode != "each" else 0
                    for p in self._param_for_arg(c, m, in_seq):
                        k, mode = self.consume_summary(m, p)
                        wm += k if mode == "each" else 0
                    ws.add(wm)
                totals = {t + x for t in totals for x in ws}
        return {min(2, w + t) for t in totals}

    def consume_paths(self, fi: FunctionInfo, start, name: str, extra_stop=None) -> tuple[set[tuple[int, bool]], list]:
        """Set of (count, excused) over the paths from ``start`` to EXIT / rebinding of ``name`` / extra stop."""
        cfg = get_cfg(fi)
        tok = _tok_param(fi)
        entry_nodes = [s for s in cfg.succ.get("ENTRY", [])]
        states: dict[object, set[tuple[int, bool]]] = {}
        done: dict[object, set[tuple[int, bool]]] = {}
        result: set[tuple[int, bool]] = set()
        work = []
        report_excuses = fi.fq not in self.inline_scope()
        # a start that lies inside a branch which has already reported (e.g. the clean-up walk after a
        # 'duplicate definition' warning) is excused as a whole
        pre = False
        if report_excuses and start != "ENTRY":
            sn = start if not isinstance(start, tuple) else start
            for d in cfg.dom().get(sn, set()):
                if isinstance(d, ast.stmt) and d is not sn and self.is_report(d, fi) and not all(cfg.postdominates(d, e) for e in entry_nodes if isinstance(e, ast.stmt)):
                    pre = True
        for s in cfg.succ.get(start, []):
            states.setdefault(s, set()).add((0, pre))
            work.append(s)
        dep_cache: dict = {}
        while work:
            n = work.pop()
            cur = states.get(n, set())
            if n == EXIT or n == start or (extra_stop is not None and n is extra_stop) or (isinstance(n, ast.stmt) and _binds(n, name) is not False):
                result |= cur
                continue
            if n == "RAISE" or (isinstance(n, tuple) and n[0] == "H"):
                continue
            new = cur - done.get(n, set())
            if not new:
                continue
            done.setdefault(n, set()).update(new)
            ws = {0}
            flag = False
            if isinstance(n, ast.stmt):
                ws = self.consume_weight(n, name, fi)
                if report_excuses and self.is_report(n, fi) and not all(cfg.postdominates(n, e) for e in entry_nodes if isinstance(e, ast.stmt)):
                    flag = True  # a conditional report: the loss on this path is announced (block-level containers only)
            elif isinstance(n, tuple) and n[0] in ("T", "F") and isinstance(n[1], ast.If):
                key = (id(n[1]), n[0])
                if key not in dep_cache:
                    dep_cache[key] = self.edge_implies_implicit(n[1].test, n[0] == "T", fi, tok)
                flag = dep_cache[key]
            out = {(min(2, c + w), x or flag) for c, x in new for w in ws}
            for s in cfg.succ.get(n, []):
                if not out <= states.get(s, set()):
                    states.setdefault(s, set()).update(out)
                    work.append(s)
        return result, []

    def consume_summary(self, m: FunctionInfo, p: str) -> tuple[int, str]:
        """(1, "") the callee renders the children of its parameter once on every judged path;
        (0, "") it never does; raises for mixed behaviour of a helper (reported at the helper)."""
        key = ("consume", m.fq, p)
        if key in self.memo:
            if self.memo[key] is None:
                return (0, "recursive")  # dispatcher recursion: render_children -> handlers
            return self.memo[key]
        self.memo[key] = None
        if m.is_lambda or p not in m.params:
            self.memo[key] = (0, "")
            return self.memo[key]
        res, _ = self.consume_paths(m, "ENTRY", p)
        counts = {c for c, _x in res}
        if counts <= {0}:
            # loop-based consumption of <p>.children, or of <p> itself when it is a sequence of tokens
            if self.child_loops(m, p, judged_only=True) or self.delegated_loops(m, p):
                out = (1, "loop")
            elif self.sequence_loops(m, p):
                out = (1, "each")
            else:
                out = (0, "")
        else:
            bad = {(c, x) for c, x in res if not (c == 1 or (c == 0 and x))}
            out = (1, "bad" if bad else "")
        self.memo[key] = out
        return out

    def derives_from(self, e: ast.AST, fi: FunctionInfo, name: str) -> bool:
        seen: set[str] = set()
        work = [e]
        while work:
            x = work.pop()
            for n in ast.walk(x):
                if isinstance(n, ast.Name):
                    if n.id == name:
                        return True
                    if n.id not in seen:
                        seen.add(n.id)
                        work.extend(_all_defs(fi, n.id))
                        for st in fi.local_nodes():
                            if isinstance(st, (ast.For, ast.comprehension)) and any(isinstance(t, ast.Name) and t.id == n.id for t in ast.walk(st.target)):
                                work.append(st.iter)
        return False

    # -- leaf emission ---------------------------------------------------------------
    def emit_weight(self, st, fi: FunctionInfo) -> int:
        """Does the statement add something to the node currently being filled?"""
        if isinstance(st, ast.AugAssign) and isinstance(st.op, ast.Add) and unparse(st.target) == "self.current_node":
            return 1
        for root in _header_exprs(st):
            for c in _walk_expr(root):
                if not isinstance(c, ast.Call):
                    continue
                f = c.func
                if isinstance(f, ast.Attribute) and f.attr in ("append", "extend", "insert") and unparse(f.value) == "self.current_node":
                    return 1
                if _is_self_call(c, "current_node_context"):
                    ap = arg_or_kw(c, 1, "append")
                    if isinstance(ap, ast.Constant) and ap.value is True:
                        return 1
                    continue
                if _is_self_call(c, "create_warning") or _is_self_call(c, "render_children"):
                    continue
                if _is_self_call(c) or isinstance(f, ast.Call):
                    ms = self.call_targets_safe(c, fi)
                    if ms and all(self.emits_always(m) for m in ms):
                        return 1
        return 0

    def emit_counts(self, fi: FunctionInfo, tok: str | None) -> set[int]:
        cfg = get_cfg(fi)

        def empty_content_edge(n) -> bool:
            # `if not tok.content:` / else-branch of `if tok.content:` - nothing to show for an empty leaf
            if not (isinstance(n, tuple) and n[0] in ("T", "F") and isinstance(n[1], ast.If)):
                return False
            t, pol = n[1].test, n[0] == "T"
            if isinstance(t, ast.UnaryOp) and isinstance(t.op, ast.Not):
                t, pol = t.operand, not pol
            return not pol and isinstance(t, ast.Attribute) and t.attr == "content" and isinstance(t.value, ast.Name) and t.value.id == tok

        res = _path_counts(cfg, "ENTRY", lambda n: self.emit_weight(n, fi) if isinstance(n, ast.stmt) else 0, empty_content_edge)
        return set(res.get(EXIT, set()))

    def emits_always(self, m: FunctionInfo) -> bool:
        key = ("emits", m.fq)
        if key in self.memo:
            return bool(self.memo[key])
        self.memo[key] = False  # recursion: assume nothing
        if m.is_lambda:
            return False
        got = self.emit_counts(m, _tok_param(m))
        self.memo[key] = bool(got) and 0 not in got
        return self.memo[key]

    def inline_scope(self) -> set[str]:
        """Handlers of inline container tokens (link, em, strong, s, span ...) and the helpers they hand their token to:
        there a warning does not excuse dropping the children - inline text must not vanish from its paragraph."""
        key = ("inline-scope",)
        if key in self.memo:
            return self.memo[key]
        self.memo[key] = set()
        tt = _token_types(self.c)
        out: set[str] = set()
        work = [m for m in (self.method(f"render_{t}") for t in tt.inline_containers()) if m is not None]
        while work:
            f = work.pop()
            if f.fq in out or f.is_lambda:
                continue
            out.add(f.fq)
            toks = set(_tok_params(f))
            for c in f.local_nodes():
                if isinstance(c, ast.Call) and (_is_self_call(c) or isinstance(c.func, ast.Call)) and not _is_self_call(c, "render_children") and any(isinstance(a, ast.Name) and a.id in toks for a in list(c.args) + [k.value for k in c.keywords]):
                    for m in self.call_targets_safe(c, f):
                        if _tok_params(m):
                            work.append(m)
        self.memo[key] = out
        return out

    def sequence_loops(self, m: FunctionInfo, p: str) -> bool:
        """``for t in p [or []]`` loops of a helper whose parameter ``p`` is a sequence of tokens, every iteration
        of which renders ``t`` once (or is excused)."""
        found = False
        for n in m.local_nodes():
            if isinstance(n, ast.For) and isinstance(n.target, ast.Name):
                it = n.iter
                if isinstance(it, ast.BoolOp) and isinstance(it.op, ast.Or) and len(it.values) == 2:
                    it = it.values[0]
                if isinstance(it, ast.Name) and it.id == p:
                    res, _ = self.consume_paths(m, ("T", n), n.target.id, extra_stop=n)
                    if any(c >= 1 for c, _x in res):
                        if any(not (c == 1 or (c == 0 and x)) for c, x in res):
                            return False
                        found = True
        return found

    def delegated_loops(self, fi: FunctionInfo, tok: str) -> list[ast.Call]:
        """Calls that hand ``<..tok..>.children`` to a helper which renders every element of that sequence once."""
        out = []
        for c in fi.local_nodes():
            if not (isinstance(c, ast.Call) and (_is_self_call(c) or isinstance(c.func, ast.Call))):
                continue
            for a in list(c.args) + [k.value for k in c.keywords]:
                if isinstance(a, ast.Name) and a.id == tok:
                    continue
                txt = unparse(a) + "".join(unparse(d) for nm in ast.walk(a) if isinstance(nm, ast.Name) for d in _all_defs(fi, nm.id))
                if "children" not in txt or not self.derives_from(a, fi, tok):
                    continue
                for m in self.call_targets_safe(c, fi):
                    for p in self._param_for_arg(c, m, lambda x, a=a: x is a):
                        if self.consume_summary(m, p) == (1, "each"):
                            out.append(c)
        return out

    def any_rendering_loop(self, fi: FunctionInfo) -> bool:
        """Some loop / pop-binding in the function renders its variable (whatever it iterates over)."""
        for n in fi.local_nodes():
            start = var = stop = None
            if isinstance(n, ast.For) and isinstance(n.target, ast.Name):
                start, var, stop = ("T", n), n.target.id, n
            elif isinstance(n, ast.Assign) and len(n.targets) == 1 and isinstance(n.targets[0], ast.Name) and isinstance(n.value, ast.Call) and isinstance(n.value.func, ast.Attribute) and n.value.func.attr == "pop":
                start, var = n, n.targets[0].id
            if start is not None:
                res, _ = self.consume_paths(fi, start, var, extra_stop=stop)
                if any(c >= 1 for c, _x in res):
                    return True
        return False

    def child_loops(self, fi: FunctionInfo, tok: str, judged_only: bool = False) -> list[tuple[object, str, ast.AST]]:
        """Bindings of child tokens of ``tok``: (start node, variable, site) for ``for c in <..tok..>.children`` loops
        and ``c = <list derived from tok.children>.pop(...)`` assignments."""
        out = []
        for n in fi.local_nodes():
            if isinstance(n, ast.For) and isinstance(n.target, ast.Name) and self.derives_from(n.iter, fi, tok) and "children" in unparse(n.iter) + "".join(unparse(d) for nm in ast.walk(n.iter) if isinstance(nm, ast.Name) for d in _all_defs(fi, nm.id)):
                out.append((("T", n), n.target.id, n))
            elif isinstance(n, ast.Assign) and len(n.targets) == 1 and isinstance(n.targets[0], ast.Name) and isinstance(n.value, ast.Call) and isinstance(n.value.func, ast.Attribute) and n.value.func.attr == "pop" and self.derives_from(n.value.func.value, fi, tok):
                out.append((n, n.targets[0].id, n))
        out.sort(key=lambda x: (x[2].lineno, x[2].col_offset))
        if judged_only:
            keep = []
            for start, var, site in out:
                stop = start[1] if isinstance(start, tuple) else None
                res, _ = self.consume_paths(fi, start, var, extra_stop=stop)
                if any(c >= 1 for c, _x in res):
                    keep.append((start, var, site))
            return keep
        return out


def _nesting(corpus: Corpus, klass) -> Nesting:
    return corpus.cache(("c02-nesting", klass.fq), lambda: Nesting(corpus, klass))


@rule("C02.R2")
def r2_nesting_discipline(corpus: Corpus, rep: Report, tier: str):
    rep.rule("C02.R2", "every constructed node is attached exactly once on every normal path; handlers render the token's children exactly once, inside the context of the node they built (paths that report, or that depend on the link being implicit, may skip them)")
    _load_node_classes(corpus, rep)
    tt = _token_types(corpus, rep)
    containers = tt.containers()
    n_nodes = n_cont = 0
    base_ci = corpus.cls(RENDERER)
    for klass in _renderer_classes(corpus):
        an = _nesting(corpus, klass)
        for fi in an.scope():
            own = fi.cls is not None and fi.cls.fq == klass.fq
            if not own and (klass.fq == base_ci.fq or not _calls_overridden(corpus, fi, klass)):
                continue  # inherited unchanged: judged in the defining class
            ctx = "" if own else f"|as {klass.name}"
            rep.saw_function(fi.fq)
            cfg = get_cfg(fi)
            ordinals: dict[str, int] = {}

            def uniq(k: str) -> str:
                ordinals[k] = ordinals.get(k, 0) + 1
                return k + (f"#{ordinals[k]}" if ordinals[k] > 1 else "") + ctx

            # (a) attach-once
            produced: set[str] = set()
            empty_elems: set[str] = set()
            stmts = sorted((s for s in fi.local_nodes() if isinstance(s, (ast.Assign, ast.AnnAssign))), key=lambda s: (s.lineno, s.col_offset))
            for st in stmts:
                if st.value is None:
                    continue
                tgts = st.targets if isinstance(st, ast.Assign) else [st.target]
                if not (len(tgts) == 1 and isinstance(tgts[0], ast.Name)):
                    continue
                prod = an.is_producer(st.value, fi)
                if prod is None:
                    continue
                name = tgts[0].id
                produced.add(name)
                t_arg = st.value.args[1] if len(st.value.args) > 1 else None
                if _node_class(st.value, fi.module) is not None and (t_arg is None or (isinstance(t_arg, ast.Constant) and t_arg.value == "")):
                    empty_elems.add(name)  # built without text: a container waiting for children
                kk = uniq(f"{fi.fq}|{name} = {short(st.value.func, 50)}(...)|attached once")
                n_nodes += 1
                if not cfg.is_reachable(st):
                    continue
                res = an.track(fi, st, name)
                pre = 0
                if _is_self_call(st.value) and _node_class(st.value, fi.module) is None:
                    hm = an.method(st.value.func.attr)
                    if hm is not None and an.returned_node_kind(hm) == "attached":
                        pre = 1  # the helper attached the node it returns: the caller must not attach it again
                counts = set()
                for v in res.values():
                    counts |= {min(2, c + pre) for c in v}
                site = fi.module.site(st)
                cname = prod.rsplit(".", 1)[-1]
                if not res:
                    rep.error("C02.R2", f"{fi.fq}: no normal path from `{short(st, 40)}` to the exit")
                elif counts == {1}:
                    rep.ok("C02.R2", kk, site, cname)
                elif 0 in counts and (fi.fq, name) in an.escapes:
                    rep.error("C02.R2", f"{fi.fq}: `{name}` is stored in a registry slot and not attached on some path; ownership not understood")
                elif 0 in counts:
                    where = [_stop_text(n) for n, v in res.items() if 0 in v]
                    rep.violation("C02.R2", kk, site, f"`{name}` ({cname}) is built but on some path to {where[0]} never attached to the tree: what was rendered into it is lost")
                else:
                    rep.violation("C02.R2", kk, site, f"`{name}` ({cname}) is attached more than once on some path: the subtree appears twice")
            # (b) children-once, per token parameter
            is_container = fi.name.startswith("render_") and fi.name[len("render_"):] in containers
            for tok in _tok_params(fi):
                kk = uniq(f"{fi.fq}|children of {tok} rendered once")
                if _judge_children(an, fi, tok, "ENTRY", None, kk, rep, required=is_container and tok == _tok_param(fi)):
                    n_cont += 1
                # (c) loops over child tokens
                for start, var, site_node in an.child_loops(fi, tok):
                    k = uniq(f"{fi.fq}|each `{var}` of {short(site_node.iter if isinstance(site_node, ast.For) else site_node.value, 40)} rendered once")
                    stop = start[1] if isinstance(start, tuple) else None
                    _judge_children(an, fi, var, start, stop, k, rep, required=False)
            # (d) children are rendered inside the context of an (empty) element built here
            produced = {n for n in produced if n in empty_elems}
            if produced:
                for c in sorted((c for c in fi.local_nodes() if isinstance(c, ast.Call) and _is_self_call(c, "render_children")), key=lambda c: (c.lineno, c.col_offset)):
                    kk = uniq(f"{fi.fq}|{short(c, 50)} inside the context of a new node")
                    inner = None
                    for a in ancestors(c):
                        if isinstance(a, (ast.FunctionDef, ast.AsyncFunctionDef)):
                            break
                        if isinstance(a, ast.With):
                            ctxs = [i.context_expr for i in a.items if isinstance(i.context_expr, ast.Call) and _is_self_call(i.context_expr, "current_node_context")]
                            if ctxs:
                                inner = ctxs[-1]
                                break
                    if inner is None:
                        rep.violation("C02.R2", kk, fi.module.site(c), f"{fi.qualname} builds {sorted(produced)} but renders the children outside any current_node_context: they become siblings of the new node instead of its children")
                    elif inner.args and isinstance(inner.args[0], ast.Name) and inner.args[0].id in produced:
                        rep.ok("C02.R2", kk, fi.module.site(c), f"inside current_node_context({inner.args[0].id})")
                    else:
                        rep.violation("C02.R2", kk, fi.module.site(c), f"the innermost context around the rendering of the children is `{short(inner, 50)}`, not a node built by {fi.qualname}")
            # (e) what is stored in the node of one child is computed from that child
            for loop, x, use, stale in _per_child_values(an, fi):
                kk = uniq(f"{fi.fq}|`{x}`, stored in the node built for each child, is computed from that child")
                if stale:
                    rep.violation("C02.R2", kk, fi.module.site(use), f"`{x}` is assigned only on some paths of an iteration of the per-child loop (and is not an accumulator), yet `{short(use, 50)}` stores it in the node built for the current child on every path: a child for which it is not assigned inherits the value computed for an earlier child (e.g. a table cell without alignment takes the alignment of the cell to its left)")
                else:
                    rep.ok("C02.R2", kk, fi.module.site(use), "assigned on every path of the iteration before it is stored")
        # (f) a leaf token always leaves something in the doctree
        for t in EMITTING_LEAVES:
            fi = an.method(f"render_{t}")
            if fi is None or fi.cls is None or fi.cls.fq != klass.fq:
                continue
            got = an.emit_counts(fi, _tok_param(fi))
            k = f"{fi.fq}|every path adds the leaf to the doctree"
            if not got:
                rep.error("C02.R2", f"{fi.fq}: no normal path to the exit")
            elif 0 in got:
                rep.violation("C02.R2", k, fi.site(), f"{fi.qualname} has a path that adds nothing to the node being filled: the `{t}` leaf of the source is missing from the doctree on that path (a warning does not stand for it)")
            else:
                rep.ok("C02.R2", k, fi.site(), "append / context / delegation on every normal path")
        # (g) nothing that was rendered is taken out of the live tree again
        if klass.fq == base_ci.fq:
            for fi, op, root, why in _live_tree_removals(corpus, an):
                k = f"{fi.fq}|{short(op, 50)} works on a copy"
                if why:
                    rep.violation("C02.R2", k, fi.module.site(op), f"`{short(op, 50)}` removes nodes from `{root}`, {why}" + ("" if why.startswith("and ") else ": nodes that were rendered into the doctree disappear from it again"))
                elif -id(op) in getattr(_live_tree_removals, "relocations", set()):
                    rep.ok("C02.R2", k, fi.module.site(op), "detach-and-return: only system_message nodes are removed and the list of them is returned for the caller to place")
                elif id(op) in getattr(_live_tree_removals, "relocations", set()):
                    rep.ok("C02.R2", k, fi.module.site(op), "a relocation: each removed system_message is re-inserted exactly once; no content node is moved")
                else:
                    rep.ok("C02.R2", k, fi.module.site(op), f"`{root}` is a private copy on every path to the removal")
        if klass.fq == base_ci.fq:
            # (j) where a container's children are dropped under a reported condition, the condition looks at the token's data as it is
            for fi, rstmt, test, culprit in _drop_conditions(an, containers):
                k = f"{fi.fq}|children dropped under `{short(test, 50)}`: the token's data is compared as it is"
                if culprit is not None:
                    rep.violation("C02.R2", k, fi.module.site(rstmt), f"{fi.qualname} drops the children of its token (with a warning) under a condition that looks at a transformed copy of the token's data, `{short(culprit, 50)}`: "
                                  "tokens that markdown-it keeps apart (e.g. the footnote labels [^h] and [^H]) are taken for the same, and the content of the second one is missing from the doctree")
                else:
                    rep.ok("C02.R2", k, fi.module.site(rstmt), "token data used verbatim in the condition")
            # (h) a 'duplicate target' message must not be appended into a text element (leaf, title, rubric)
            for fi, call, verdict, why in _target_message_nodes(corpus, an):
                k = f"{fi.fq}|{short(call.func, 40).split('.')[-1]}({', '.join(short(a, 20) for a in call.args)}) message node"
                if verdict == "bad":
                    rep.violation("C02.R2", k, fi.module.site(call), why)
                elif verdict == "ok":
                    rep.ok("C02.R2", k, fi.module.site(call), why)
                else:
                    rep.listed("C02.R2", k, fi.module.site(call), why)
            # (i) a node that docutils may replace by problematic(rawsource) carries its text as rawsource
            _problematic_rawsource(corpus, rep, an)
        for fq, name, text, site in an.assumed:
            rep.assumed("C02.R2", f"{fq}|{name} rebound from itself|{text}", site, "the name is rebound to a value computed from the node itself (e.g. make_glossary_term(term.children)): the new node takes over the obligation")
        an.assumed.clear()
    if n_nodes < 40 or n_cont < 12:
        rep.error("C02.R2", f"vacuity guard: {n_nodes} node constructions / {n_cont} functions rendering children examined (expected >= 40 / >= 12)")
    rep.expect_min("C02.R2", 80, "node constructions + functions rendering children + child loops + context checks")


EMITTING_LEAVES = ("text", "code_inline", "code_block", "fence", "math_inline", "math_inline_double", "math_block", "math_block_label", "amsmath", "html_inline", "html_block", "image", "hr")
REMOVERS = ("remove", "pop", "clear", "replace", "replace_self")
COPIERS = ("deepcopy", "copy")


def _live_tree_removals(corpus: Corpus, an: Nesting):
    """(function, removal op, root name, complaint or '') for every removal of docutils nodes in the render scope and
    in the module-level helpers it calls, where the tree operated on comes from a parameter or from the renderer."""
    funcs: dict[str, FunctionInfo] = {f.fq: f for f in an.scope()}
    for ci in _renderer_classes(corpus):
        a2 = _nesting(corpus, ci)
        for f in a2.scope():
            funcs.setdefault(f.fq, f)
    work = list(funcs.values())
    while work:
        f = work.pop()
        for c in f.local_nodes():
            if isinstance(c, ast.Call) and isinstance(c.func, ast.Name):
                m = an.resolve_callee(c, f)
                if m is not None and not m.is_lambda and m.fq not in funcs and m.module.name.startswith("myst_parser.mdit_to_docutils"):
                    funcs[m.fq] = m
                    work.append(m)
    out = []
    relocations: set[int] = set()
    _live_tree_removals.relocations = relocations  # type: ignore[attr-defined]
    for f in sorted(funcs.values(), key=lambda f: f.fq):
        a = f.node.args
        node_params = {p.arg for p in a.posonlyargs + a.args + a.kwonlyargs if p.annotation is not None and "nodes." in unparse(p.annotation)}

        def origin(e: ast.AST, depth: int = 0):
            """(root name, statement at which the tree is read) of a node-valued expression."""
            while True:
                if isinstance(e, ast.Attribute) and e.attr in ("parent", "children", "document"):
                    e = e.value
                elif isinstance(e, ast.Subscript):
                    e = e.value
                elif isinstance(e, ast.Call) and dotted(e.func) in ("list", "tuple", "reversed", "iter") and e.args:
                    e = e.args[0]
                elif isinstance(e, ast.Call) and isinstance(e.func, ast.Call) and dotted(e.func.func) == "findall" and e.func.args:
                    e = e.func.args[0]
                elif isinstance(e, ast.Call) and isinstance(e.func, ast.Attribute) and e.func.attr in ("findall", "traverse", "children"):
                    e = e.func.value
                else:
                    break
            if isinstance(e, ast.Attribute) and unparse(e) in ("self.current_node", "self.document"):
                return unparse(e), None
            if isinstance(e, ast.Name):
                if e.id in node_params:
                    return e.id, None
                if depth < 3:
                    for n in f.local_nodes():
                        if isinstance(n, (ast.For, ast.comprehension)) and any(isinstance(t, ast.Name) and t.id == e.id for t in ast.walk(n.target)):
                            r = origin(n.iter, depth + 1)
                            if r is not None:
                                return r[0], (n if isinstance(n, ast.For) else r[1])
                    defs = _all_defs(f, e.id)
                    if len(defs) == 1:
                        return origin(defs[0], depth + 1)
            return None

        ops = []
        for n in f.local_nodes():
            if isinstance(n, ast.Call) and isinstance(n.func, ast.Attribute) and n.func.attr in REMOVERS:
                ops.append((n, n.func.value))
            elif isinstance(n, ast.Delete):
                for t in n.targets:
                    if isinstance(t, ast.Subscript):
                        ops.append((n, t.value))
        if not ops:
            continue
        cfg = get_cfg(f)
        for op, recv in sorted(ops, key=lambda x: x[0].lineno):
            r = origin(recv)
            if r is None:
                continue
            root, read_at = r
            # a removal that is followed, on every path of the same iteration, by exactly one re-insertion of the same node
            # is a relocation; it is harmless for the content if only system_message nodes are moved
            moved = op.args[0].id if isinstance(op, ast.Call) and op.func.attr == "remove" and len(op.args) == 1 and isinstance(op.args[0], ast.Name) else None
            if moved is not None:
                res = an.track(f, cfg.stmt_of(op), moved)
                counts = set()
                for v in res.values():
                    counts |= v
                only_messages = False
                for n in f.local_nodes():
                    if isinstance(n, ast.For) and isinstance(n.target, ast.Name) and n.target.id == moved:
                        it = n.iter
                        if isinstance(it, ast.Name) and len(_all_defs(f, it.id)) == 1:
                            it = _all_defs(f, it.id)[0]
                        while isinstance(it, ast.Call) and dotted(it.func) in ("list", "tuple", "reversed") and it.args:
                            it = it.args[0]
                        if isinstance(it, ast.Call) and it.args:
                            cls = {(dotted(a) or "").split(".")[-1] for a in it.args}
                            only_messages = bool(cls) and cls <= {"system_message"}
                if counts and counts != {0}:
                    if counts == {1} and only_messages:
                        out.append((f, op, root, ""))
                        relocations.add(id(op))
                        continue
                    if 2 in counts:
                        out.append((f, op, root, f"and re-inserts `{moved}` more than once on some path: the same node object appears twice in the tree"))
                        continue
                    if 0 in counts:
                        out.append((f, op, root, f"and re-inserts `{moved}` only on some paths: on the others the node is lost"))
                        continue
                    if not only_messages:
                        out.append((f, op, root, f"and re-inserts `{moved}` elsewhere although it is not known to be a system_message: content is moved out of its container / out of source order"))
                        continue
            if moved is not None and only_messages and (not counts or counts == {0}):
                # detach-and-return: the removed system messages come from a list that the function returns, the caller places them
                src_list = None
                for n in f.local_nodes():
                    if isinstance(n, ast.For) and isinstance(n.target, ast.Name) and n.target.id == moved and isinstance(n.iter, ast.Name):
                        src_list = n.iter.id
                rets = [r for r in f.local_nodes() if isinstance(r, ast.Return) and r.value is not None]
                if src_list is not None and rets and all(isinstance(r.value, ast.Name) and r.value.id == src_list for r in rets):
                    out.append((f, op, root, ""))
                    relocations.add(-id(op))
                    continue
            if root.startswith("self."):
                out.append((f, op, root, "the renderer's own live node"))
                continue

            def is_copy_binding(n, root=root):
                if not isinstance(n, ast.stmt):
                    return False
                b = _binds(n, root)
                return b is not False and b is not True and isinstance(b, ast.Call) and (
                    (isinstance(b.func, ast.Attribute) and b.func.attr in COPIERS) or (dotted(b.func) or "").split(".")[-1] in COPIERS
                )

            target = cfg.stmt_of(read_at if read_at is not None else op)
            if cfg.paths_avoiding("ENTRY", target, is_copy_binding):
                out.append((f, op, root, f"the node handed in by the caller, which on some path has not been replaced by a copy (`{root} = {root}.deepcopy()`)"))
            else:
                out.append((f, op, root, ""))
    return out


TOKEN_DATA_ATTRS = ("meta", "content", "info", "attrs", "markup")
NEUTRAL_CALLS = {"any", "all", "bool", "len", "isinstance", "list", "tuple", "set", "iter"}


def _param_transformed(m: FunctionInfo, pname: str):
    """A call in helper ``m`` that takes the parameter (or a local computed from it) as argument or receiver, other than
    neutral aggregations; None if the parameter is only compared / tested for membership as it is."""
    derived = {pname}
    changed = True
    while changed:
        changed = False
        for n in m.local_nodes():
            if isinstance(n, ast.Assign) and len(n.targets) == 1 and isinstance(n.targets[0], ast.Name) and n.targets[0].id not in derived and any(isinstance(x, ast.Name) and x.id in derived for x in ast.walk(n.value)):
                derived.add(n.targets[0].id)
                changed = True
    for n in sorted((c for c in m.local_nodes() if isinstance(c, ast.Call)), key=lambda c: (c.lineno, c.col_offset)):
        if (dotted(n.func) or "") in NEUTRAL_CALLS:
            continue
        args = list(n.args) + [k.value for k in n.keywords]
        recv = [n.func.value] if isinstance(n.func, ast.Attribute) else []
        for a in args + recv:
            if isinstance(a, (ast.GeneratorExp, ast.ListComp)):
                continue
            if any(isinstance(x, ast.Name) and x.id in derived for x in ast.walk(a)):
                return n
    return None


def _drop_conditions(an: "Nesting", containers: set[str]):
    """(function, report statement, guard test, transforming call or None) for every condition under which a block
    container handler reports and then leaves without rendering the token's children. The data of the token that such a
    condition inspects (label, content, attributes) must be used as markdown-it produced it: a comparison of a normalised
    copy (lower-cased, fully_normalize_name, stripped ...) merges tokens that the parser distinguishes."""
    out = []
    for fi in an.scope():
        if fi.cls is None or fi.cls.fq != an.k.fq or fi.fq in an.inline_scope():
            continue
        if not (fi.name.startswith("render_") and fi.name[len("render_"):] in containers):
            continue
        tok = _tok_param(fi)
        if tok is None:
            continue
        cfg = get_cfg(fi)
        entry = [e for e in cfg.succ.get("ENTRY", []) if isinstance(e, ast.stmt)]

        def token_data(e: ast.AST, depth: int = 0) -> bool:
            bound = {x.id for c in ast.walk(e) if isinstance(c, ast.comprehension) for x in ast.walk(c.target) if isinstance(x, ast.Name)}
            for n in ast.walk(e):
                if isinstance(n, ast.Name) and n.id in bound:
                    continue
                if isinstance(n, ast.Attribute) and n.attr in TOKEN_DATA_ATTRS and isinstance(n.value, ast.Name) and n.value.id == tok:
                    return True
                if isinstance(n, ast.Name) and depth < 4 and n.id != tok and n.id not in fi.params:
                    if any(token_data(d, depth + 1) for d in _all_defs(fi, n.id)):
                        return True
            return False

        def transforming_call(e: ast.AST, depth: int = 0):
            """A call that takes token data as argument / receiver (other than neutral aggregations), in ``e`` or in the
            definition of a local used in ``e``."""
            bound = {x.id for c in ast.walk(e) if isinstance(c, ast.comprehension) for x in ast.walk(c.target) if isinstance(x, ast.Name)}
            for n in ast.walk(e):
                if isinstance(n, ast.Name) and n.id in bound:
                    continue  # a comprehension variable, not the function's local of the same name
                if isinstance(n, ast.Call) and (dotted(n.func) or "") not in NEUTRAL_CALLS:
                    args = list(n.args) + [k.value for k in n.keywords]
                    recv = [n.func.value] if isinstance(n.func, ast.Attribute) and not _is_self_call(n) else []
                    if any(not isinstance(a, (ast.GeneratorExp, ast.ListComp)) and token_data(a) for a in args + recv):
                        helper = an.resolve_callee(n, fi)
                        if helper is not None and not helper.is_lambda and depth < 2:
                            # a predicate extracted into a package helper: the same question about its parameter(s)
                            inner = None
                            for pn in an._param_for_arg(n, helper, lambda x: not isinstance(x, (ast.GeneratorExp, ast.ListComp)) and token_data(x)):
                                inner = inner or _param_transformed(helper, pn)
                            if inner is None:
                                continue
                            return inner
                        return n
                if isinstance(n, ast.Name) and depth < 3 and n.id != tok and n.id not in fi.params:
                    for d in _all_defs(fi, n.id):
                        if token_data(d):
                            r = transforming_call(d, depth + 1)
                            if r is not None:
                                return r
            return None

        for st in sorted((x for x in fi.local_nodes() if isinstance(x, ast.stmt)), key=lambda x: x.lineno):
            if not an.is_report(st, fi) or all(cfg.postdominates(st, e) for e in entry):
                continue
            res, _ = an.consume_paths(fi, st, tok)
            if not any(c == 0 for c, _x in res):
                continue  # the children are still rendered after this report
            for t, _pol in cfg.guards(st):
                if token_data(t):
                    out.append((fi, st, t, transforming_call(t)))
    return out


def _node_classes_of(an: "Nesting", e: ast.expr, fi: FunctionInfo, depth: int = 0) -> set[str] | None:
    """Docutils classes an expression can hold: names of constructor classes for locals built here, the union over
    the call sites for a node parameter; None if unknown."""
    if isinstance(e, ast.Name):
        out: set[str] = set()
        defs = [d for d in _all_defs(fi, e.id) if not any(isinstance(x, ast.AugAssign) and x.value is d for x in fi.local_nodes())]
        for d in defs:
            if isinstance(d, ast.Call):
                nc = _node_class(d, fi.module)
                if nc is not None:
                    out.add(nc.rsplit(".", 1)[1])
                    continue
                prod = an.is_producer(d, fi)
                if prod:
                    out.add(prod.rsplit(".", 1)[-1])
                    continue
            if isinstance(d, ast.Name) or isinstance(d, ast.IfExp):
                subs = [d] if isinstance(d, ast.Name) else [d.body, d.orelse]
                for x in subs:
                    r = _node_classes_of(an, x, fi, depth + 1) if depth < 3 else None
                    if r is None:
                        return None
                    out |= r
                continue
            return None
        if e.id in fi.params and depth < 2:
            sites = []
            for g in an.scope():
                for c in g.local_nodes():
                    if isinstance(c, ast.Call) and fi in an.call_targets_safe(c, g):
                        sites.append((g, c))
            if not sites:
                return None
            for g, c in sites:
                args = an._args_for_param(c, fi, e.id)
                if not args:
                    return None
                for a in args:
                    r = _node_classes_of(an, a, g, depth + 1)
                    if r is None:
                        return None
                    out |= r
        elif not defs:
            return None
        return out
    if isinstance(e, ast.Attribute) and unparse(e) in ("self.current_node", "self.document"):
        return {"<current node>"}
    return None


def _target_message_nodes(corpus: Corpus, an: "Nesting"):
    """docutils appends the 'Duplicate ... target name' system_message to the *message node* handed to
    note_explicit_target / note_implicit_target. If that is the target node itself and the node is a text element
    (code, math, rubric, ...) or an image, the message text becomes part of the leaf. For every call in the render
    scope whose message node can be the target node: the classes the node can have (constructor, call sites of a node
    parameter, isinstance guards) must all be non-text containers (section, footnote, ...)."""
    out = []
    for fi in an.scope():
        cfg = None
        for call in sorted((c for c in fi.local_nodes() if isinstance(c, ast.Call) and isinstance(c.func, ast.Attribute) and c.func.attr in ("note_explicit_target", "note_implicit_target") and len(c.args) >= 2), key=lambda c: c.lineno):
            tgt, msg = call.args[0], call.args[1]
            cfg = cfg or get_cfg(fi)
            # alternatives of the message node
            alts: list[tuple[ast.expr, list]] = []

            def expand(m, guards, depth=0):
                if isinstance(m, ast.IfExp):
                    expand(m.body, guards + [(m.test, True)], depth + 1)
                    expand(m.orelse, guards + [(m.test, False)], depth + 1)
                elif isinstance(m, ast.Name) and depth < 3 and m.id not in fi.params and len(_all_defs(fi, m.id)) == 1 and unparse(m) != unparse(tgt):
                    expand(_all_defs(fi, m.id)[0], guards, depth + 1)
                else:
                    alts.append((m, guards))

            expand(msg, [])
            same = [(m, g) for m, g in alts if unparse(m) == unparse(tgt)]
            if not same:
                out.append((fi, call, "ok", "the message goes to another node than the target"))
                continue
            bad = None
            unknown = False
            for m, guards in same:
                facts = guards + list(cfg.guards(cfg.stmt_of(call)))
                narrowed = None
                for t, pol in facts:
                    if pol and isinstance(t, ast.Call) and dotted(t.func) == "isinstance" and len(t.args) == 2 and unparse(t.args[0]) == unparse(tgt):
                        names = [x for x in ast.walk(t.args[1]) if isinstance(x, ast.Attribute)]
                        narrowed = {x.attr for x in names}
                classes = narrowed if narrowed is not None else _node_classes_of(an, tgt, fi)
                if classes is None:
                    unknown = True
                    continue
                texty = sorted(c for c in classes if c in _TEXT_ELEMENTS or c == "image" or c == "Element")
                if texty:
                    bad = texty
            if bad:
                out.append((fi, call, "bad", f"`{short(call, 60)}`: the node itself is the message node and it can be a {', '.join(bad)} (a text element / image): docutils appends its 'Duplicate "
                            "… target name' system_message inside that node, so the message text becomes part of the leaf or title"))
            elif unknown:
                out.append((fi, call, "listed", "message node is the target itself; the class of the node is not known here (nodes from another parser)"))
            else:
                out.append((fi, call, "ok", "the node is its own message node, and it is a block container (section, footnote ...)"))
    return out


def _problematic_rawsource(corpus: Corpus, rep: Report, an: "Nesting") -> None:
    """docutils' DanglingReferences transform replaces a reference whose ``refname`` does not resolve by
    ``problematic(node.rawsource, node.rawsource)`` (read off docutils/transforms/references.py): without a rawsource the
    text rendered into the reference disappears from the published document. Every node that gets a ``refname`` in the
    render scope is built with a rawsource, or gets one assigned after its children were rendered."""
    ref = corpus.sibling("docutils/transforms/references.py")
    rep.saw_sibling(ref.rel)
    vis = ref.functions.get("DanglingReferencesVisitor.visit_reference")
    if vis is None:
        raise AnchorMissing("docutils DanglingReferencesVisitor.visit_reference not found")
    uses_rawsource = any(isinstance(c, ast.Call) and (dotted(c.func) or "").endswith("problematic") and c.args and unparse(c.args[0]).endswith(".rawsource") for c in vis.local_nodes()) and any(
        isinstance(c, ast.Call) and isinstance(c.func, ast.Attribute) and c.func.attr == "replace_self" for c in vis.local_nodes())
    n = 0
    for fi in an.scope():
        if fi.cls is None or fi.cls.fq != an.k.fq:
            continue
        for st in sorted((x for x in fi.local_nodes() if isinstance(x, ast.Assign) and len(x.targets) == 1 and isinstance(x.targets[0], ast.Subscript) and isinstance(x.targets[0].slice, ast.Constant) and x.targets[0].slice.value == "refname" and isinstance(x.targets[0].value, ast.Name)), key=lambda x: x.lineno):
            node = st.targets[0].value.id
            n += 1
            k = f"{fi.fq}|{node} with a refname keeps its text as rawsource"
            if not uses_rawsource:
                rep.ok("C02.R2", k, fi.module.site(st), "the installed docutils does not replace dangling references by their rawsource")
                continue
            ctor_ok = False
            for d in _all_defs(fi, node):
                if isinstance(d, ast.Call) and _node_class(d, fi.module) is not None and d.args and not (isinstance(d.args[0], ast.Constant) and d.args[0].value == ""):
                    ctor_ok = True
            cfg = get_cfg(fi)
            sets = [x for x in fi.local_nodes() if isinstance(x, ast.Assign) and len(x.targets) == 1 and isinstance(x.targets[0], ast.Attribute) and x.targets[0].attr == "rawsource" and unparse(x.targets[0].value) == node]
            later = any(cfg.postdominates(x, st) for x in sets)
            if ctor_ok or later:
                rep.ok("C02.R2", k, fi.module.site(st), "rawsource given at construction" if ctor_ok else "rawsource assigned on every path after the refname")
            else:
                rep.violation("C02.R2", k, fi.module.site(st), f"`{node}` gets a refname but no rawsource: if the name does not resolve, docutils' DanglingReferences transform replaces the reference by problematic(rawsource) = '' "
                              "and the link text (its children) is lost from the published document ('See [the *other* page](other.md) for details.' -> 'See  for details.')")
    if n < 2:
        rep.error("C02.R2", f"only {n} refname stores found in the docutils renderer (expected the link and footnote references)")


def _root_name(e: ast.AST) -> str | None:
    while isinstance(e, (ast.Subscript, ast.Attribute)):
        e = e.value
    return e.id if isinstance(e, ast.Name) else None


def _per_child_values(an: Nesting, fi: FunctionInfo):
    """For every loop that builds nodes: (loop, name, using statement, stale?) for each local that flows (data, or the
    guard of the store) into a node built in the iteration and is itself assigned inside the loop. ``stale``: some path
    from the start of an iteration reaches the use without assigning the name, so the value of an earlier iteration
    is used. Accumulators (bindings that read the name itself, +=) are intended loop-carried state and are skipped."""
    cfg = get_cfg(fi)
    out = []
    for loop in sorted((n for n in fi.local_nodes() if isinstance(n, (ast.For, ast.While))), key=lambda n: n.lineno):
        inside = [n for b in loop.body for n in _walk_expr(b)]
        stmts = [n for n in inside if isinstance(n, ast.stmt)]
        produced = set()
        for st in stmts:
            if isinstance(st, (ast.Assign, ast.AnnAssign)) and st.value is not None:
                tg = st.targets if isinstance(st, ast.Assign) else [st.target]
                if len(tg) == 1 and isinstance(tg[0], ast.Name) and an.is_producer(st.value, fi):
                    produced.add(tg[0].id)
        if not produced:
            continue
        targets = {n.id for n in ast.walk(loop.target) if isinstance(n, ast.Name)} if isinstance(loop, ast.For) else set()

        def loop_guards(st):
            g = []
            node = st
            for a in ancestors(st):
                if a is loop:
                    break
                if isinstance(a, (ast.If, ast.While)) and node is not a.test:
                    g.append(a.test)
                node = a
            return g

        uses: list[tuple[ast.stmt, list[ast.AST]]] = []
        for st in stmts:
            vals: list[ast.AST] = []
            if isinstance(st, ast.Assign):
                tl = []
                for t in st.targets:
                    tl.extend(t.elts if isinstance(t, (ast.Tuple, ast.List)) else [t])
                if any(isinstance(t, (ast.Subscript, ast.Attribute)) and _root_name(t) in produced for t in tl):
                    vals.append(st.value)
                elif len(tl) == 1 and isinstance(tl[0], ast.Name) and tl[0].id in produced and isinstance(st.value, ast.Call):
                    vals.extend(st.value.args)
                    vals.extend(k.value for k in st.value.keywords)
            elif isinstance(st, ast.AugAssign) and _root_name(st.target) in produced:
                vals.append(st.value)
            elif isinstance(st, ast.Expr) and isinstance(st.value, ast.Call) and isinstance(st.value.func, ast.Attribute) and st.value.func.attr in ("append", "extend", "insert", "update", "add", "setdefault") and _root_name(st.value.func.value) in produced:
                vals.extend(st.value.args)
            if vals:
                uses.append((st, vals + loop_guards(st)))
        seen: set[tuple[str, int]] = set()

        def check(x: str, use: ast.stmt, depth: int):
            if x in targets or x == "self" or (x, id(use)) in seen or depth > 3:
                return
            seen.add((x, id(use)))
            binds = [st for st in stmts if _binds(st, x) is not False]
            if not binds:
                return  # loop-invariant
            if any(isinstance(st, ast.AugAssign) and isinstance(st.target, ast.Name) and st.target.id == x for st in stmts):
                return
            if any(_binds(b, x) is True or _mentions(_binds(b, x), x) for b in binds):
                return  # reads itself / bound by a nested loop or with: not the plain per-child recomputation
            ustmt = cfg.stmt_of(use)
            stale = cfg.paths_avoiding(("T", loop), ustmt, lambda n: n is loop or (isinstance(n, ast.stmt) and _binds(n, x) is not False))
            out.append((loop, x, use, stale))
            if not stale:
                for b in binds:
                    for e in [_binds(b, x)] + loop_guards(b):
                        for nm in ast.walk(e):
                            if isinstance(nm, ast.Name) and isinstance(nm.ctx, ast.Load):
                                check(nm.id, b, depth + 1)

        for st, vals in uses:
            for v in vals:
                for nm in ast.walk(v):
                    if isinstance(nm, ast.Name) and isinstance(nm.ctx, ast.Load) and nm.id not in produced:
                        check(nm.id, st, 0)
    # one line per (loop, name): stale wins
    best: dict[tuple[int, str], tuple] = {}
    for loop, x, use, stale in out:
        k = (id(loop), x)
        if k not in best or (stale and not best[k][3]):
            best[k] = (loop, x, use, stale)
    return sorted(best.values(), key=lambda t: (t[0].lineno, t[1]))


def _calls_overridden(corpus: Corpus, fi: FunctionInfo, klass) -> bool:
    """Does an inherited function call (transitively, via self.m) a method that ``klass`` overrides?"""
    own = set(klass.methods)
    seen = set()
    work = [fi]
    while work:
        f = work.pop()
        if f.fq in seen:
            continue
        seen.add(f.fq)
        for c in f.local_nodes():
            if isinstance(c, ast.Call) and _is_self_call(c):
                if c.func.attr in own:
                    return True
                m = corpus.lookup_method(klass, c.func.attr)
                if m is not None and c.func.attr != "render_children":
                    work.append(m)
    return False


def _stop_text(n) -> str:
    if n == EXIT:
        return "the end of the function"
    return f"`{short(n, 40)}`"


def _judge_children(an: Nesting, fi: FunctionInfo, name: str, start, stop, key: str, rep: Report, required: bool) -> bool:
    site = fi.site() if start == "ENTRY" else fi.module.site(start[1] if isinstance(start, tuple) else start)
    res, _ = an.consume_paths(fi, start, name, extra_stop=stop)
    counts = {c for c, _x in res}
    if not res:
        rep.error("C02.R2", f"{fi.fq}: no normal path for `{name}`")
        return False
    if counts <= {0}:
        if not required:
            return False  # not a rendering function/loop (e.g. line-number propagation)
        loops = an.child_loops(fi, name, judged_only=True) + an.delegated_loops(fi, name)
        if loops:
            rep.ok("C02.R2", key, site, f"children consumed by {len(loops)} per-child loop(s)/binding(s), each judged separately")
        elif an.any_rendering_loop(fi):
            rep.error("C02.R2", f"{fi.fq}: a loop renders child tokens but its iterable could not be linked to `{name}.children`")
        else:
            rep.violation("C02.R2", key, site, f"{fi.qualname} never renders the children of `{name}`: the content nested in this container is missing from the doctree")
        return True
    if any(c == 2 for c in counts):
        rep.violation("C02.R2", key, site, f"{fi.qualname} renders the children of `{name}` more than once on some path: nested content is duplicated")
        return True
    bad = [(c, x) for c, x in res if c == 0 and not x]
    if bad:
        rep.violation("C02.R2", key, site, f"{fi.qualname} has a path that neither renders the children of `{name}` nor reports a problem nor depends on the link being implicit: nested content silently disappears")
        return True
    excused = any(c == 0 for c, x in res)
    rep.ok("C02.R2", key, site, "1 on every judged path" + (" (paths that report / implicit link text render 0)" if excused else ""))
    return True


# ---------------------------------------------------------------------------
# R3 verbatim leaves, destinations carried over

LEAF_TYPES = ("text", "code_inline", "code_block", "fence", "math_inline", "math_inline_double", "math_block", "math_block_label", "amsmath", "html_inline", "html_block")


def _all_defs(fi: FunctionInfo, name: str) -> list[ast.expr]:
    """Every value assigned to a local name (tuple unpacking and += included)."""
    out = []
    for n in fi.local_nodes():
        if isinstance(n, ast.Assign):
            for t in n.targets:
                if any(isinstance(x, ast.Name) and x.id == name and isinstance(x.ctx, ast.Store) for x in ast.walk(t)):
                    out.append(n.value)
        elif isinstance(n, (ast.AnnAssign, ast.AugAssign)) and isinstance(n.target, ast.Name) and n.target.id == name and n.value is not None:
            out.append(n.value)
        elif isinstance(n, ast.NamedExpr) and n.target.id == name:
            out.append(n.value)
    return out


def _is_content_of(e: ast.expr, tok: str) -> bool:
    return isinstance(e, ast.Attribute) and e.attr == "content" and isinstance(e.value, ast.Name) and e.value.id == tok


def _verbatim(e: ast.expr, fi: FunctionInfo, tok: str, depth: int = 0, an: "Nesting | None" = None) -> str | None:
    """None when ``e`` is exactly ``<tok>.content`` (through plain local copies, or an extracted helper that
    returns its token's content); else what intervenes."""
    if _is_content_of(e, tok):
        return None
    if isinstance(e, ast.Call) and an is not None and depth < 4 and len(e.args) == 1 and not e.keywords and isinstance(e.args[0], ast.Name) and e.args[0].id == tok:
        m = an.resolve_callee(e, fi)
        if m is not None and not m.is_lambda:
            ps = [p for p in m.params if p != "self"]
            rets = [r for r in m.local_nodes() if isinstance(r, ast.Return) and r.value is not None]
            if ps and rets:
                for r in rets:
                    why = _verbatim(r.value, m, ps[0], depth + 1, an)
                    if why is not None:
                        return why
                return None
    if isinstance(e, ast.Name) and depth < 5:
        if e.id in fi.params:
            raise Unsupported(f"{fi.qualname}: leaf text comes from parameter `{e.id}`")
        defs = _all_defs(fi, e.id)
        if not defs:
            raise Unsupported(f"{fi.qualname}: `{e.id}` has no local definition")
        for d in defs:
            r = _verbatim(d, fi, tok, depth + 1, an)
            if r is not None:
                return r
        return None
    return f"`{short(e, 50)}`"


def _content_sinks(fi: FunctionInfo, corpus: Corpus) -> list[tuple[ast.Call, ast.expr, str]]:
    """(call, text expression, kind) for every construct in the handler that turns a string into leaf text."""
    out = []
    for c in fi.local_nodes():
        if not isinstance(c, ast.Call):
            continue
        nc = _node_class(c, fi.module)
        if nc == "docutils.nodes.Text":
            if c.args and not isinstance(c.args[0], ast.Constant):
                out.append((c, c.args[0], "Text"))
        elif nc is not None and nc.rsplit(".", 1)[1] in _TEXT_ELEMENTS:
            t = arg_or_kw(c, 1, "text")
            if t is not None and not isinstance(t, ast.Constant):  # constant decorations carry no token content
                out.append((c, t, nc.rsplit(".", 1)[1]))
        elif _is_self_call(c, "create_highlighted_code_block"):
            t = arg_or_kw(c, 0, "text")
            if t is None:
                raise Unsupported(f"{fi.qualname}: create_highlighted_code_block without text")
            out.append((c, t, "create_highlighted_code_block"))
        else:
            d = dotted(c.func)
            if d and fi.module.resolve(d).endswith("html_to_nodes.html_to_nodes"):
                t = arg_or_kw(c, 0, "text")
                if t is None:
                    raise Unsupported(f"{fi.qualname}: html_to_nodes without text")
                out.append((c, t, "html_to_nodes"))
    out.sort(key=lambda x: (x[0].lineno, x[0].col_offset))
    return out


SPLITTERS = ("split", "rsplit", "partition", "rpartition")


def _is_split_call(e: ast.AST) -> bool:
    return isinstance(e, ast.Call) and isinstance(e.func, ast.Attribute) and e.func.attr in SPLITTERS


def _split_bindings(fi: FunctionInfo, an: "Nesting | None" = None, depth: int = 0) -> tuple[set[str], set[str]]:
    """(part names, remainder names): ``a, *rest = x.split(sep)`` binds a *part* of x to ``a`` and the remainder to
    ``rest``; ``a = x.split(sep)[0]`` binds a part with no remainder kept. Names computed from remainder names only
    (``frag = rest[0] if rest else None``) count as remainder too."""
    parts: set[str] = set()
    rem: set[str] = set()
    for n in fi.local_nodes():
        if not isinstance(n, ast.Assign) or len(n.targets) != 1:
            continue
        t, v = n.targets[0], n.value
        helper = an.resolve_callee(v, fi) if an is not None and isinstance(v, ast.Call) and depth < 2 else None
        if isinstance(t, (ast.Tuple, ast.List)) and helper is not None and not helper.is_lambda:
            # a package helper that splits for us (e.g. a NamedTuple factory): read the roles off its return value
            hp, hr = _split_bindings(helper, an, depth + 1)
            for r in helper.local_nodes():
                if isinstance(r, ast.Return) and isinstance(r.value, (ast.Call, ast.Tuple)):
                    elts = r.value.args if isinstance(r.value, ast.Call) else r.value.elts
                    for tgt, el in zip(t.elts, elts):
                        nm = tgt.id if isinstance(tgt, ast.Name) else None
                        callees = {id(c.func) for c in ast.walk(el) if isinstance(c, ast.Call)}
                        used = {x.id for x in ast.walk(el) if isinstance(x, ast.Name) and id(x) not in callees}
                        if nm and isinstance(el, ast.Name) and el.id in hp:
                            parts.add(nm)
                        elif nm and used & hr and not (used - hr - {"None", "len"}):
                            rem.add(nm)
        elif isinstance(t, (ast.Tuple, ast.List)) and _is_split_call(v):
            names = [(x.value.id if isinstance(x, ast.Starred) and isinstance(x.value, ast.Name) else x.id if isinstance(x, ast.Name) else None) for x in t.elts]
            if names and names[0]:
                parts.add(names[0])
                rem.update(x for x in names[1:] if x)
        elif isinstance(t, ast.Name) and isinstance(v, ast.Subscript) and _is_split_call(v.value) and isinstance(v.slice, ast.Constant):
            parts.add(t.id)
    changed = True
    while changed:
        changed = False
        for n in fi.local_nodes():
            if isinstance(n, ast.Assign) and len(n.targets) == 1 and isinstance(n.targets[0], ast.Name) and n.targets[0].id not in rem | parts:
                used = {x.id for x in ast.walk(n.value) if isinstance(x, ast.Name)}
                if used & rem and not (used - rem - {"None", "True", "False", "len"}):
                    rem.add(n.targets[0].id)
                    changed = True
    return parts, rem


def _walk_lossless(e: ast.AST):
    """ast.walk that does not descend into ``<x>.split(..)[i]`` (a part of x, not x)."""
    stack = [e]
    while stack:
        n = stack.pop()
        if isinstance(n, ast.Subscript) and _is_split_call(n.value) and isinstance(n.slice, ast.Constant):
            continue
        yield n
        stack.extend(ast.iter_child_nodes(n))


def _token_helpers(an: "Nesting", fi: FunctionInfo, tok: str, depth: int = 0, seen: set | None = None) -> list[tuple[FunctionInfo, str]]:
    """(function, its token parameter) for ``fi`` and the helper methods the token is handed on to (two levels),
    other handlers (render_*) excluded."""
    seen = seen if seen is not None else set()
    out = [(fi, tok)]
    seen.add(fi.fq)
    if depth >= 2:
        return out
    for c in fi.local_nodes():
        if isinstance(c, ast.Call) and (_is_self_call(c) or isinstance(c.func, ast.Call)) and any(isinstance(a, ast.Name) and a.id == tok for a in list(c.args) + [k.value for k in c.keywords]):
            for m in an.call_targets_safe(c, fi):
                if m.fq in seen or m.is_lambda or m.name.startswith("render_") or m.name in ("add_line_and_source_path", "copy_attributes", "create_warning"):
                    continue
                for p in an._param_for_arg(c, m, lambda x: isinstance(x, ast.Name) and x.id == tok):
                    if p in _tok_params(m):
                        out.extend(_token_helpers(an, m, p, depth + 1, seen))
    return out


def _sinks_closure(an: "Nesting", fi: FunctionInfo, tok: str, corpus: Corpus):
    out = []
    for holder, htok in _token_helpers(an, fi, tok):
        for call, texpr, kind in _content_sinks(holder, corpus):
            out.append((holder, htok, call, texpr, kind))
    return out


def _reaches(e: ast.AST, fi: FunctionInfo, an: Nesting, is_source, depth: int = 0, lossless: bool = False) -> bool:
    """Backward data slice of ``e`` through local assignments (and, for parameters, the self-call sites)
    reaches an expression satisfying ``is_source``. With ``lossless`` the slice may not pass through a name or
    expression that holds only one part of a split string."""
    seen: set[str] = set(_split_bindings(fi, an)[0]) if lossless else set()
    work = [e]
    toks = set(_tok_params(fi))
    unknown = None
    while work:
        x = work.pop()
        for n in (_walk_lossless(x) if lossless else ast.walk(x)):
            if is_source(n, fi):
                return True
            if isinstance(n, ast.Call) and depth < 3 and any(isinstance(a, ast.Name) and a.id in toks for a in n.args):
                # the token is handed to a helper: look at what the helper returns
                m = an.resolve_callee(n, fi)
                if m is not None and not m.is_lambda and _tok_params(m):
                    for r in m.local_nodes():
                        if isinstance(r, ast.Return) and r.value is not None and _reaches(r.value, m, an, is_source, depth + 1, lossless):
                            return True
                elif m is None and not (isinstance(n.func, ast.Attribute) and isinstance(n.func.value, ast.Name) and n.func.value.id in toks) and (dotted(n.func) or "") not in BENIGN_CALLEES:
                    unknown = n
            if isinstance(n, ast.Name) and n.id not in seen:
                seen.add(n.id)
                work.extend(_all_defs(fi, n.id))
                for st in fi.local_nodes():
                    if isinstance(st, (ast.For, ast.comprehension)) and any(isinstance(t, ast.Name) and t.id == n.id for t in ast.walk(st.target)):
                        work.append(st.iter)
                if n.id in fi.params and n.id != "self" and depth < 2 and _is_str_annotation(_param_annotation(fi, n.id)):
                    ps = fi.params
                    for g in an.scope():
                        for c in g.local_nodes():
                            if isinstance(c, ast.Call) and _is_self_call(c, fi.name):
                                idx = ps.index(n.id) - 1
                                a = c.args[idx] if 0 <= idx < len(c.args) else kwarg(c, n.id)
                                if a is not None and _reaches(a, g, an, is_source, depth + 1, lossless):
                                    return True
    if unknown is not None:
        raise Unsupported(f"{fi.qualname}: the token is handed to `{short(unknown, 50)}`, whose result is not understood")
    return False


def _param_annotation(fi: FunctionInfo, name: str) -> str | None:
    a = fi.node.args
    for p in a.posonlyargs + a.args + a.kwonlyargs:
        if p.arg == name:
            return unparse(p.annotation) if p.annotation is not None else None
    return None


def _is_str_annotation(ann: str | None) -> bool:
    """``str``, ``str | None``, ``Optional[str]`` - a plain string parameter (not a mapping/sequence of strings)."""
    if not ann:
        return False
    parts = [p.strip() for p in ann.replace("Optional[", "").replace("]", "").replace("None |", "|").split("|")]
    parts = [p for p in parts if p and p != "None"]
    return parts == ["str"]


def _attr_source(attr: str):
    def is_source(n, fi):
        if isinstance(n, ast.Call) and isinstance(n.func, ast.Attribute) and n.func.attr == "attrGet" and n.args and isinstance(n.args[0], ast.Constant) and n.args[0].value == attr:
            return isinstance(n.func.value, ast.Name) and n.func.value.id in _tok_params(fi)
        if isinstance(n, ast.Subscript) and isinstance(n.value, ast.Attribute) and n.value.attr == "attrs" and isinstance(n.slice, ast.Constant) and n.slice.value == attr:
            return isinstance(n.value.value, ast.Name) and n.value.value.id in _tok_params(fi)
        return False

    return is_source


def _field_source(field: str):
    def is_source(n, fi):
        return isinstance(n, ast.Attribute) and n.attr == field and isinstance(n.value, ast.Name) and n.value.id in _tok_params(fi)

    return is_source


DEST_KEYS = {"refuri": "href", "refname": "href", "uri": "src"}
DEST_KWARGS = {"reftarget": "href"}
PART_ONLY_OK = {
    "sphinx.addnodes.download_reference": "a download points at a file; a '#fragment' has no meaning for it (Sphinx-specific node)",
}
INVENTORY_DEST_WHY = "the destination is the matched inventory entry's location (base_url + loc), selected by the href"


def _from_inventory_match(value: ast.expr, fi: FunctionInfo, an: "Nesting") -> bool:
    """The value is computed from an inventory match: from the result of get_inventory_matches(), or from a parameter
    typed as an inventory match (InvMatch) that the callers fill from it."""
    if _reaches(value, fi, an, lambda n, f: isinstance(n, ast.Call) and _is_self_call(n, "get_inventory_matches")):
        return True
    seen: set[str] = set()
    work = [value]
    while work:
        x = work.pop()
        for n in ast.walk(x):
            if isinstance(n, ast.Name) and n.id not in seen:
                seen.add(n.id)
                ann = _param_annotation(fi, n.id) if n.id in fi.params else None
                if ann and "InvMatch" in ann:
                    return True
                work.extend(_all_defs(fi, n.id))
    return False



def _alt_contributions(fi: FunctionInfo) -> tuple[dict[str, tuple], tuple]:
    """Read ``renderInlineAsText``: per token type what it adds to the result - ("content",), ("recurse",),
    ("const", s) - plus the contribution of the final else branch (("none",) if absent)."""
    loops = [n for n in fi.local_nodes() if isinstance(n, ast.For) and isinstance(n.target, ast.Name)]
    wl = None  # work-list walk: (list name, pops from the front?)
    if len(loops) == 1:
        loop = loops[0]
        var = loop.target.id
        body = loop.body
    else:
        # iterative form: W = list(tokens); while W: tok = W.pop(i); <if-chain that pushes tok.children onto W>
        wloops = [n for n in fi.local_nodes() if isinstance(n, ast.While) and isinstance(n.test, ast.Name)]
        if loops or len(wloops) != 1:
            raise Unsupported(f"{fi.fq}: expected one loop over the tokens")
        loop = wloops[0]
        w = loop.test.id
        first = loop.body[0] if loop.body else None
        if not (isinstance(first, ast.Assign) and len(first.targets) == 1 and isinstance(first.targets[0], ast.Name) and isinstance(first.value, ast.Call)
                and isinstance(first.value.func, ast.Attribute) and first.value.func.attr in ("pop", "popleft") and unparse(first.value.func.value) == w):
            raise Unsupported(f"{fi.fq}: work-list loop does not start with `x = {w}.pop(...)`")
        pa = first.value.args
        if first.value.func.attr == "popleft" or (len(pa) == 1 and isinstance(pa[0], ast.Constant) and pa[0].value == 0):
            front = True
        elif not pa or (len(pa) == 1 and unparse(pa[0]) == "-1"):
            front = False
        else:
            raise Unsupported(f"{fi.fq}: `{short(first.value, 40)}` pops from the middle")
        in_loop = {id(x) for x in ast.walk(loop)}
        inits = [n.value for n in fi.local_nodes() if isinstance(n, ast.Assign) and id(n) not in in_loop and any(isinstance(t, ast.Name) and t.id == w for t in n.targets)]
        if len(inits) != 1:
            raise Unsupported(f"{fi.fq}: work list `{w}` is rebound")
        init_rev = "reversed(" in unparse(inits[0]) or unparse(inits[0]).endswith("[::-1]")
        if front == init_rev:
            # a stack must be seeded in reverse, a queue in order
            wl = (w, front, "seed")
        else:
            wl = (w, front, "")
        var = first.targets[0].id
        body = loop.body[1:]

    def push_order(st) -> str | None:
        """'' if the statement puts ``var.children`` where the in-order successor is expected, a reason if it puts
        them elsewhere, None if the statement is no push of the children."""
        if wl is None:
            return None
        w, front, seedbad = wl
        ch = f"{var}.children"
        txt = unparse(st)
        if ch not in txt or w not in txt:
            return None
        if seedbad:
            return f"the work list is seeded in the wrong direction for `{w}.pop({'0' if front else ''})`"
        if isinstance(st, ast.Expr) and isinstance(st.value, ast.Call) and isinstance(st.value.func, ast.Attribute) and unparse(st.value.func.value) == w:
            m, a = st.value.func.attr, st.value.args
            rev = bool(a) and ("reversed(" in unparse(a[-1]) or unparse(a[-1]).endswith("[::-1]"))
            if m == "extend" and not front:
                return "" if rev else f"`{short(st, 50)}` pushes the children in order onto a stack: they are visited last-to-first"
            if m in ("extend", "append") and front:
                return f"`{short(st, 50)}` appends the children behind the remaining siblings of a queue: nested text is visited breadth-first, after the text that follows it"
            if m == "extendleft" and front:
                return "" if rev else f"`{short(st, 50)}`: extendleft reverses its argument"
        if isinstance(st, ast.Assign) and len(st.targets) == 1:
            t, v = st.targets[0], st.value
            if isinstance(t, ast.Subscript) and unparse(t.value) == w and isinstance(t.slice, ast.Slice) and front:
                lo, hi = t.slice.lower, t.slice.upper
                if (lo is None or (isinstance(lo, ast.Constant) and lo.value == 0)) and isinstance(hi, ast.Constant) and hi.value == 0 and "reversed(" not in unparse(v):
                    return ""
            if isinstance(t, ast.Name) and t.id == w and isinstance(v, ast.BinOp) and isinstance(v.op, ast.Add):
                l, r = unparse(v.left), unparse(v.right)
                if front and ch in l and r == w and "reversed(" not in l:
                    return ""
                if front and l == w and ch in r:
                    return f"`{short(st, 50)}` puts the children behind the remaining siblings: nested text is visited breadth-first"
                if not front and l == w and ch in r and "reversed(" in r:
                    return ""
        raise Unsupported(f"{fi.fq}: push of the children `{short(st, 50)}` not understood")

    # accumulators of the form `parts.append(x)` ... `return "".join(parts)`
    joined_lists = set()
    for r in fi.local_nodes():
        if isinstance(r, ast.Return) and isinstance(r.value, ast.Call) and isinstance(r.value.func, ast.Attribute) and r.value.func.attr == "join" and isinstance(r.value.func.value, ast.Constant) and r.value.func.value.value == "" and r.value.args and isinstance(r.value.args[0], ast.Name):
            joined_lists.add(r.value.args[0].id)
    if wl is not None:
        joined_lists.discard(wl[0])

    def contribution(body) -> tuple:
        out: tuple | None = None
        for st in body:
            po = push_order(st) if not isinstance(st, ast.If) else None
            if isinstance(st, ast.If) and not st.orelse and unparse(st.test) in (f"{var}.children",):
                c = contribution(st.body)
            elif po is not None:
                c = ("recurse",) if po == "" else ("recurse-out-of-order", po)
            elif (isinstance(st, ast.AugAssign) and isinstance(st.op, ast.Add)) or (
                isinstance(st, ast.Expr) and isinstance(st.value, ast.Call) and isinstance(st.value.func, ast.Attribute) and st.value.func.attr == "append" and len(st.value.args) == 1
                and isinstance(st.value.func.value, ast.Name) and st.value.func.value.id in joined_lists
            ):
                v = st.value if isinstance(st, ast.AugAssign) else st.value.args[0]
                if isinstance(v, ast.Attribute) and v.attr == "content" and unparse(v.value) == var:
                    c = ("content",)
                elif isinstance(v, ast.Constant) and isinstance(v.value, str):
                    c = ("const", v.value)
                elif isinstance(v, ast.Call) and isinstance(v.func, ast.Attribute) and v.func.attr == fi.name and v.args and f"{var}.children" in unparse(v.args[0]):
                    c = ("recurse",)
                else:
                    # unwrap str(x) / cast(str, x) / (x or "") and look again; anything else is its own kind
                    w = v
                    while True:
                        if isinstance(w, ast.Call) and dotted(w.func) == "str" and len(w.args) == 1:
                            w = w.args[0]
                        elif isinstance(w, ast.Call) and dotted(w.func) == "cast" and len(w.args) == 2:
                            w = w.args[1]
                        elif isinstance(w, ast.BoolOp) and isinstance(w.op, ast.Or) and len(w.values) == 2 and isinstance(w.values[1], ast.Constant) and w.values[1].value == "":
                            w = w.values[0]
                        else:
                            break
                    if isinstance(w, ast.Attribute) and w.attr == "content" and unparse(w.value) == var:
                        c = ("content",)
                    else:
                        c = ("other", f"`{short(v, 40)}`")
            elif isinstance(st, (ast.Pass,)) or (isinstance(st, ast.Expr) and isinstance(st.value, ast.Constant)):
                continue
            else:
                raise Unsupported(f"{fi.fq}: statement `{short(st, 40)}` not understood")
            if out is not None and out != c:
                raise Unsupported(f"{fi.fq}: two contributions in one branch")
            out = c
        return out or ("none",)

    table: dict[str, tuple] = {}
    default: tuple = ("none",)
    if len(body) != 1 or not isinstance(body[0], ast.If):
        raise Unsupported(f"{fi.fq}: loop body is not one if/elif chain")
    node = body[0]
    while True:
        t = node.test
        types_here: list[str] | None = None
        if isinstance(t, ast.Compare) and len(t.ops) == 1 and unparse(t.left) == f"{var}.type":
            c0 = t.comparators[0]
            if isinstance(t.ops[0], ast.Eq) and isinstance(c0, ast.Constant):
                types_here = [c0.value]
            elif isinstance(t.ops[0], ast.In) and isinstance(c0, (ast.Tuple, ast.List, ast.Set)) and all(isinstance(x, ast.Constant) for x in c0.elts):
                types_here = [x.value for x in c0.elts]
        elif isinstance(t, ast.BoolOp) and isinstance(t.op, ast.Or) and all(isinstance(v, ast.Compare) and len(v.ops) == 1 and isinstance(v.ops[0], ast.Eq) and unparse(v.left) == f"{var}.type" and isinstance(v.comparators[0], ast.Constant) for v in t.values):
            types_here = [v.comparators[0].value for v in t.values]
        if types_here is None:
            raise Unsupported(f"{fi.fq}: branch test `{short(t, 40)}` not understood")
        contrib = contribution(node.body)
        for ty in types_here:
            table[ty] = contrib
        if False:
            pass
        if len(node.orelse) == 1 and isinstance(node.orelse[0], ast.If):
            node = node.orelse[0]
            continue
        if node.orelse:
            default = contribution(node.orelse)
        break
    return table, default


def _alt_text_agreement(corpus: Corpus, rep: Report, tt: TokenTypes) -> None:
    """MyST's renderInlineAsText is a port of markdown-it's: every token type the reference gives a
    non-empty contribution must contribute the same to the `alt` text (MyST walks a tree, the reference a flat
    list, so 'recurse into children' for containers corresponds to the reference's default)."""
    mine = corpus.func(f"{RENDERER}.renderInlineAsText")
    ref_mod = corpus.sibling("markdown_it/renderer.py")
    rep.saw_sibling(ref_mod.rel)
    ref = ref_mod.functions.get("RendererHTML.renderInlineAsText")
    if ref is None:
        raise AnchorMissing("markdown_it.renderer:RendererHTML.renderInlineAsText not found")
    rt, _rd = _alt_contributions(ref)
    mt, md = _alt_contributions(mine)
    containers = tt.containers() | {"image"}
    if "text" not in rt:
        raise Unsupported("reference renderInlineAsText does not handle text")
    # nested inline markup (em, strong, link ...) must be walked in place, i.e. depth-first in source order
    k = f"{mine.fq}|text of nested inline nodes joins the alt in source order"
    ooo = [c for c in list(mt.values()) + [md] if c[0] == "recurse-out-of-order"]
    if ooo:
        rep.violation("C02.R3", k, mine.site(), f"{ooo[0][1]}: `![a *b* c](x)` gets the alt text 'a cb' instead of 'a b c'")
    elif any(c == ("recurse",) for c in list(mt.values()) + [md]):
        rep.ok("C02.R3", k, mine.site(), "children are visited in place (recursion, or an order-preserving work list)")
    else:
        rep.violation("C02.R3", k, mine.site(), "renderInlineAsText never descends into the children of nested inline nodes: `![*a*](x)` gets an empty alt text")
    mt = {t: (("recurse",) if c[0] == "recurse-out-of-order" else c) for t, c in mt.items()}
    if md[0] == "recurse-out-of-order":
        md = ("recurse",)
    # CommonMark: the alt text is the plain string content of the description. markdown-it's renderInlineAsText is known
    # to forget childless leaves; what such a leaf contributes to *text* is read off its HTML rule in RendererHTML:
    # a rule that emits escapeHtml(<token>.content) carries content, the break rules carry a line break.
    for t in ("text", "code_inline", "softbreak", "hardbreak"):
        rule_fn = ref_mod.functions.get(f"RendererHTML.{t}")
        if rule_fn is None or t in rt:
            continue
        emits_content = any(isinstance(c, ast.Call) and (dotted(c.func) or "").endswith("escapeHtml") and c.args and unparse(c.args[0]).endswith(".content") for c in rule_fn.local_nodes())
        if emits_content:
            rt[t] = ("content",)
        elif t.endswith("break"):
            rt[t] = ("const", "\n")
    for t in sorted(rt):
        want = rt[t]
        got = mt.get(t, md)
        if got == ("recurse",) and t not in containers:
            got = ("none",)  # a leaf token has no children
        k = f"{mine.fq}|contribution of `{t}` tokens to alt"
        if got == want:
            rep.ok("C02.R3", k, mine.site(), f"{want[0]}{'=' + repr(want[1]) if len(want) > 1 else ''} as in markdown-it")
        else:
            show = lambda c: {"none": "nothing", "content": "its content", "recurse": "the text of its children"}.get(c[0], (c[1] if c[0] == "other" else repr(c[1])) if len(c) > 1 else c[0])  # noqa: E731
            rep.violation("C02.R3", k, mine.site(), f"a `{t}` token inside an image description contributes {show(got)} to `alt`, markdown-it's renderInlineAsText (which this method ports) contributes {show(want)}: the alt text is not carried over unchanged")


class _NoValue(Exception):
    pass


def _ev(e: ast.AST, env: dict, fi: FunctionInfo | None = None, depth: int = 0):
    """Evaluate a branch condition / small value expression under an abstract assignment ``env``
    (names and un-parsed sub-expressions -> values). Raises _NoValue outside the subset."""
    txt = unparse(e)
    if txt in env:
        return env[txt]
    if isinstance(e, ast.Constant):
        return e.value
    if isinstance(e, ast.Name):
        if fi is not None and depth < 6:
            defs = _all_defs(fi, e.id)
            if len(defs) == 1:
                return _ev(defs[0], env, fi, depth + 1)
        raise _NoValue(e.id)
    if isinstance(e, ast.UnaryOp):
        v = _ev(e.operand, env, fi, depth)
        if isinstance(e.op, ast.Not):
            return not v
        if isinstance(e.op, ast.USub):
            return -v
        raise _NoValue(txt)
    if isinstance(e, ast.BoolOp):
        v = None
        for x in e.values:
            v = _ev(x, env, fi, depth)
            if isinstance(e.op, ast.And) and not v:
                return v
            if isinstance(e.op, ast.Or) and v:
                return v
        return v
    if isinstance(e, ast.BinOp) and isinstance(e.op, (ast.Add, ast.Sub)):
        a, b = _ev(e.left, env, fi, depth), _ev(e.right, env, fi, depth)
        try:
            return a + b if isinstance(e.op, ast.Add) else a - b
        except TypeError:
            raise _NoValue(txt) from None
    if isinstance(e, ast.IfExp):
        return _ev(e.body if _ev(e.test, env, fi, depth) else e.orelse, env, fi, depth)
    if isinstance(e, (ast.Tuple, ast.List, ast.Set)):
        return tuple(_ev(x, env, fi, depth) for x in e.elts)
    if isinstance(e, ast.Compare):
        left = _ev(e.left, env, fi, depth)
        for op, r in zip(e.ops, e.comparators):
            right = _ev(r, env, fi, depth)
            try:
                ok = {
                    ast.Eq: lambda a, b: a == b, ast.NotEq: lambda a, b: a != b, ast.Lt: lambda a, b: a < b, ast.LtE: lambda a, b: a <= b,
                    ast.Gt: lambda a, b: a > b, ast.GtE: lambda a, b: a >= b, ast.Is: lambda a, b: a is b, ast.IsNot: lambda a, b: a is not b,
                    ast.In: lambda a, b: a in b, ast.NotIn: lambda a, b: a not in b,
                }[type(op)](left, right)
            except TypeError:
                raise _NoValue(txt) from None
            if not ok:
                return False
            left = right
        return True
    if isinstance(e, ast.Call):
        d = dotted(e.func) or ""
        if d == "cast" and len(e.args) == 2:
            return _ev(e.args[1], env, fi, depth)
        if d in ("int", "str", "bool") and len(e.args) == 1 and not e.keywords:
            v = _ev(e.args[0], env, fi, depth)
            try:
                return {"int": int, "str": str, "bool": bool}[d](v)
            except (TypeError, ValueError):
                raise _NoValue(txt) from None
        if d == "isinstance":
            raise _NoValue(txt)
    raise _NoValue(txt)


def _start_env(tok: str, v) -> dict:
    attrs = {} if v is None else {"start": v}
    return {
        f"{tok}.attrGet('start')": v,
        f"{tok}.attrs.get('start')": v,
        f"{tok}.attrs.get('start', None)": v,
        f"{tok}.attrs['start']": v,
        f"{tok}.attrs": attrs,
        f"{tok}.attrs.keys()": tuple(attrs),
        "None": None,
    }


def _list_start(corpus: Corpus, rep: Report, an: Nesting) -> None:
    """`N. item` with N != 1: the ordered_list token carries attrs['start'] = N (an int, 0 is legal); the
    enumerated_list must get exactly that value - through copy_attributes, or through an explicit store whose
    guards hold and whose value is N for every legal N (decision table over N in {0, 2, 10})."""
    b = corpus.mod(BASE)
    ol = b.func("DocutilsRenderer.render_ordered_list")
    tok = _tok_param(ol)
    k = f"{ol.fq}|start carried over"
    ca = [c for c in ol.local_nodes() if isinstance(c, ast.Call) and _is_self_call(c, "copy_attributes")]
    keys = set()
    for c in ca:
        kv = arg_or_kw(c, 2, "keys")
        if isinstance(kv, (ast.Tuple, ast.List)):
            keys |= {e.value for e in kv.elts if isinstance(e, ast.Constant)}
    stores = []  # (stmt, value expr)
    for n in sorted((n for n in ol.local_nodes() if hasattr(n, "lineno")), key=lambda n: (n.lineno, n.col_offset)):
        if isinstance(n, ast.Assign) and len(n.targets) == 1 and isinstance(n.targets[0], ast.Subscript) and isinstance(n.targets[0].slice, ast.Constant) and n.targets[0].slice.value == "start":
            stores.append((n, n.value))
        elif isinstance(n, ast.Call) and _node_class(n, ol.module) == "docutils.nodes.enumerated_list" and kwarg(n, "start") is not None:
            stores.append((n, kwarg(n, "start")))
    if "start" in keys:
        rep.ok("C02.R3", k, ol.site(), "copy_attributes(..., keys including 'start')")
        return
    if not stores:
        rep.violation("C02.R3", k, ol.site(), "render_ordered_list no longer copies the `start` attribute: `3. x` is renumbered from 1")
        return
    cfg = get_cfg(ol)
    for v in (0, 2, 10):
        env = _start_env(tok, v)
        delivered = None
        why = ""
        try:
            for st, val in stores:
                stmt = cfg.stmt_of(st)
                held = True
                for t, pol in cfg.guards(stmt):
                    if bool(_ev(t, env, ol)) != pol:
                        held = False
                        why = f"guard `{'' if pol else 'not '}{short(t, 40)}` fails"
                if held:
                    got = _ev(val, env, ol)
                    delivered = got
                    if got == v or got == str(v):
                        break
                    why = f"`{short(val, 40)}` yields {got!r}"
        except _NoValue as ex:
            # outside the evaluated subset: fall back to the syntactic form of the same defect class
            bad = None
            for st, val in stores:
                for t, pol in cfg.guards(cfg.stmt_of(st)):
                    if isinstance(t, (ast.Name, ast.Call, ast.Subscript, ast.Attribute)) and not (isinstance(t, ast.Call) and (dotted(t.func) or "") in ("isinstance", "hasattr")) and _reaches(t, ol, an, _attr_source("start")):
                        bad = t
            if bad is not None:
                rep.violation("C02.R3", k, ol.site(), f"`start` is stored only under the truthiness test `{short(bad, 40)}`: a list starting at 0 (`0. x`) loses its start number")
            elif all(_reaches(val, ol, an, _attr_source("start")) for _st, val in stores):
                rep.ok("C02.R3", k, ol.site(), f"explicit store deriving from the token's start attribute (guards not evaluated: {ex})")
            else:
                rep.violation("C02.R3", k, ol.site(), "the stored `start` does not derive from the token's `start` attribute")
            return
        if not (delivered == v or delivered == str(v)):
            rep.violation("C02.R3", k, b.site(stores[0][0]), f"an ordered list starting at {v} (`{v}. x`) does not get start={v} in the doctree ({why or 'no store executes'}): the list numbering of the source is not carried over")
            return
    rep.ok("C02.R3", k, ol.site(), "explicit store: guards hold and value is N for N in {0, 2, 10}")


def _generic_copy_not_truthy(corpus: Corpus, rep: Report) -> None:
    """copy_attributes is the one place attribute values travel from token to node: the store of a value must
    not sit under a truthiness test of that value (0 / '' are legal attribute values, e.g. start=0)."""
    f = corpus.func(f"{RENDERER}.copy_attributes")
    loops = [n for n in f.local_nodes() if isinstance(n, ast.For) and isinstance(n.iter, ast.Call) and isinstance(n.iter.func, ast.Attribute) and n.iter.func.attr == "items" and unparse(n.iter.func.value).endswith(".attrs")]
    if len(loops) != 1 or not (isinstance(loops[0].target, ast.Tuple) and len(loops[0].target.elts) == 2 and all(isinstance(x, ast.Name) for x in loops[0].target.elts)):
        raise Unsupported("copy_attributes: expected one `for key, value in token.attrs.items()` loop")
    kvar, vvar = (x.id for x in loops[0].target.elts)
    cfg = get_cfg(f)
    def is_key(e: ast.expr) -> bool:
        # the loop's key, or a local computed from it (the aliased key)
        return isinstance(e, ast.Name) and (e.id == kvar or any(_mentions(d, kvar) for d in _all_defs(f, e.id)))

    stores = [n for n in ast.walk(loops[0]) if isinstance(n, ast.Assign) and len(n.targets) == 1 and isinstance(n.targets[0], ast.Subscript) and is_key(n.targets[0].slice) and unparse(n.targets[0].value) in f.params]
    if not stores:
        raise Unsupported("copy_attributes: no generic `node[key] = value` store found")
    for i, st in enumerate(sorted(stores, key=lambda n: n.lineno)):
        k = f"{f.fq}|generic attribute store{'' if i == 0 else f'#{i + 1}'} not under a truthiness test of the value"
        bad = None
        for t, pol in cfg.guards(st):
            if isinstance(t, ast.Name) and t.id == vvar:
                bad = (t, pol)
        if not (isinstance(st.value, ast.Name) and st.value.id == vvar):
            raise Unsupported(f"copy_attributes stores `{short(st.value, 30)}`")
        if bad:
            rep.violation("C02.R3", k, f.module.site(st), f"`{short(st, 40)}` only executes when `{vvar}` is truthy: attribute values 0 and '' (e.g. an ordered list starting at 0) are dropped instead of carried over")
        else:
            rep.ok("C02.R3", k, f.module.site(st), "guards test the key, not the value")


def _lexing_function(an: "Nesting", hl: FunctionInfo, tp: str):
    """(function that constructs the docutils Lexer, its text parameter, call in the highlighter that reaches it): the
    highlighter itself, or a helper (method or module function, one or two levels) that is handed the text."""
    def has_lexer(f: FunctionInfo) -> bool:
        return any(isinstance(c, ast.Call) and f.module.resolve(dotted(c.func) or "").endswith("code_analyzer.Lexer") for c in f.local_nodes())

    if has_lexer(hl):
        return hl, tp, None
    for c in sorted((c for c in hl.local_nodes() if isinstance(c, ast.Call)), key=lambda c: (c.lineno, c.col_offset)):
        if not any(isinstance(a, ast.Name) and a.id == tp for a in list(c.args) + [k.value for k in c.keywords]):
            continue
        for m in an.call_targets_safe(c, hl):
            if m.is_lambda or not has_lexer(m):
                continue
            ps = an._param_for_arg(c, m, lambda x: isinstance(x, ast.Name) and x.id == tp)
            if len(ps) == 1:
                return m, ps[0], c
    raise Unsupported("create_highlighted_code_block: no construction of the docutils Lexer found in it or in a helper that receives the text")


def _lexer_conservation(corpus: Corpus, rep: Report, hl: FunctionInfo) -> None:
    """'create_highlighted_code_block must preserve code text whether or not pygments splits it': the fragments of the
    library lexer must concatenate to the text handed in. Two independent facts are read off the library sources:
    (1) docutils' Lexer obtains the pygments lexer with default options and pygments' default ``stripnl`` strips leading
        and trailing newlines - the caller must switch that off on the lexer object before iterating;
    (2) docutils' ``Lexer.merge`` strips the final newline - the caller must put it back after the fragments.
    (The Sphinx back end and the no-language path store the text itself.)"""
    k1 = f"{hl.fq}|pygments lexer keeps leading and trailing blank lines"
    k2 = f"{hl.fq}|final newline dropped by docutils Lexer.merge is restored"
    tp = hl.params[1]
    lf, ltp, _call = _lexing_function(_nesting(corpus, corpus.cls(RENDERER)), hl, tp)
    lex_calls = [c for c in lf.local_nodes() if isinstance(c, ast.Call) and lf.module.resolve(dotted(c.func) or "").endswith("code_analyzer.Lexer")]
    active = [c for c in lex_calls if not (len(c.args) > 2 and isinstance(c.args[2], ast.Constant) and c.args[2].value == "none")]
    if not active:
        rep.ok("C02.R3", k1, hl.site(), "no lexical analysis: the text is stored as one fragment")
        rep.ok("C02.R3", k2, hl.site(), "no lexical analysis: the text is stored as one fragment")
        return
    ca = corpus.sibling("docutils/utils/code_analyzer.py")
    pl = corpus.sibling("pygments/lexer.py")
    rep.saw_sibling(ca.rel)
    rep.saw_sibling(pl.rel)
    init, merge = ca.functions.get("Lexer.__init__"), ca.functions.get("Lexer.merge")
    pinit = pl.functions.get("Lexer.__init__")
    if init is None or merge is None or pinit is None:
        raise AnchorMissing("docutils Lexer.__init__/merge or pygments Lexer.__init__ not found")
    glb = [c for c in init.local_nodes() if isinstance(c, ast.Call) and (dotted(c.func) or "").endswith("get_lexer_by_name")]
    default_opts = bool(glb) and all(kwarg(c, "stripnl") is None and not any(kw.arg is None for kw in c.keywords) for c in glb)
    stripnl_default = None
    for n in pinit.local_nodes():
        if isinstance(n, ast.Assign) and unparse(n.targets[0]) == "self.stripnl" and isinstance(n.value, ast.Call) and len(n.value.args) == 3 and isinstance(n.value.args[2], ast.Constant):
            stripnl_default = n.value.args[2].value
    merge_strips = any(isinstance(n, ast.Assign) and isinstance(n.value, ast.Subscript) and isinstance(n.value.slice, ast.Slice) and n.value.slice.upper is not None and unparse(n.value.slice.upper) == "-1" for n in merge.local_nodes())
    if stripnl_default is None or not glb:
        raise Unsupported("docutils/pygments lexer construction not understood")
    loops = [n for n in hl.local_nodes() if isinstance(n, ast.For) and isinstance(n.target, ast.Tuple)]
    if len(loops) != 1:
        raise Unsupported("create_highlighted_code_block: fragment loop not found")
    loop = loops[0]
    cfg = get_cfg(lf)
    site = lf.module.site(active[0])
    # where the lexing function is done with the lexer: the fragment loop (same function) or its normal exit (helper);
    # the point where the lexer is first iterated, if that is a recognisable statement
    done_at = loop if lf is hl else EXIT
    lexer_vars = set()
    for c in lex_calls:
        p_ = parent(c)
        if isinstance(p_, ast.Assign) and isinstance(p_.targets[0], ast.Name):
            lexer_vars.add(p_.targets[0].id)
    iter_points = []
    for n in lf.local_nodes():
        if isinstance(n, ast.Assign) and isinstance(n.value, ast.Call) and dotted(n.value.func) in ("list", "tuple") and n.value.args and isinstance(n.value.args[0], ast.Name) and n.value.args[0].id in lexer_vars:
            iter_points.append(n)
        elif isinstance(n, ast.For) and isinstance(n.iter, ast.Name) and n.iter.id in lexer_vars and lf is hl and n is loop and not any(isinstance(d, ast.Call) for nm in [n.iter.id] for d in _all_defs(lf, nm) if isinstance(d, ast.Call) and dotted(d.func) in ("list", "tuple")):
            iter_points.append(n)
    first_iter = min(iter_points, key=lambda n: n.lineno) if iter_points else done_at

    # (1) stripnl
    if not (default_opts and stripnl_default is True):
        rep.ok("C02.R3", k1, site, "the installed docutils/pygments do not strip newlines by default")
    else:
        def is_false(e):
            return isinstance(e, ast.Constant) and e.value is False

        def switches_off(st) -> bool:
            # <x>.stripnl = False | setattr(<x>, "stripnl", False) | <x>.lexer = get_lexer...(…, stripnl=False)
            if isinstance(st, ast.Assign) and len(st.targets) == 1 and isinstance(st.targets[0], ast.Attribute):
                t = st.targets[0]
                if t.attr == "stripnl" and is_false(st.value):
                    return True
                if t.attr == "lexer" and isinstance(st.value, ast.Call) and is_false(kwarg(st.value, "stripnl")):
                    return True
            if isinstance(st, ast.Expr) and isinstance(st.value, ast.Call) and dotted(st.value.func) == "setattr" and len(st.value.args) == 3:
                a = st.value.args
                return isinstance(a[1], ast.Constant) and a[1].value == "stripnl" and is_false(a[2])
            return False

        def no_lexer_edge(n) -> bool:
            # the branch on which the Lexer object holds no pygments lexer (nothing can be stripped)
            if not (isinstance(n, tuple) and n[0] in ("T", "F") and isinstance(n[1], ast.If)):
                return False
            t, pol = n[1].test, n[0] == "T"
            if isinstance(t, ast.UnaryOp) and isinstance(t.op, ast.Not):
                t, pol = t.operand, not pol
            if isinstance(t, ast.Compare) and len(t.ops) == 1 and isinstance(t.comparators[0], ast.Constant) and t.comparators[0].value is None and isinstance(t.left, ast.Attribute) and t.left.attr == "lexer":
                return pol == isinstance(t.ops[0], (ast.Is, ast.Eq))
            if isinstance(t, ast.Attribute) and t.attr == "lexer":
                return not pol
            return False

        start = cfg.stmt_of(active[0])
        leak = cfg.paths_avoiding(start, first_iter, lambda n: (isinstance(n, ast.stmt) and switches_off(n)) or no_lexer_edge(n) or (isinstance(n, tuple) and n[0] == "H"))
        if leak:
            rep.violation("C02.R3", k1, site, "docutils' Lexer builds the pygments lexer with default options and pygments' default `stripnl=True` strips leading and trailing newlines; "
                          f"on some path from the Lexer construction to the fragment loop `stripnl` is not switched off on the lexer: code that starts or ends with blank lines is not kept verbatim by the docutils back end (```python\\n\\nx = 1\\n``` becomes 'x = 1')")
        else:
            rep.ok("C02.R3", k1, site, "stripnl is switched off on the pygments lexer before the fragments are read")

    # (3) lexers are lossy in general (pygments drops a BOM, some lexers normalise whitespace): the fragments are only
    #     used if they add up to the text; otherwise the text goes in as one fragment
    k3 = f"{hl.fq}|lexed fragments are used only if they add up to the code text"
    checks = []
    for n in lf.local_nodes():
        if isinstance(n, ast.If) and any(isinstance(c, ast.Compare) and (unparse(c.left) == ltp or any(ltp in unparse(x) for x in c.comparators)) for c in ast.walk(n.test)):
            joins = [c for c in ast.walk(n.test) if isinstance(c, ast.Call) and isinstance(c.func, ast.Attribute) and c.func.attr == "join"]
            names_in_test = {x.id for x in ast.walk(n.test) if isinstance(x, ast.Name)}
            joined = bool(joins) or any(isinstance(d, ast.Call) and isinstance(d.func, ast.Attribute) and d.func.attr == "join" for nm in names_in_test for d in _all_defs(lf, nm))
            # on a mismatch the text itself becomes the only fragment: by rebinding the fragments, or by returning it
            fallback = any(
                (isinstance(st, ast.Assign) and isinstance(st.targets[0], ast.Name) and _mentions(st.value, ltp) and (lf is not hl or st.targets[0].id == unparse(loop.iter)))
                or (isinstance(st, ast.Return) and lf is not hl and _mentions(st.value, ltp))
                for b in (n.body, n.orelse) for x in b for st in ast.walk(x)
            )
            if joined and fallback:
                checks.append(n)
    if checks and not cfg.paths_avoiding(cfg.stmt_of(active[0]), done_at, lambda n: any(n is c for c in checks) or (isinstance(n, tuple) and n[0] == "H")):
        rep.ok("C02.R3", k3, lf.module.site(checks[0]), "the joined fragments are compared with the text; on a mismatch the text is used as a single fragment")
    else:
        rep.violation("C02.R3", k3, site, "the fragments that pygments yields are put into the literal block without checking that they add up to the code text: pygments pre-processes its input "
                      "(a leading U+FEFF is dropped) and some lexers are lossy ('```robotframework' turns 'a\\tb\\x0cc' into 'a b\\nc'), so the code is not kept verbatim by the docutils back end while Sphinx and an unhighlighted fence keep it")

    # (2) final newline
    if not merge_strips:
        rep.ok("C02.R3", k2, site, "the installed docutils Lexer.merge keeps the final newline")
        return
    restored = False
    for n in hl.local_nodes():
        if isinstance(n, ast.If) and any(isinstance(c, ast.Call) and isinstance(c.func, ast.Attribute) and c.func.attr == "endswith" and unparse(c.func.value) == tp and c.args and isinstance(c.args[0], ast.Constant) and c.args[0].value == "\n" for c in ast.walk(n.test)):
            for st in ast.walk(n):
                val = st.value if isinstance(st, ast.AugAssign) else (st.value.args[0] if isinstance(st, ast.Expr) and isinstance(st.value, ast.Call) and isinstance(st.value.func, ast.Attribute) and st.value.func.attr == "append" and st.value.args else None)
                if isinstance(val, ast.Call) and _node_class(val, hl.module) is not None and any(isinstance(a, ast.Constant) and a.value == "\n" for a in val.args) and n.lineno > loop.lineno:
                    restored = True
    if restored:
        rep.ok("C02.R3", k2, site, "a '\\n' child is appended after the fragments when the text ends with a newline")
    else:
        rep.violation("C02.R3", k2, site, "docutils' Lexer.merge strips the final newline of the token stream and nothing puts it back: with a known language the children of the literal_block add up to the code text "
                      "minus its final newline (```python\\nx = 1\\n``` gives 'x = 1'), while the same fence without a language, and the Sphinx back end, give 'x = 1\\n'")


ENCODERS = {"markdown_it.common.utils.escapeHtml", "html.escape", "xml.sax.saxutils.escape", "xml.sax.saxutils.quoteattr", "urllib.parse.quote_plus"}


def _encoders_on_slice(e: ast.AST, fi: FunctionInfo) -> list[ast.Call]:
    """Calls of output-format encoders (HTML/XML escaping ...) on the local data slice of ``e``."""
    out = []
    seen: set[str] = set()
    work = [e]
    while work:
        x = work.pop()
        for n in ast.walk(x):
            if isinstance(n, ast.Call) and fi.module.resolve(dotted(n.func) or "") in ENCODERS:
                out.append(n)
            if isinstance(n, ast.Name) and n.id not in seen:
                seen.add(n.id)
                work.extend(_all_defs(fi, n.id))
    return out


def _slice_calls(e: ast.AST, fi: FunctionInfo, an: "Nesting", depth: int = 0, seen_f: set | None = None):
    """(call, function) for every Call on the backward data slice of ``e``: through local definitions, into the return
    values of package helpers that are called on the slice, and - for plain string parameters - into the arguments at the
    call sites."""
    seen_f = seen_f if seen_f is not None else set()
    seen: set[str] = set()
    work = [e]
    while work:
        x = work.pop()
        for n in ast.walk(x):
            if isinstance(n, ast.Call):
                yield n, fi
                if depth < 3:
                    m = an.resolve_callee(n, fi)
                    if m is not None and not m.is_lambda and (m.fq, "ret") not in seen_f:
                        seen_f.add((m.fq, "ret"))
                        for r in m.local_nodes():
                            if isinstance(r, ast.Return) and r.value is not None:
                                yield from _slice_calls(r.value, m, an, depth + 1, seen_f)
            if isinstance(n, ast.Attribute) and depth < 3 and isinstance(n.value, ast.Name):
                # a property of a package class read on a local (e.g. info.directive_name): follow the object
                pass
            if isinstance(n, ast.Name) and n.id not in seen:
                seen.add(n.id)
                work.extend(_all_defs(fi, n.id))
                if n.id in fi.params and n.id not in ("self", "cls") and depth < 3 and _is_str_annotation(_param_annotation(fi, n.id)) and (fi.fq, n.id) not in seen_f:
                    seen_f.add((fi.fq, n.id))
                    for g in an.scope():
                        for c in g.local_nodes():
                            if isinstance(c, ast.Call) and fi in an.call_targets_safe(c, g):
                                for a in an._args_for_param(c, fi, n.id):
                                    yield from _slice_calls(a, g, an, depth + 1, seen_f)


def _language_word(corpus: Corpus, rep: Report, an: "Nesting", f: FunctionInfo, holder: FunctionInfo, lx: ast.expr, key: str, site: str) -> None:
    """The language of a code block is the first *whitespace*-delimited word of the info string (CommonMark; markdown-it's
    own fence renderer uses ``info.split(maxsplit=1)``): on the way from token.info to the lexer name the string may only
    be cut with str.split on any whitespace, not at one particular separator character."""
    cuts = []
    for c, g in _slice_calls(lx, holder, an):
        if isinstance(c.func, ast.Attribute) and c.func.attr in SPLITTERS and _reaches(c.func.value, g, an, _field_source("info")):
            cuts.append((c, g))
        elif (dotted(c.func) or "") in ("re.split", "re.match", "re.search", "re.fullmatch") and len(c.args) >= 2 and _reaches(c.args[1], g, an, _field_source("info")):
            cuts.append((c, g))
    if not cuts:
        raise Unsupported(f"{f.qualname}: how the language word is cut out of the info string was not recognised")
    for c, g in cuts:
        if isinstance(c.func, ast.Attribute) and c.func.attr in ("split", "rsplit"):
            sep = arg_or_kw(c, 0, "sep")
            if sep is None or (isinstance(sep, ast.Constant) and sep.value is None):
                continue
            bad = sep
        elif isinstance(c.func, ast.Attribute):
            bad = c.args[0] if c.args else None
        else:
            pat = c.args[0]
            if isinstance(pat, ast.Constant) and isinstance(pat.value, str) and ("\\s" in pat.value or "\\S" in pat.value):
                continue
            raise Unsupported(f"{f.qualname}: regular expression `{short(pat, 30)}` for the language word not understood")
        rep.violation("C02.R3", key, g.module.site(c), f"the language word is cut out of the info string with `{short(c, 50)}`: only {short(bad, 20) if bad is not None else 'that separator'} ends the word, "
                      "while CommonMark / markdown-it end it at any whitespace (`info.split(maxsplit=1)`): for ```python<TAB>title the language becomes 'python\\ttitle'")
        return
    rep.ok("C02.R3", key, site, "cut at any whitespace (str.split without separator), as markdown-it's fence renderer does")


ENC, DEC, OTHER = "encoded", "decoded", "other"


def _decoded_destination(rep: Report, an: "Nesting", fi: FunctionInfo, key_name: str, store: ast.AST, value: ast.expr, want: str = "encoded") -> bool:
    """markdown-it hands out percent-ENCODED destinations; ``normalizeLinkText`` DECODES them (for display / template
    variables), ``normalizeLink`` encodes again. A forward flow analysis of that state over the CFG, for the locals the stored
    value is made of: a URI attribute (refuri / uri) must not receive a value that is in the decoded state on some path.
    Reports one violation per decoding definition that reaches the store; returns True if it reported."""
    names = [n.id for n in ast.walk(value) if isinstance(n, ast.Name)]
    cfg = get_cfg(fi)
    reported = False

    def state_of(e: ast.AST, env: dict[str, set[str]]) -> set[str]:
        if isinstance(e, ast.Call):
            d = dotted(e.func) or ""
            if d.endswith("normalizeLinkText"):
                return {DEC}
            if d.endswith("normalizeLink"):
                return {ENC}
            if isinstance(e.func, ast.Attribute) and e.func.attr == "attrGet":
                return {ENC}
            if d in ("cast",) and len(e.args) == 2:
                return state_of(e.args[1], env)
            if d.endswith("escapeHtml") and e.args:
                return state_of(e.args[0], env)
            out: set[str] = set()
            for a in list(e.args) + [k.value for k in e.keywords]:
                out |= state_of(a, env)
            return ({DEC} if DEC in out else set()) | {OTHER}
        if isinstance(e, ast.Name):
            return set(env.get(e.id, {OTHER}))
        if isinstance(e, ast.BoolOp):
            out = set()
            for v in e.values:
                if not isinstance(v, ast.Constant):
                    out |= state_of(v, env)
            return out or {OTHER}
        if isinstance(e, ast.IfExp):
            return state_of(e.body, env) | state_of(e.orelse, env)
        if isinstance(e, ast.Lambda):
            return state_of(e.body, env)
        out = set()
        for c in ast.iter_child_nodes(e):
            if isinstance(c, ast.expr):
                out |= state_of(c, env)
        return ({DEC} if DEC in out else set()) | ({ENC} if out == {ENC} else {OTHER}) if out else {OTHER}

    # worklist over CFG nodes; env: name -> set of (state, defining stmt id)
    tracked: set[str] = set()
    work_names = list(names)
    while work_names:
        nm = work_names.pop()
        if nm in tracked:
            continue
        tracked.add(nm)
        for d in _all_defs(fi, nm):
            work_names.extend(x.id for x in ast.walk(d) if isinstance(x, ast.Name))
    inn: dict[object, dict[str, frozenset]] = {"ENTRY": {}}
    work = ["ENTRY"]
    outs: dict[object, dict[str, frozenset]] = {}
    while work:
        n = work.pop()
        env = {k: set(v) for k, v in inn.get(n, {}).items()}
        if isinstance(n, ast.stmt):
            for nm in tracked:
                b = _binds(n, nm)
                if b is False:
                    continue
                if b is True:
                    env[nm] = {(OTHER, 0)}
                else:
                    plain = {k: {s for s, _ in v} for k, v in env.items()}
                    if isinstance(n, ast.Assign) and isinstance(n.targets[0], (ast.Tuple, ast.List)):
                        st = {OTHER}
                    else:
                        st = state_of(b, plain)
                    env[nm] = {(x, id(n) if x == DEC else 0) for x in st}
        new = {k: frozenset(v) for k, v in env.items()}
        if outs.get(n) == new and n in outs:
            continue
        outs[n] = new
        for sx in cfg.succ.get(n, []):
            cur = inn.get(sx, {})
            merged = {k: frozenset(set(cur.get(k, frozenset())) | set(new.get(k, frozenset()))) for k in set(cur) | set(new)}
            if merged != cur or sx not in inn:
                inn[sx] = merged
                work.append(sx)
    env_at = inn.get(cfg.stmt_of(store), {})
    plain = {k: {s for s, _ in v} for k, v in env_at.items()}
    if want == "decoded":
        # a target *name* (refname / reftarget) is matched against names written in the source: it must not be
        # markdown-it's percent-encoded href
        if ENC in state_of(value, plain):
            rep.violation("C02.R3", f"{fi.fq}|{key_name} is a decoded target name", fi.module.site(store),
                          f"`{key_name}` receives `{short(value, 50)}`, markdown-it's percent-encoded href, on some path: `[a](é)` / `[b](<my target>)` look for the names '%C3%A9' / 'my%20target' "
                          "and end as unknown targets, while the other back end decodes the name first (the back ends disagree on the destination)")
            return True
        rep.ok("C02.R3", f"{fi.fq}|{key_name} is a decoded target name", fi.module.site(store), "never the raw percent-encoded href")
        return False
    if DEC not in state_of(value, plain):
        return False
    stmts = {id(x): x for x in fi.local_nodes() if isinstance(x, ast.stmt)}
    culprits = sorted({sid for nm in names for s_, sid in env_at.get(nm, ()) if s_ == DEC and sid}, key=lambda i: stmts[i].lineno)
    for sid in culprits or [0]:
        d = stmts.get(sid)
        guards = sorted({("" if pol else "not ") + short(t, 40) for t, pol in cfg.guards(d)}) if d is not None else []
        k = f"{fi.fq}|{key_name} stored percent-decoded|decoded {'under: ' + ' and '.join(guards) if guards else 'unconditionally'}"
        rep.violation("C02.R3", k, fi.module.site(d if d is not None else store),
                      f"`{short(d, 50) if d is not None else short(value, 40)}` percent-decodes the destination and on some path `{key_name}` is stored without re-encoding it (normalizeLink): "
                      "`[a](http://x/a%20b)` gets the destination 'http://x/a b' in the doctree while the token (and the same link on the other paths) keeps 'http://x/a%20b'")
        reported = True
    return reported


def _forward_states(fi: FunctionInfo, seeds: list[str], state_of) -> dict[object, dict[str, frozenset]]:
    """Forward may-analysis over the CFG: for the locals the seed names are made of, the set of abstract states each can
    have at the entry of every CFG node. ``state_of(expr, env) -> set`` gives the state of an assigned expression."""
    cfg = get_cfg(fi)
    tracked: set[str] = set()
    wn = list(seeds)
    while wn:
        nm = wn.pop()
        if nm in tracked:
            continue
        tracked.add(nm)
        for d in _all_defs(fi, nm):
            wn.extend(x.id for x in ast.walk(d) if isinstance(x, ast.Name))
    inn: dict[object, dict[str, frozenset]] = {"ENTRY": {}}
    outs: dict[object, dict[str, frozenset]] = {}
    work = ["ENTRY"]
    while work:
        n = work.pop()
        env = {k: set(v) for k, v in inn.get(n, {}).items()}
        if isinstance(n, ast.stmt):
            for nm in tracked:
                b = _binds(n, nm)
                if b is False:
                    continue
                if b is True or (isinstance(n, ast.Assign) and isinstance(n.targets[0], (ast.Tuple, ast.List)) and not isinstance(b, ast.Call)):
                    env[nm] = {"other"}
                else:
                    env[nm] = set(state_of(b, env, fi))
        new = {k: frozenset(v) for k, v in env.items()}
        if n in outs and outs[n] == new:
            continue
        outs[n] = new
        for sx in cfg.succ.get(n, []):
            cur = inn.get(sx, {})
            merged = {k: frozenset(set(cur.get(k, frozenset())) | set(new.get(k, frozenset()))) for k in set(cur) | set(new)}
            if merged != cur or sx not in inn:
                inn[sx] = merged
                work.append(sx)
    return inn


RAW, DONE = "raw", "done"


def _transform_states(fi: FunctionInfo, an: "Nesting", at: ast.AST, value: ast.expr, is_raw_source, is_transform, depth: int = 0, callers_in: set[str] | None = None, cuts: bool = False) -> set[str]:
    """States of ``value`` at statement ``at``: RAW if it (may) derive from the raw source without passing the required
    transformation, DONE if it passed it, 'other' if it does not come from the source at all. Package helpers that are
    handed the token / a string parameter are followed one level (return values / call sites)."""
    toks = set(_tok_params(fi))

    def state_of(e: ast.AST, env, f=fi) -> set[str]:
        if is_raw_source(e, f):
            return {RAW}
        if isinstance(e, ast.Call):
            if is_transform(e, f):
                if cuts:
                    inner: set[str] = set()
                    for a in list(e.args) + [k.value for k in e.keywords]:
                        inner |= state_of(a, env, f)
                    if "cutraw" in inner:
                        return {"late"}  # transformed only after a piece was cut out of the raw string
                return {DONE}  # the output of the transformation is transformed, whatever went in
            if cuts and isinstance(e.func, ast.Attribute) and e.func.attr in SPLITTERS:
                recv = state_of(e.func.value, env, f)
                return {("cutraw" if x == RAW else x) for x in recv} or {"other"}
            m = an.resolve_callee(e, f) if depth < 2 else None
            if m is not None and not m.is_lambda and any(isinstance(a, ast.Name) and a.id in toks for a in e.args) and _tok_params(m):
                out: set[str] = set()
                for r in m.local_nodes():
                    if isinstance(r, ast.Return) and r.value is not None:
                        out |= _transform_states(m, an, r, r.value, is_raw_source, is_transform, depth + 1, callers_in, cuts)
                return out or {"other"}
            out = set()
            for a in list(e.args) + [k.value for k in e.keywords] + ([e.func.value] if isinstance(e.func, ast.Attribute) else []):
                out |= state_of(a, env, f)
            return out or {"other"}
        if isinstance(e, ast.Name):
            if e.id in env:
                return set(env[e.id])
            if e.id in f.params and e.id not in ("self", "cls") and e.id not in toks and depth < 2:
                out = set()
                for g in an.scope():
                    if callers_in is not None and g.fq not in callers_in:
                        continue  # a helper shared with other handlers: only the call sites of the handler under judgement count
                    for c in g.local_nodes():
                        if isinstance(c, ast.Call) and f in an.call_targets_safe(c, g):
                            for a in an._args_for_param(c, f, e.id):
                                out |= _transform_states(g, an, c, a, is_raw_source, is_transform, depth + 1, callers_in, cuts)
                return out or {"other"}
            return {"other"}
        if isinstance(e, ast.Constant):
            return {"other"}
        if isinstance(e, ast.IfExp):
            return state_of(e.body, env, f) | state_of(e.orelse, env, f)
        out = set()
        for c in ast.iter_child_nodes(e):
            if isinstance(c, ast.expr):
                out |= state_of(c, env, f)
        return out or {"other"}

    names = [n.id for n in ast.walk(value) if isinstance(n, ast.Name)]
    inn = _forward_states(fi, names, state_of)
    cfg = get_cfg(fi)
    env_at = {k: set(v) for k, v in inn.get(cfg.stmt_of(at), {}).items()}
    return state_of(value, env_at)


def _info_unescaped(corpus: Corpus, rep: Report, an: "Nesting", f: FunctionInfo, holder: FunctionInfo, call: ast.Call, lx: ast.expr, key: str) -> None:
    """Backslash escapes and character references are active in a fence's info string and markdown-it leaves resolving them
    to the renderer (RendererHTML.fence applies unescapeAll to token.info - read from its source): the language handed to
    the highlighter must, on every path, be computed from the unescaped info string."""
    ref = corpus.sibling("markdown_it/renderer.py").functions.get("RendererHTML.fence")
    if ref is None or not any(isinstance(c, ast.Call) and (dotted(c.func) or "").endswith("unescapeAll") and "info" in unparse(c) for c in ref.local_nodes()):
        rep.ok("C02.R3", key, holder.module.site(call), "the installed markdown-it does not unescape the info string in its own fence renderer")
        return
    st = _transform_states(
        holder, an, call, lx,
        lambda e, fn: isinstance(e, ast.Attribute) and e.attr == "info" and isinstance(e.value, ast.Name) and e.value.id in _tok_params(fn),
        lambda e, fn: (dotted(e.func) or "").endswith("unescapeAll"),
        callers_in={h.fq for h, _t in _token_helpers(an, f, _tok_param(f))},
        cuts=True,
    )
    if "late" in st and not ({RAW, "cutraw"} & st):
        rep.violation("C02.R3", key, holder.module.site(call), f"on some path the language handed to the highlighter (`{short(lx, 30)}`) is first cut out of the raw token.info and only then unescaped: "
                      "markdown-it's fence renderer unescapes the whole info string and then takes its first word, so an escaped or referenced space ('```a&#32;b', '```a\\ b') ends the word there ('a') but not here ('a b')")
    elif {RAW, "cutraw", "late"} & st:
        rep.violation("C02.R3", key, holder.module.site(call), f"on some path the language handed to the highlighter (`{short(lx, 30)}`) is cut out of the raw token.info: backslash escapes and character references "
                      "of the info string are not resolved (markdown-it's fence renderer applies unescapeAll), so '```c&#43;&#43;' / '``` foo\\+bar' get the language 'c&#43;&#43;' / 'foo\\+bar' instead of 'c++' / 'foo+bar'")
    else:
        rep.ok("C02.R3", key, holder.module.site(call), "computed from unescapeAll(token.info) on every path")


def _name_normal_forms(corpus: Corpus, rep: Report, an: "Nesting") -> None:
    """docutils resolves a ``refname`` by looking it up among the names under which targets were registered. Within one
    family (footnotes / everything else) the sites that register names (``node["names"]``) and the sites that store a
    ``refname`` must agree on the normal form: if the names are stored as nodes.fully_normalize_name(...), so must the
    refname be on every path - and vice versa."""
    is_norm = lambda e, fn: (dotted(e.func) or "").split(".")[-1] in ("fully_normalize_name", "whitespace_normalize_name")  # noqa: E731
    never_raw = lambda e, fn: False  # noqa: E731
    writers: dict[str, list] = {"footnote": [], "general": []}
    readers: dict[str, list] = {"footnote": [], "general": []}
    for fi in an.scope():
        if fi.cls is None or fi.cls.fq != an.k.fq:
            continue
        for st in sorted((x for x in fi.local_nodes() if isinstance(x, ast.stmt)), key=lambda x: x.lineno):
            val = recv = None
            kind = None
            if isinstance(st, ast.Expr) and isinstance(st.value, ast.Call) and isinstance(st.value.func, ast.Attribute) and st.value.func.attr == "append" and isinstance(st.value.func.value, ast.Subscript) and isinstance(st.value.func.value.slice, ast.Constant) and st.value.func.value.slice.value == "names" and st.value.args:
                val, recv, kind = st.value.args[0], st.value.func.value.value, "w"
            elif isinstance(st, ast.Assign) and len(st.targets) == 1 and isinstance(st.targets[0], ast.Subscript) and isinstance(st.targets[0].slice, ast.Constant) and st.targets[0].slice.value in ("names", "refname"):
                recv = st.targets[0].value
                if st.targets[0].slice.value == "refname":
                    val, kind = st.value, "r"
                elif isinstance(st.value, (ast.List, ast.Tuple)) and len(st.value.elts) == 1:
                    val, kind = st.value.elts[0], "w"
            if val is None or not isinstance(recv, ast.Name):
                continue
            classes = _node_classes_of(an, recv, fi) or set()
            fam = "footnote" if classes and classes <= {"footnote", "footnote_reference"} else "general"
            # the state: did the value pass a normaliser? every string that is not a constant counts as raw
            st_set = _transform_states(fi, an, st, val, lambda e, fn: isinstance(e, ast.Attribute) and isinstance(e.value, ast.Name) and e.value.id in _tok_params(fn), is_norm)
            (writers if kind == "w" else readers)[fam].append((fi, st, val, st_set))
    for fam in ("general", "footnote"):
        wforms = {("norm" if s_ == {DONE} else "raw" if DONE not in s_ else "mixed") for _f, _s, _v, s_ in writers[fam]}
        for fi, st, val, s_ in readers[fam]:
            k = f"{fi.fq}|refname uses the normal form under which {fam} names are registered"
            form = "norm" if s_ == {DONE} else "raw" if DONE not in s_ else "mixed"
            if not writers[fam]:
                rep.listed("C02.R3", k, fi.module.site(st), "no registering site found in the render scope")
            elif wforms == {form} and form != "mixed":
                rep.ok("C02.R3", k, fi.module.site(st), f"{'nodes.fully_normalize_name(...)' if form == 'norm' else 'the label as written'} on both sides ({len(writers[fam])} registering site(s))")
            else:
                odd = [f"{wf.name}: `{short(wv, 30)}`" for wf, _ws, wv, ws_ in writers[fam] if ("norm" if ws_ == {DONE} else "raw" if DONE not in ws_ else "mixed") != "norm"]
                rep.violation("C02.R3", k, fi.module.site(st), f"the refname `{short(val, 40)}` is {'normalised' if form == 'norm' else 'not normalised on every path'} while the names it is looked up in are registered "
                              + (f"un-normalised at {'; '.join(odd)}" if odd and form == "norm" else "as nodes.fully_normalize_name(...) (lower case, single spaces)")
                              + ": '(My-Target)=' + '[text](My-Target)' ends as 'Unknown target name' in the docutils back end while Sphinx resolves it")


def _sphinx_image_path(corpus: Corpus, rep: Report) -> None:
    """Sphinx' ImageCollector reads node['uri'] of a local image as a file path and hands it to env.relfn2path without
    percent-decoding (read from its source); SphinxRenderer decodes the destinations of links to files but inherits
    render_image, which stores markdown-it's percent-encoded src."""
    try:
        col = corpus.sibling("sphinx/environment/collectors/asset.py")
    except AnchorMissing:
        return
    pd = col.functions.get("ImageCollector.process_doc")
    if pd is None:
        return
    reads_as_path = any(isinstance(c, ast.Call) and isinstance(c.func, ast.Attribute) and c.func.attr == "relfn2path" for c in pd.local_nodes()) and not any(
        isinstance(c, ast.Call) and (dotted(c.func) or "").split(".")[-1] in ("unquote", "url2pathname") for c in pd.local_nodes())
    base_ci = corpus.cls(RENDERER)
    img = corpus.lookup_method(base_ci, "render_image")
    k = f"{img.fq}|uri of a local image is a file path for Sphinx"
    subs = corpus.subclasses(base_ci)
    overridden = all("render_image" in sc.methods for sc in subs) if subs else False
    decodes = any(isinstance(c, ast.Call) and (dotted(c.func) or "").split(".")[-1] in ("unquote", "normalizeLinkText") for c in img.local_nodes())
    if not reads_as_path:
        rep.ok("C02.R3", k, img.site(), "the installed Sphinx decodes the uri itself")
    elif overridden or decodes:
        rep.ok("C02.R3", k, img.site(), "the Sphinx back end decodes the source of a local image")
    else:
        rep.violation("C02.R3", k, img.site(), "render_image stores markdown-it's percent-encoded src as uri in the Sphinx back end too, where ImageCollector reads the uri of a local image as a file path without decoding it: "
                      "'![one](é.png)' gives uri '%C3%A9.png' and 'image file not readable', while links to the same file are decoded (SphinxRenderer._decode_destination) and the docutils back end resolves the URI reference")


def _html_work_function(corpus: Corpus, an: "Nesting") -> FunctionInfo:
    """html_to_nodes, or the module-level helper it hands its text to that holds the guarded parse step."""
    top = corpus.func("mdit_to_docutils.html_to_nodes:html_to_nodes")

    def has_parse(fn: FunctionInfo) -> bool:
        tp_ = fn.params[0] if fn.params else None
        return any(
            isinstance(n, ast.Assign) and len(n.targets) == 1 and isinstance(n.targets[0], ast.Name) and isinstance(n.value, ast.Call) and any(isinstance(a, ast.Try) for a in ancestors(n))
            and any(isinstance(c, ast.Call) and any(isinstance(x, ast.Name) and x.id == tp_ for x in c.args) for c in ast.walk(n.value))
            and not any(isinstance(c, ast.Call) and an.resolve_callee(c, fn) is not None and an.resolve_callee(c, fn).module is fn.module for c in ast.walk(n.value))
            for n in fn.local_nodes()
        )

    seen: set[str] = set()
    work = [(top, 0)]
    while work:
        fn, d = work.pop(0)
        if fn.fq in seen:
            continue
        seen.add(fn.fq)
        if has_parse(fn):
            return fn
        if d < 2 and fn.params:
            for c in fn.local_nodes():
                if isinstance(c, ast.Call) and isinstance(c.func, ast.Name) and any(isinstance(a, ast.Name) and a.id == fn.params[0] for a in c.args):
                    m = an.resolve_callee(c, fn)
                    if m is not None and not m.is_lambda and m.module is fn.module:
                        work.append((m, d + 1))
    raise Unsupported("html_to_nodes: the guarded parse step `<root> = <parse>(text)` was not found in it or in a helper it hands the text to")


def _html_all_or_nothing(corpus: Corpus, rep: Report, an: "Nesting") -> None:
    """html_to_nodes replaces an HTML leaf by directive output only if *every* child of the parsed HTML is convertible;
    otherwise the text goes out verbatim as one raw node. Both the convertibility gate and the conversion loop must
    therefore range over all children of the parse result - a filtered subset silently drops what was filtered out."""
    f = _html_work_function(corpus, an)
    rep.saw_function(f.fq)
    # the parse result: the local that is computed from the text (tokenize_html(text), <tokenizer>.feed(text) ...) inside the
    # guarded parse step and that the conversion ranges over
    text_param = f.params[0]
    roots = []
    for n in f.local_nodes():
        if isinstance(n, ast.Assign) and len(n.targets) == 1 and isinstance(n.targets[0], ast.Name) and isinstance(n.value, ast.Call) and any(isinstance(a, ast.Try) for a in ancestors(n)):
            if any(isinstance(c, ast.Call) and any(isinstance(x, ast.Name) and x.id == text_param for x in c.args) for c in ast.walk(n.value)):
                roots.append(n)
    if len(roots) != 1:
        raise Unsupported(f"html_to_nodes: expected one guarded `<root> = <parse>(text)` step, found {len(roots)}")
    root = roots[0].targets[0].id

    def complete(it: ast.expr, depth: int = 0) -> str | None:
        """None if the iterable is all children of the parse result, else what restricts it."""
        if isinstance(it, ast.Name) and it.id == root:
            return None
        if isinstance(it, ast.Attribute) and it.attr == "children" and isinstance(it.value, ast.Name) and it.value.id == root:
            return None
        if isinstance(it, ast.Call) and dotted(it.func) in ("list", "tuple", "iter") and len(it.args) == 1:
            return complete(it.args[0], depth + 1)
        if isinstance(it, ast.Name) and depth < 3:
            defs = _all_defs(f, it.id)
            if len(defs) == 1:
                return complete(defs[0], depth + 1)
        if isinstance(it, (ast.ListComp, ast.GeneratorExp)) and len(it.generators) == 1:
            g = it.generators[0]
            if g.ifs:
                return f"the filter `if {short(g.ifs[0], 40)}`"
            if unparse(it.elt) == unparse(g.target):
                return complete(g.iter, depth + 1)
        if isinstance(it, ast.Call) and dotted(it.func) == "filter":
            return f"`{short(it, 40)}`"
        if isinstance(it, ast.Subscript) and isinstance(it.slice, ast.Slice):
            return f"the slice `{short(it, 40)}`"
        raise Unsupported(f"html_to_nodes: iterable `{short(it, 40)}` not understood")

    def converts(node: ast.AST, fn: FunctionInfo, depth: int = 0) -> bool:
        """The code runs a directive, itself or through module-level helpers."""
        for c in ast.walk(node):
            if isinstance(c, ast.Call):
                if isinstance(c.func, ast.Attribute) and c.func.attr == "run_directive":
                    return True
                if isinstance(c.func, ast.Name) and depth < 2:
                    m = an.resolve_callee(c, fn)
                    if m is not None and not m.is_lambda and m.fq != fn.fq and converts(m.node, m, depth + 1):
                        return True
        return False

    def falls_back(node: ast.AST) -> bool:
        return any(isinstance(r, ast.Return) and isinstance(r.value, ast.Call) and (dotted(r.value.func) or "").endswith("default_html") for r in ast.walk(node))

    top_loops = [n for n in f.local_nodes() if isinstance(n, ast.For) and not any(isinstance(a, (ast.For, ast.While)) for a in ancestors(n))]
    loops = [n for n in top_loops if converts(n, f)]
    # the gate: `if not all(<test> for child in X): return default_html(...)`, or a loop over X that returns the fallback
    gate_iters: list[tuple[ast.expr, str | None, ast.AST]] = []
    for c in f.local_nodes():
        if isinstance(c, ast.Call) and dotted(c.func) in ("all", "any") and c.args and isinstance(c.args[0], (ast.GeneratorExp, ast.ListComp)):
            st = parent(c)
            while st is not None and not isinstance(st, ast.stmt):
                st = parent(st)
            if isinstance(st, ast.If) and falls_back(st):
                gg = c.args[0].generators[0]
                gate_iters.append((gg.iter, (f"the filter `if {short(gg.ifs[0], 40)}`" if gg.ifs else None), c))
    for n in top_loops:
        if n not in loops and falls_back(n):
            gate_iters.append((n.iter, None, n))
    if len(gate_iters) != 1 or len(loops) != 1:
        raise Unsupported(f"html_to_nodes: expected one convertibility gate and one conversion loop, found {len(gate_iters)} / {len(loops)}")
    g_iter, g_extra, g_node = gate_iters[0]
    for what, it, extra, node in (("convertibility gate", g_iter, g_extra, g_node), ("conversion loop", loops[0].iter, None, loops[0])):
        k = f"{f.fq}|{what} ranges over every child of the parsed HTML"
        why = extra or complete(it)
        if why is None:
            rep.ok("C02.R3", k, f.module.site(node), f"iterates `{root}`")
        else:
            rep.violation("C02.R3", k, f.module.site(node), f"the {what} of html_to_nodes ranges over the children restricted by {why}: character data, comments and entities between the convertible elements are neither a reason to fall back to the raw node nor converted - that part of the raw-HTML leaf vanishes from the doctree")


@rule("C02.R3")
def r3_verbatim_leaves(corpus: Corpus, rep: Report, tier: str):
    rep.rule("C02.R3", "leaf text is exactly token.content; the highlighter appends every lexer fragment once; destinations, image uri/alt, list start and code language derive from the token")
    _load_node_classes(corpus, rep)
    base_ci = corpus.cls(RENDERER)
    n_leaf = 0
    for klass in _renderer_classes(corpus):
        an = _nesting(corpus, klass)
        for t in LEAF_TYPES:
            fi = an.method(f"render_{t}")
            if fi is None:
                if klass.fq == base_ci.fq:
                    rep.error("C02.R3", f"render_{t} not found")
                continue
            if fi.cls is None or fi.cls.fq != klass.fq:
                continue  # inherited: judged in the defining class
            rep.saw_function(fi.fq)
            tok = _tok_param(fi)
            sinks = _sinks_closure(an, fi, tok, corpus)
            delegates = [c for c in fi.local_nodes() if isinstance(c, ast.Call) and _is_self_call(c) and c.func.attr.startswith("render_") and c.func.attr[7:] in LEAF_TYPES and c.args and isinstance(c.args[0], ast.Name) and c.args[0].id == tok]
            if not sinks and not delegates:
                rep.error("C02.R3", f"{fi.fq}: no construct that turns token content into leaf text was recognised")
                continue
            ordn: dict[str, int] = {}
            for c in delegates:
                n_leaf += 1
                rep.ok("C02.R3", f"{fi.fq}|delegates to {c.func.attr}", fi.module.site(c), "same token handed on")
            for holder, htok, call, texpr, kind in sinks:
                n_leaf += 1
                k0 = f"{fi.fq}|text of {kind}"
                ordn[k0] = ordn.get(k0, 0) + 1
                k = k0 + (f"#{ordn[k0]}" if ordn[k0] > 1 else "")
                why = _verbatim(texpr, holder, htok, 0, an)
                via = "" if holder is fi else f" (in {holder.name})"
                if why is None:
                    rep.ok("C02.R3", k, holder.module.site(call), f"{htok}.content{via}")
                else:
                    rep.violation("C02.R3", k, holder.module.site(call), f"the text of the {kind} leaf built by {fi.qualname}{via} is {why}, not {htok}.content verbatim")
    # the highlighter keeps the text whether or not the lexer splits it
    hl = corpus.func(f"{RENDERER}.create_highlighted_code_block")
    rep.saw_function(hl.fq)
    tp = hl.params[1] if len(hl.params) > 1 else None
    if tp is None or _all_defs(hl, tp):
        rep.error("C02.R3", "create_highlighted_code_block: text parameter missing or rebound")
    else:
        n_hl = 0
        lexvars: set[str] = set()
        lexfn, lex_tp, lex_call = _lexing_function(_nesting(corpus, corpus.cls(RENDERER)), hl, tp)
        if lexfn is not hl:
            # the lexing moved into a helper: its text parameter must receive the highlighter's text, its Lexer(...) that parameter
            rep.saw_function(lexfn.fq)
            p_ = parent(lex_call)
            while p_ is not None and not isinstance(p_, ast.stmt):
                p_ = parent(p_)
            if isinstance(p_, (ast.Assign, ast.AnnAssign)):
                tg = p_.targets[0] if isinstance(p_, ast.Assign) else p_.target
                if isinstance(tg, ast.Name):
                    lexvars.add(tg.id)
            for c in sorted((c for c in lexfn.local_nodes() if isinstance(c, ast.Call) and lexfn.module.resolve(dotted(c.func) or "").endswith("code_analyzer.Lexer")), key=lambda c: (c.lineno, c.col_offset)):
                n_hl += 1
                ordk = sum(1 for i in rep.items if i.rule == "C02.R3" and i.key.startswith(f"{hl.fq}|Lexer input"))
                k = f"{hl.fq}|Lexer input" + (f"#{ordk + 1}" if ordk else "")
                if c.args and isinstance(c.args[0], ast.Name) and c.args[0].id == lex_tp and not _all_defs(lexfn, lex_tp):
                    rep.ok("C02.R3", k, lexfn.module.site(c), f"{lex_tp} (= {tp} of the highlighter, in {lexfn.name})")
                else:
                    rep.violation("C02.R3", k, lexfn.module.site(c), f"the lexer is fed `{short(c.args[0], 40) if c.args else ''}`, not the code text handed in")
        for c in sorted((c for c in hl.local_nodes() if isinstance(c, ast.Call)), key=lambda c: (c.lineno, c.col_offset)):
            d = dotted(c.func) or ""
            is_param_ctor = isinstance(c.func, ast.Name) and c.func.id in hl.params
            if is_param_ctor:
                for idx, role in ((0, "rawsource"), (1, "text")):
                    if len(c.args) > idx:
                        n_hl += 1
                        k = f"{hl.fq}|{role} of {short(c.func, 20)}(...)|{'sphinx' if len(c.args) > 1 else 'docutils'} branch"
                        if isinstance(c.args[idx], ast.Name) and c.args[idx].id == tp:
                            rep.ok("C02.R3", k, hl.module.site(c), tp)
                        else:
                            rep.violation("C02.R3", k, hl.module.site(c), f"the literal block's {role} is `{short(c.args[idx], 40)}`, not the code text handed in")
            elif hl.module.resolve(d).endswith("code_analyzer.Lexer"):
                n_hl += 1
                ordk = sum(1 for i in rep.items if i.rule == "C02.R3" and i.key.startswith(f"{hl.fq}|Lexer input"))
                k = f"{hl.fq}|Lexer input" + (f"#{ordk + 1}" if ordk else "")
                if c.args and isinstance(c.args[0], ast.Name) and c.args[0].id == tp:
                    rep.ok("C02.R3", k, hl.module.site(c), tp)
                else:
                    rep.violation("C02.R3", k, hl.module.site(c), f"the lexer is fed `{short(c.args[0], 40) if c.args else ''}`, not the code text handed in")
                p = parent(c)
                if isinstance(p, ast.Assign) and isinstance(p.targets[0], ast.Name):
                    lexvars.add(p.targets[0].id)
        loops = [n for n in hl.local_nodes() if isinstance(n, ast.For) and isinstance(n.iter, ast.Name) and n.iter.id in lexvars]
        if len(loops) != 1 or not (isinstance(loops[0].target, ast.Tuple) and len(loops[0].target.elts) == 2 and isinstance(loops[0].target.elts[1], ast.Name)):
            rep.error("C02.R3", f"create_highlighted_code_block: expected one `for classes, value in <lexer tokens>` loop, found {len(loops)}")
        else:
            loop = loops[0]
            v = loop.target.elts[1].id
            cfg = get_cfg(hl)

            def weight(n):
                if not isinstance(n, ast.stmt):
                    return 0
                w = 0
                val = None
                if isinstance(n, ast.AugAssign) and isinstance(n.op, ast.Add):
                    val = n.value
                elif isinstance(n, ast.Expr) and isinstance(n.value, ast.Call) and isinstance(n.value.func, ast.Attribute) and n.value.func.attr == "append" and n.value.args:
                    val = n.value.args[0]
                if isinstance(val, ast.Call):
                    nc = _node_class(val, hl.module)
                    if nc == "docutils.nodes.Text":
                        t = val.args[0] if val.args else None
                    elif nc is not None and nc.rsplit(".", 1)[1] in _TEXT_ELEMENTS:
                        t = arg_or_kw(val, 1, "text")
                    else:
                        t = None
                    if isinstance(t, ast.Name) and t.id == v:
                        w = 1
                return w

            res = _path_counts(cfg, ("T", loop), weight, lambda n: n is loop)
            got = set()
            for kk, vv in res.items():
                got |= vv
            k = f"{hl.fq}|every lexer fragment appended once"
            n_hl += 1
            if got == {1}:
                rep.ok("C02.R3", k, hl.module.site(loop), f"each `{v}` becomes one Text/inline child")
            else:
                rep.violation("C02.R3", k, hl.module.site(loop), f"some path through the fragment loop appends `{v}` {sorted(got)} times: code text is dropped or duplicated when the lexer splits it")
        if n_hl < 4:
            rep.error("C02.R3", f"create_highlighted_code_block: only {n_hl} text flows recognised")
        _lexer_conservation(corpus, rep, hl)
    # attributes carried over from the token
    n_dest = 0
    for klass in _renderer_classes(corpus):
        an = _nesting(corpus, klass)
        # functions that receive a link / image token (closure of render_link, render_image over self-calls handing the token on)
        link_scope: set[str] = set()
        work = [m for m in (an.method("render_link"), an.method("render_image")) if m is not None]
        if len(work) < 2:
            raise AnchorMissing("render_link / render_image not found")
        while work:
            f = work.pop()
            if f.fq in link_scope:
                continue
            link_scope.add(f.fq)
            toks = set(_tok_params(f))
            for c in f.local_nodes():
                if isinstance(c, ast.Call) and (_is_self_call(c) or isinstance(c.func, ast.Call)) and any(isinstance(a, ast.Name) and a.id in toks for a in c.args):
                    for m in an.call_targets(c, f):
                        if _tok_params(m):
                            work.append(m)
        for fi in an.scope():
            if fi.cls is None or fi.cls.fq != klass.fq or not _tok_params(fi) or fi.fq not in link_scope:
                continue
            ordn: dict[str, int] = {}

            def judge(key_name: str, value: ast.expr, site_node, attr: str):
                nonlocal n_dest
                k0 = f"{fi.fq}|{key_name} carried over from {attr}"
                ordn[k0] = ordn.get(k0, 0) + 1
                k = k0 + (f"#{ordn[k0]}" if ordn[k0] > 1 else "")
                n_dest += 1
                if key_name == "refuri" and _from_inventory_match(value, fi, an):
                    rep.assumed("C02.R3", k, fi.module.site(site_node), INVENTORY_DEST_WHY)
                    return
                if key_name in ("refuri", "uri") and isinstance(site_node, ast.Assign):
                    recv = unparse(site_node.targets[0].value)
                    local_target = any(isinstance(o, ast.Assign) and isinstance(o.targets[0], ast.Subscript) and unparse(o.targets[0].value) == recv and isinstance(o.targets[0].slice, ast.Constant) and o.targets[0].slice.value == "id_link" for o in fi.local_nodes())
                    if not local_target:  # an id_link refuri is the name of a local target to look up (C09), not a URI
                        _decoded_destination(rep, an, fi, key_name, site_node, value)
                if key_name in ("refname", "reftarget") and _reaches(value, fi, an, _attr_source(attr)):
                    ordn["names"] = ordn.get("names", 0) + 1
                    _decoded_destination(rep, an, fi, key_name + ("" if ordn["names"] == 1 else f"#{ordn['names']}"), site_node, value, want="decoded")
                enc = _encoders_on_slice(value, fi)
                if enc and _reaches(value, fi, an, _attr_source(attr)):
                    ke = f"{fi.fq}|{key_name} is stored without output-format escaping"
                    rep.violation("C02.R3", ke, fi.module.site(enc[0]), f"`{key_name}` is passed through `{short(enc[0].func, 30)}(...)` before it is stored in the doctree: `&` in the destination becomes `&amp;` "
                             "in the node (the token keeps `&`, the other link/image handlers and the Sphinx back end store the raw destination), and a writer that escapes attributes itself emits `&amp;amp;`: the destination is not carried over unchanged")
                    return
                if _reaches(value, fi, an, _attr_source(attr)):
                    if _reaches(value, fi, an, _attr_source(attr), lossless=True):
                        rep.ok("C02.R3", k, fi.module.site(site_node), f"derives from token.attrGet({attr!r})")
                        return
                    # only a part of the destination (e.g. the path before '#') arrives here: the rest must travel alongside
                    _parts, rem = _split_bindings(fi, an)
                    slice_names: set[str] = set()
                    wk = [value]
                    while wk:
                        xx = wk.pop()
                        for nn in ast.walk(xx):
                            if isinstance(nn, ast.Name) and nn.id not in slice_names:
                                slice_names.add(nn.id)
                                wk.extend(_all_defs(fi, nn.id))
                    if slice_names & rem and slice_names & _parts:
                        rep.ok("C02.R3", k, fi.module.site(site_node), "part and remainder of the split destination are joined again")
                        return
                    companions = []
                    if isinstance(site_node, ast.Call):
                        companions = [kw.arg for kw in site_node.keywords if kw.arg != key_name and kw.arg is not None and any(isinstance(x, ast.Name) and x.id in rem for x in ast.walk(kw.value))]
                    else:
                        recv = unparse(site_node.targets[0].value)
                        for o in fi.local_nodes():
                            if isinstance(o, ast.Assign) and o is not site_node and isinstance(o.targets[0], ast.Subscript) and unparse(o.targets[0].value) == recv and any(isinstance(x, ast.Name) and x.id in rem for x in ast.walk(o.value)):
                                companions.append(unparse(o.targets[0].slice))
                    ncls = _node_class(site_node, fi.module) if isinstance(site_node, ast.Call) else None
                    if companions:
                        rep.ok("C02.R3", k, fi.module.site(site_node), f"the part before the separator; the remainder is carried in {', '.join(companions)}")
                    elif ncls in PART_ONLY_OK:
                        rep.assumed("C02.R3", k, fi.module.site(site_node), PART_ONLY_OK[ncls])
                    else:
                        rep.violation("C02.R3", k, fi.module.site(site_node), f"`{key_name}` receives `{short(value, 40)}`, only the part of the token's `{attr}` before a split separator (e.g. '#'), and nothing on this node carries the remainder: the destination is truncated (`[t](a.b#frag)` loses `#frag`), and the back ends disagree on it")
                else:
                    rep.violation("C02.R3", k, fi.module.site(site_node), f"`{key_name}` is set to `{short(value, 50)}`, which does not derive from the token's `{attr}` attribute: the link destination / image URI of the source is not carried over")

            nodes_sorted = sorted((n for n in fi.local_nodes() if hasattr(n, "lineno")), key=lambda n: (n.lineno, n.col_offset))
            for n in nodes_sorted:
                if isinstance(n, ast.Assign) and len(n.targets) == 1 and isinstance(n.targets[0], ast.Subscript) and isinstance(n.targets[0].slice, ast.Constant) and n.targets[0].slice.value in DEST_KEYS:
                    judge(n.targets[0].slice.value, n.value, n, DEST_KEYS[n.targets[0].slice.value])
                elif isinstance(n, ast.Call) and _node_class(n, fi.module) is not None:
                    for kw in n.keywords:
                        if kw.arg in DEST_KWARGS:
                            judge(kw.arg, kw.value, n, DEST_KWARGS[kw.arg])
                        elif kw.arg in DEST_KEYS:
                            judge(kw.arg, kw.value, n, DEST_KEYS[kw.arg])
    if n_dest < 8:
        rep.error("C02.R3", f"only {n_dest} destination stores found (expected >= 8)")
    # image alt, ordered-list start, code language
    b = corpus.mod(BASE)
    an = _nesting(corpus, base_ci)
    img = b.func("DocutilsRenderer.render_image")
    tok = _tok_param(img)
    alts = [n for n in img.local_nodes() if isinstance(n, ast.Assign) and isinstance(n.targets[0], ast.Subscript) and isinstance(n.targets[0].slice, ast.Constant) and n.targets[0].slice.value == "alt"]
    k = f"{img.fq}|alt carried over from the image's children"
    if not alts:
        rep.violation("C02.R3", k, img.site(), "render_image no longer stores `alt`: the image description of the source is lost")
    else:
        v = alts[0].value
        ok = isinstance(v, ast.Call) and _is_self_call(v, "renderInlineAsText") and v.args and _reaches(v.args[0], img, an, _field_source("children"))
        if ok:
            rep.ok("C02.R3", k, b.site(alts[0]), "renderInlineAsText(token.children)")
        else:
            rep.violation("C02.R3", k, b.site(alts[0]), f"`alt` is `{short(v, 50)}`, not the text of the image token's children")
    _alt_text_agreement(corpus, rep, tt=_token_types(corpus, rep))
    _html_all_or_nothing(corpus, rep, an)
    _name_normal_forms(corpus, rep, an)
    _sphinx_image_path(corpus, rep)
    _list_start(corpus, rep, an)
    _generic_copy_not_truthy(corpus, rep)
    for q, field in (("DocutilsRenderer.render_fence", "info"), ("DocutilsRenderer.render_code_block", "info")):
        f = b.func(q)
        n_lang = 0
        for holder, _htok in _token_helpers(an, f, _tok_param(f)):
            for c in holder.local_nodes():
                if isinstance(c, ast.Call) and _is_self_call(c, "create_highlighted_code_block"):
                    n_lang += 1
                    lx = arg_or_kw(c, 1, "lexer_name")
                    k = f"{f.fq}|code language carried over from token.info" + ("" if n_lang == 1 else f"#{n_lang}")
                    if lx is not None and _reaches(lx, holder, an, _field_source(field)):
                        rep.ok("C02.R3", k, holder.module.site(c), f"lexer name `{short(lx, 30)}` derives from token.info")
                        _language_word(corpus, rep, an, f, holder, lx, f"{f.fq}|language is the first whitespace-delimited word of token.info" + ("" if n_lang == 1 else f"#{n_lang}"), holder.module.site(c))
                        if f.name == "render_fence":
                            _info_unescaped(corpus, rep, an, f, holder, c, lx, f"{f.fq}|language is computed from the unescaped info string" + ("" if n_lang == 1 else f"#{n_lang}"))
                    else:
                        rep.violation("C02.R3", k, holder.module.site(c), f"the language handed to the highlighter (`{short(lx, 30) if lx is not None else 'none'}`) does not derive from the info string of the code token")
        if not n_lang:
            rep.error("C02.R3", f"{f.fq}: no call of create_highlighted_code_block found in the handler or its helpers")
    rep.expect_min("C02.R3", 30, "leaf sinks + highlighter flows + destination stores")


# ---------------------------------------------------------------------------
# R4 writers of current_node


def _stores_of(fi: FunctionInfo, attr: str):
    for n in fi.local_nodes():
        targets = []
        if isinstance(n, ast.Assign):
            for t in n.targets:
                targets.extend(t.elts if isinstance(t, (ast.Tuple, ast.List)) else [t])
        elif isinstance(n, (ast.AnnAssign, ast.AugAssign)):
            targets = [n.target]
        elif isinstance(n, ast.Delete):
            targets = n.targets
        elif isinstance(n, (ast.For, ast.comprehension)):
            targets = [n.target]
        elif isinstance(n, ast.withitem) and n.optional_vars is not None:
            targets = [n.optional_vars]
        elif isinstance(n, ast.NamedExpr):
            targets = [n.target]
        elif isinstance(n, ast.Call) and dotted(n.func) == "setattr" and len(n.args) >= 2 and isinstance(n.args[1], ast.Constant) and n.args[1].value == attr:
            yield n, n
            continue
        for t in targets:
            if isinstance(t, ast.Attribute) and t.attr == attr:
                yield n, t


def _check_context_manager(f: FunctionInfo) -> str | None:
    """save -> (append to the old node) -> set to the parameter -> yield -> restore the saved value."""
    if "contextmanager" not in " ".join(f.decorators()):
        return "current_node_context is no longer a @contextmanager generator"
    ps = f.params
    if len(ps) < 2:
        return "signature changed"
    p_node = ps[1]
    body = [s for s in f.node.body if not (isinstance(s, ast.Expr) and isinstance(s.value, ast.Constant))]
    stores = [(n, t) for n, t in _stores_of(f, "current_node")]
    yields = [n for n in f.local_nodes() if isinstance(n, (ast.Yield, ast.YieldFrom))]
    if len(yields) != 1 or len(stores) != 2:
        raise Unsupported(f"current_node_context: {len(stores)} stores / {len(yields)} yields (expected 2 / 1)")
    cfg = get_cfg(f)
    y = cfg.stmt_of(yields[0])
    stores.sort(key=lambda p: p[0].lineno)
    (s_set, _), (s_rest, _) = stores
    if not (isinstance(s_set, ast.Assign) and isinstance(s_rest, ast.Assign)):
        return "current_node is not rebound by plain assignment"
    if not (cfg.dominates(s_set, y) and cfg.dominates(y, s_rest)):
        return "the set/yield/restore order of current_node_context changed"
    if not (isinstance(s_set.value, ast.Name) and s_set.value.id == p_node):
        return f"inside the context current_node is set to `{short(s_set.value, 40)}`, not to the node handed in"
    if not isinstance(s_rest.value, ast.Name):
        return f"after the context current_node is restored to `{short(s_rest.value, 40)}`, not to a saved value"
    saved = s_rest.value.id
    defs = [n for n in f.local_nodes() if isinstance(n, ast.Assign) and any(isinstance(t, ast.Name) and t.id == saved for t in n.targets)]
    if len(defs) != 1 or unparse(defs[0].value) != "self.current_node":
        return f"`{saved}` (restored after the context) is not a single copy of self.current_node"
    if not (cfg.dominates(defs[0], s_set)):
        return "the previous current_node is saved after it has been overwritten"
    # the optional append must target the previous node
    for c in f.local_nodes():
        if isinstance(c, ast.Call) and isinstance(c.func, ast.Attribute) and c.func.attr in ("append", "extend", "insert") and any(isinstance(a, ast.Name) and a.id == p_node for a in c.args):
            st = cfg.stmt_of(c)
            recv = unparse(c.func.value)
            if recv == "self.current_node":
                if s_set in cfg.dom().get(st, set()):
                    return "append=True appends the node after current_node was rebound to it: the node becomes its own child instead of a child of the previous node"
            elif recv == saved:
                if not cfg.dominates(defs[0], st):
                    return "append uses the saved node before it is saved"
            else:
                raise Unsupported(f"current_node_context appends to `{recv}`")
    return None


def _is_heading_tail(corpus: Corpus, fi: FunctionInfo, depth: int = 0) -> bool:
    """render_heading itself, or a helper method that is only ever called as the last action of render_heading
    (or of such a helper): its final statement is then the final statement of the heading handler."""
    if fi.qualname == "DocutilsRenderer.render_heading":
        return True
    if depth > 3 or fi.cls is None or fi.name.startswith("render_"):
        return False
    sites = []
    for ci in _renderer_classes(corpus):
        for g in ci.methods.values():
            for c in g.local_nodes():
                if isinstance(c, ast.Call) and _is_self_call(c, fi.name):
                    sites.append((g, c))
    if not sites:
        return False
    for g, c in sites:
        cfg = get_cfg(g)
        st = cfg.stmt_of(c)
        if not isinstance(st, (ast.Expr, ast.Return)) or (isinstance(st, ast.Expr) and st.value is not c) or (isinstance(st, ast.Return) and st.value is not c):
            return False
        if isinstance(st, ast.Expr) and cfg.succ.get(st, []) != [EXIT]:
            return False
        if not _is_heading_tail(corpus, g, depth + 1):
            return False
    return True


@rule("C02.R4")
def r4_current_node_writers(corpus: Corpus, rep: Report, tier: str):
    rep.rule("C02.R4", "current_node is rebound only in setup_render, the two halves of current_node_context and as the last statement of render_heading's section branch (or of a helper called last by it); += on it appends")
    _load_node_classes(corpus, rep)
    n_aug = 0
    for fi in corpus.all_functions():
        if fi.is_lambda:
            continue
        for st, tgt in _stores_of(fi, "current_node"):
            site = fi.module.site(st)
            k = f"{fi.fq}|{short(st, 80)}"
            rep.saw_function(fi.fq)
            if isinstance(st, ast.AugAssign):
                n_aug += 1
                if isinstance(st.op, ast.Add):
                    rep.ok("C02.R4", k, site, "+= on an Element appends (Element.__iadd__ returns self)")
                else:
                    rep.violation("C02.R4", k, site, f"`{short(st, 60)}` rebinds current_node with an operator other than += (no in-place append)")
                continue
            q = fi.qualname
            if fi.cls is None or fi.cls.fq != RENDERER.replace(BASE, "myst_parser." + BASE):
                rep.violation("C02.R4", k, site, f"{fi.fq} rebinds the renderer's current_node from outside the three sanctioned writers: output is no longer appended where the token nesting says")
            elif q == "DocutilsRenderer.setup_render":
                rep.ok("C02.R4", k, site, "per-render initialisation")
            elif q == "DocutilsRenderer.current_node_context":
                bad = _check_context_manager(fi)
                if bad:
                    rep.violation("C02.R4", k, site, bad)
                else:
                    rep.ok("C02.R4", k, site, "save / set to the node handed in / restore the saved value")
            elif _is_heading_tail(corpus, fi):
                cfg = get_cfg(fi)
                val = st.value if isinstance(st, ast.Assign) else None
                sec = isinstance(val, ast.Name) and any(isinstance(d, ast.Call) and _node_class(d, fi.module) == "docutils.nodes.section" for d in _single_defs(fi, val.id))
                last = cfg.succ.get(st, []) == [EXIT]
                an4 = _nesting(corpus, corpus.cls(RENDERER))
                attached = isinstance(val, ast.Name) and any(
                    isinstance(d, ast.stmt) and d is not st and an4.attach_weight(d, val.id, fi) >= 1 for d in cfg.dom().get(st, set())
                )
                if not sec:
                    rep.violation("C02.R4", k, site, f"{fi.name} leaves current_node at `{short(val, 40) if val is not None else '?'}`, which is not the freshly created section")
                elif not last:
                    rep.violation("C02.R4", k, site, f"{fi.name} rebinds current_node before its last statement: the rest of the handler (title, target) is rendered into the new section instead of the title")
                elif not attached:
                    rep.violation("C02.R4", k, site, "the section that becomes current_node is not attached (update_section_level_state) on every path to the store")
                else:
                    rep.ok("C02.R4", k, site, "final statement of the section branch; the section was attached before")
            else:
                rep.violation("C02.R4", k, site, f"{fi.qualname} rebinds current_node directly: nesting of everything rendered afterwards no longer follows the token tree (only current_node_context may rebind it temporarily)")
    # Element.__iadd__ really appends in place
    dn = corpus.sibling("docutils/nodes.py")
    rep.saw_sibling(dn.rel)
    ia = dn.functions.get("Element.__iadd__")
    if ia is None:
        rep.error("C02.R4", "docutils.nodes.Element.__iadd__ not found")
    else:
        rets = [n for n in ia.local_nodes() if isinstance(n, ast.Return)]
        ok = bool(rets) and all(unparse(r.value) == "self" for r in rets if r.value is not None) and any(isinstance(c, ast.Call) and unparse(c.func) in ("self.append", "self.extend") for c in ia.local_nodes())
        k = "docutils.nodes:Element.__iadd__|returns self"
        if ok:
            rep.ok("C02.R4", k, f"{dn.rel}:{ia.node.lineno}", "in-place append/extend, returns self")
        else:
            rep.violation("C02.R4", k, f"{dn.rel}:{ia.node.lineno}", "Element.__iadd__ of the installed docutils does not append in place and return self: `self.current_node += x` rebinds current_node")
    rep.expect_min("C02.R4", 6, "4 rebinding stores + the += sites + Element.__iadd__")


# ---------------------------------------------------------------------------
# R5 back-end agreement

SPHINX_OVERRIDES_OK = {
    "sphinx_env": "environment accessor",
    "render_link_project": "link handling (pending_xref to a document)",
    "render_link_path": "link handling (download_reference)",
    "render_link_unknown": "link handling (pending_xref)",
    "get_inventory_matches": "link handling (intersphinx inventories)",
    "render_math_block_label": "math handling (equation target)",
    "render_amsmath": "math handling (equation target)",
}


@rule("C02.R5")
def r5_backend_agreement(corpus: Corpus, rep: Report, tier: str):
    rep.rule("C02.R5", "renderer subclasses override only link/math methods and add no handler; create_md_parser's renderer argument reaches only MarkdownIt(renderer_cls=...)")
    base_ci = corpus.cls(RENDERER)
    subs = corpus.subclasses(base_ci)
    if not subs:
        raise AnchorMissing("no subclass of DocutilsRenderer (SphinxRenderer) found")
    tt = _token_types(corpus, rep)
    emitted = set(tt.folded())
    for sc in subs:
        for name, m in sorted(sc.methods.items()):
            k = f"{sc.fq}.{name}"
            inherited = None
            for c in corpus.mro(sc)[1:]:
                if name in c.methods:
                    inherited = c.methods[name]
                    break
            rep.saw_function(m.fq)
            if inherited is not None:
                if name in SPHINX_OVERRIDES_OK:
                    rep.ok("C02.R5", k, m.site(), f"override: {SPHINX_OVERRIDES_OK[name]}")
                else:
                    rep.violation("C02.R5", k, m.site(), f"{sc.name} overrides {name}, which is neither link nor math handling: the two back ends render the same tokens differently")
            elif name.startswith("render_") and name[len("render_"):] in emitted:
                rep.violation("C02.R5", k, m.site(), f"{sc.name} adds the handler {name} that DocutilsRenderer lacks: `{name[7:]}` tokens are rendered by one back end only")
            else:
                rep.listed("C02.R5", k, m.site(), "helper without counterpart in the base class")
    # the renderer argument of create_md_parser
    f = corpus.func("parsers.mdit:create_md_parser")
    rep.saw_function(f.fq)
    ps = f.params
    if len(ps) < 2:
        raise Unsupported("create_md_parser signature changed")
    rp = ps[1]
    uses = [n for n in f.local_nodes() if isinstance(n, ast.Name) and n.id == rp and isinstance(n.ctx, ast.Load)]
    n_ctor = 0
    for c in sorted((c for c in f.local_nodes() if isinstance(c, ast.Call)), key=lambda c: (c.lineno, c.col_offset)):
        if f.module.resolve(dotted(c.func) or "") in ("markdown_it.MarkdownIt", "markdown_it.main.MarkdownIt"):
            n_ctor += 1
            k = f"{f.fq}|MarkdownIt construction #{n_ctor} (in source order: commonmark, gfm, myst)"
            v = kwarg(c, "renderer_cls")
            if v is None and len(c.args) >= 3:
                v = c.args[2]
            if isinstance(v, ast.Name) and v.id == rp:
                rep.ok("C02.R5", k, f.module.site(c), "renderer class handed to MarkdownIt unchanged")
            else:
                rep.violation("C02.R5", k, f.module.site(c), f"this MarkdownIt(...) is not given the caller's renderer class (renderer_cls={short(v, 30) if v is not None else 'default RendererHTML'}): this parser mode renders with another back end")
    for u in uses:
        p = parent(u)
        k = f"{f.fq}|use of {rp} in {short(enclosing_expr(u), 60)}"
        if isinstance(p, ast.keyword) and p.arg == "renderer_cls":
            continue
        if isinstance(p, ast.Call) and u in p.args and f.module.resolve(dotted(p.func) or "").endswith("MarkdownIt"):
            continue
        in_test = False
        node: ast.AST = u
        for a in ancestors(u):
            if isinstance(a, (ast.If, ast.While, ast.IfExp)) and a.test is node:
                in_test = True
            if isinstance(a, (ast.FunctionDef, ast.Lambda)):
                break
            node = a
        if in_test:
            rep.violation("C02.R5", k, f.module.site(u), f"the token stream configuration branches on the renderer class (`{short(enclosing_expr(u), 60)}`): the two back ends no longer parse the same tokens")
        else:
            rep.error("C02.R5", f"use of `{rp}` at {f.module.site(u)} not understood: {short(enclosing_expr(u), 60)}")
    if n_ctor < 3:
        rep.error("C02.R5", f"expected three MarkdownIt(...) constructions (commonmark, gfm, myst), found {n_ctor}")
    _front_end_parsers(corpus, rep, f)
    rep.expect_min("C02.R5", 9, "7 overrides + 3 MarkdownIt constructions on the pinned tree")


# ---------------------------------------------------------------------------
# R6 section-level state (which section later content is attached to)


def _linear(e: ast.AST, level: str, mapexpr: str) -> tuple[int, int, int] | None:
    """``a*level + b*max(map) + c`` for range bounds; None outside that form."""
    if isinstance(e, ast.Constant) and isinstance(e.value, int):
        return (0, 0, e.value)
    if isinstance(e, ast.Name) and e.id == level:
        return (1, 0, 0)
    if isinstance(e, ast.Call) and dotted(e.func) == "max" and len(e.args) == 1 and not e.keywords:
        a = unparse(e.args[0])
        if a in (mapexpr, f"{mapexpr}.keys()", f"list({mapexpr})"):
            return (0, 1, 0)
    if isinstance(e, ast.BinOp) and isinstance(e.op, (ast.Add, ast.Sub)):
        l, r = _linear(e.left, level, mapexpr), _linear(e.right, level, mapexpr)
        if l is None or r is None:
            return None
        sg = 1 if isinstance(e.op, ast.Add) else -1
        return (l[0] + sg * r[0], l[1] + sg * r[1], l[2] + sg * r[2])
    return None


def _keep_table(cond: ast.expr, kvar: str, level: str, keep_when: bool, level_set_after: bool = False) -> str | None:
    """Decision table of a filter over (key - level) in -3..3: entries must be kept iff key <= level.
    ``keep_when``: the truth value of ``cond`` that keeps an entry. ``level_set_after``: map[level] is stored after the
    pruning, so whether the filter keeps the key `level` itself does not matter. Returns a complaint or None."""
    for lv in (1, 3):
        for k in range(0, 8):
            try:
                val = bool(_ev(cond, {**{v: k for v in kvar.split("|")}, level: lv}))
            except _NoValue as ex:
                raise Unsupported(f"level-state filter `{short(cond, 50)}` not evaluable ({ex})") from None
            kept = val == keep_when
            if level_set_after and k == lv:
                continue
            if kept != (k <= lv):
                if kept:
                    return f"the entry of level {k} survives a heading of level {lv}: a later heading can be attached beneath that already closed, deeper section, so its text precedes text that comes before it in the source"
                return f"the entry of level {k} is removed by a heading of level {lv}: the open section of that level is forgotten and later sub-headings are attached to an outer section"
    return None


def _unbounded_level_term(corpus: Corpus, f: FunctionInfo) -> str:
    """Why the level handed to ``f`` (update_section_level_state) is not confined to 1..6: its call sites compute it with
    an additive term that is not a digit of the heading tag (e.g. ``self._heading_offset`` of an include). '' if every
    call site passes ``int(<tok>.tag[1])`` alone; Unsupported if a call site cannot be read."""
    sites = []
    for ci in _renderer_classes(corpus):
        for g in ci.methods.values():
            for c in g.local_nodes():
                if isinstance(c, ast.Call) and _is_self_call(c, f.name):
                    sites.append((g, c))
    if not sites:
        raise Unsupported(f"{f.qualname} has no call site")
    p_lvl = f.params[2]
    for g, c in sites:
        a = c.args[1] if len(c.args) > 1 else kwarg(c, p_lvl)
        if a is None:
            raise Unsupported(f"{g.qualname}: level argument of {f.name} not found")
        seen: set[str] = set()
        work = [a]
        while work:
            x = work.pop()
            for n in ast.walk(x):
                if isinstance(n, ast.Attribute) and isinstance(n.value, ast.Name) and n.value.id == "self":
                    return f"{g.qualname} adds `self.{n.attr}` (set per nested render, e.g. the :heading-offset: of an include) to the tag's digit"
                if isinstance(n, ast.Name) and n.id not in seen:
                    seen.add(n.id)
                    if n.id in g.params and n.id not in ("self",) and n.id not in _tok_params(g):
                        # a level parameter of a helper: look at that helper's call sites
                        for ci in _renderer_classes(corpus):
                            for h in ci.methods.values():
                                for c2 in h.local_nodes():
                                    if isinstance(c2, ast.Call) and _is_self_call(c2, g.name):
                                        ps = g.params
                                        i = ps.index(n.id) - 1
                                        a2 = c2.args[i] if 0 <= i < len(c2.args) else kwarg(c2, n.id)
                                        if a2 is not None and any(isinstance(y, ast.Attribute) and isinstance(y.value, ast.Name) and y.value.id == "self" for y in ast.walk(a2)):
                                            return f"{h.qualname} adds `{short(a2, 40)}` to the tag's digit"
                                        if a2 is not None:
                                            for y in ast.walk(a2):
                                                if isinstance(y, ast.Name) and y.id not in ("int", "self"):
                                                    work.extend(_all_defs(h, y.id))
                    work.extend(_all_defs(g, n.id))
    return ""


@rule("C02.R6")
def r6_section_level_state(corpus: Corpus, rep: Report, tier: str):
    rep.rule("C02.R6", "after a heading of level L the level->section map holds L and nothing deeper; the parent is the closest strictly shallower level (filter/range decision tables)")
    f = corpus.func(f"{RENDERER}.update_section_level_state")
    rep.saw_function(f.fq)
    ps = f.params
    if len(ps) < 3:
        raise Unsupported("update_section_level_state signature changed")
    p_sec, p_lvl = ps[1], ps[2]
    cfg = get_cfg(f)
    # the map: the attribute subscripted with the level parameter in a store of the section parameter
    store = None
    for n in f.local_nodes():
        if isinstance(n, ast.Assign) and len(n.targets) == 1 and isinstance(n.targets[0], ast.Subscript) and unparse(n.targets[0].slice) == p_lvl and isinstance(n.value, ast.Name) and n.value.id == p_sec:
            store = n
    k = f"{f.fq}|map[level] = section"
    if store is None:
        rep.violation("C02.R6", k, f.site(), "the new section is no longer recorded under its level: the next deeper heading is attached to an outer section")
        return
    mapexpr = unparse(store.targets[0].value)
    if not cfg.postdominates(store, cfg.succ["ENTRY"][0]) and store is not cfg.succ["ENTRY"][0]:
        rep.violation("C02.R6", k, f.module.site(store), "the new section is recorded under its level only on some paths")
    else:
        rep.ok("C02.R6", k, f.module.site(store), mapexpr)
    # (1) parent selection: max over the keys strictly shallower than the level
    k = f"{f.fq}|parent = deepest level strictly above"
    sel = [n for n in f.local_nodes() if isinstance(n, ast.Call) and dotted(n.func) == "max" and n.args and isinstance(n.args[0], (ast.GeneratorExp, ast.ListComp, ast.SetComp))]
    sel = [n for n in sel if unparse(n.args[0].generators[0].iter) in (mapexpr, f"{mapexpr}.keys()")]
    if len(sel) != 1:
        raise Unsupported(f"update_section_level_state: expected one max(<key> for <key> in {mapexpr} if ...), found {len(sel)}")
    comp = sel[0].args[0]
    gen = comp.generators[0]
    if not (isinstance(gen.target, ast.Name) and unparse(comp.elt) == gen.target.id and len(gen.ifs) == 1):
        raise Unsupported("parent selection comprehension not understood")
    bad = None
    for lv in (1, 3):
        for kk in range(0, 7):
            try:
                val = bool(_ev(gen.ifs[0], {gen.target.id: kk, p_lvl: lv}))
            except _NoValue as ex:
                raise Unsupported(f"parent filter not evaluable ({ex})") from None
            if val != (kk < lv):
                bad = f"level {kk} is {'a' if val else 'not a'} parent candidate for a heading of level {lv}"
    if bad:
        rep.violation("C02.R6", k, f.module.site(sel[0]), f"{bad}: the section is nested under a sibling/deeper section or under a too shallow one")
    else:
        rep.ok("C02.R6", k, f.module.site(sel[0]), "candidates are exactly the levels < level; max picks the closest")
    # (2) pruning of deeper levels
    k = f"{f.fq}|levels deeper than the heading are removed"
    prunes = []
    for n in sorted((n for n in f.local_nodes() if isinstance(n, ast.stmt)), key=lambda n: n.lineno):
        if isinstance(n, ast.Assign) and len(n.targets) == 1 and unparse(n.targets[0]) == mapexpr and isinstance(n.value, ast.DictComp):
            prunes.append(("rebuild", n))
        elif isinstance(n, ast.For) and any(
            (isinstance(c, ast.Call) and isinstance(c.func, ast.Attribute) and c.func.attr == "pop" and unparse(c.func.value) == mapexpr)
            or (isinstance(c, ast.Delete) and any(isinstance(t, ast.Subscript) and unparse(t.value) == mapexpr for t in c.targets))
            for c in ast.walk(n)
        ):
            prunes.append(("loop", n))
    if not prunes:
        rep.violation("C02.R6", k, f.site(), "levels deeper than the new heading are never removed from the level map: after `# A / ## B / # C / ### D` the stale section B becomes the parent of D, whose text then precedes C in the doctree")
        return
    if len(prunes) > 1:
        raise Unsupported("update_section_level_state prunes the level map more than once")
    kind, st = prunes[0]
    first = cfg.succ["ENTRY"][0]
    if st is not first and not cfg.postdominates(st, first):
        rep.violation("C02.R6", k, f.module.site(st), "deeper levels are removed only on some paths through update_section_level_state")
        return
    complaint = None
    # is map[level] = section executed after the pruning on every path? then the pruned map gets the level back
    set_after = cfg.dominates(st, store) and st is not store
    if kind == "rebuild":
        comp = st.value
        gen = comp.generators[0]
        it = unparse(gen.iter)
        if len(comp.generators) != 1 or len(gen.ifs) != 1:
            raise Unsupported("level map rebuild: expected one generator with one filter")
        if it == f"{mapexpr}.items()" and isinstance(gen.target, ast.Tuple) and len(gen.target.elts) == 2 and all(isinstance(x, ast.Name) for x in gen.target.elts):
            kvar, vvar = gen.target.elts[0].id, gen.target.elts[1].id
            ident = unparse(comp.key) == kvar and unparse(comp.value) == vvar
        elif it in (mapexpr, f"{mapexpr}.keys()") and isinstance(gen.target, ast.Name):
            kvar = gen.target.id
            ident = unparse(comp.key) == kvar and unparse(comp.value) == f"{mapexpr}[{kvar}]"
        else:
            raise Unsupported(f"level map rebuild iterates `{it}`")
        if not ident:
            complaint = "the rebuilt map does not keep each kept level with its own section"
        else:
            complaint = _keep_table(gen.ifs[0], kvar, p_lvl, keep_when=True, level_set_after=set_after)
    else:
        loop = st
        if not isinstance(loop.target, ast.Name):
            raise Unsupported("prune loop target")
        kvar = loop.target.id
        inner_ifs = [n for n in loop.body if isinstance(n, ast.If)]
        it = loop.iter
        if isinstance(it, ast.Call) and dotted(it.func) == "range" and len(it.args) == 2 and not inner_ifs:
            lo, hi = _linear(it.args[0], p_lvl, mapexpr), _linear(it.args[1], p_lvl, mapexpr)
            if lo is None or hi is None:
                raise Unsupported(f"prune range bounds `{short(it, 50)}` not linear in level / max({mapexpr})")
            if lo != (1, 0, 1):
                complaint = f"the removal starts at `{short(it.args[0], 30)}`, not at level + 1"
            elif hi[0] == 0 and hi[1] == 1:
                if hi[2] < 1:
                    complaint = f"range(..., {short(it.args[1], 40)}) excludes the deepest recorded level (range's upper bound is exclusive): that stale section survives and a later heading can be attached beneath it, so its text precedes text that comes before it in the source"
            elif hi[0] == 0 and hi[1] == 0:
                # a constant bound is right only if no level can reach it: where do the levels come from?
                unbounded = _unbounded_level_term(corpus, f)
                if unbounded:
                    complaint = (
                        f"the removal stops at the constant {hi[2]} (exclusive), but heading levels are not bounded: {unbounded}; a section of level >= {hi[2]} "
                        "is never removed from the level map and a later, deeper heading is attached beneath that already closed section, so its text precedes text that comes before it in the source"
                    )
                elif hi[2] < 7:
                    complaint = f"the removal stops at the constant {hi[2]} (exclusive): levels {hi[2]}..6 (h{hi[2]}..h6) are never removed"
            else:
                complaint = f"the removal stops at `{short(it.args[1], 30)}`, which does not cover all deeper levels"
        else:
            # for k in list(map) / [k for k in map if cond]: (if cond:) del map[k]
            conds: list[tuple[ast.expr, bool]] = []
            src_it = it
            if isinstance(src_it, ast.Call) and dotted(src_it.func) in ("list", "tuple", "sorted") and len(src_it.args) == 1:
                src_it = src_it.args[0]
            if isinstance(src_it, ast.ListComp) and len(src_it.generators) == 1 and isinstance(src_it.generators[0].target, ast.Name) and unparse(src_it.elt) == src_it.generators[0].target.id and unparse(src_it.generators[0].iter) in (mapexpr, f"{mapexpr}.keys()"):
                g = src_it.generators[0]
                kvar = f"{kvar}|{g.target.id}"  # the comprehension variable holds the same key
                conds += [(c, True) for c in g.ifs]
            elif unparse(src_it) not in (mapexpr, f"{mapexpr}.keys()"):
                raise Unsupported(f"prune loop iterates `{short(it, 50)}`")
            body = loop.body
            if len(body) == 1 and isinstance(body[0], ast.If) and not body[0].orelse:
                conds.append((body[0].test, True))
                body = body[0].body
            if len(body) != 1:
                raise Unsupported("prune loop body not understood")
            if not conds:
                complaint = "every level is removed"
            else:
                test = conds[0][0] if len(conds) == 1 else ast.BoolOp(op=ast.And(), values=[c for c, _ in conds])
                complaint = _keep_table(test, kvar, p_lvl, keep_when=False, level_set_after=set_after)
    if complaint:
        rep.violation("C02.R6", k, f.module.site(st), complaint)
    else:
        rep.ok("C02.R6", k, f.module.site(st), "kept iff level' <= level" if kind == "rebuild" else "removes exactly the deeper levels")
    rep.expect_min("C02.R6", 3, "store, parent selection, pruning")


def _config_reads(fi: FunctionInfo, cfg_param: str) -> set[str]:
    return {n.attr for n in fi.local_nodes() if isinstance(n, ast.Attribute) and isinstance(n.value, ast.Name) and n.value.id == cfg_param}


def _repr_covered_fields(corpus: Corpus) -> set[str] | None:
    """Fields of MdParserConfig whose full value appears in repr(config): declared without ``repr=False`` and without a
    ``repr_func`` that abbreviates the value. None if the class does not define the understood __repr__/fields."""
    try:
        ci = corpus.cls("config.main:MdParserConfig")
    except AnchorMissing:
        return None
    out = set()
    for st in ci.node.body:
        if isinstance(st, ast.AnnAssign) and isinstance(st.target, ast.Name):
            v = st.value
            full = True
            if isinstance(v, ast.Call):
                r = kwarg(v, "repr")
                if isinstance(r, ast.Constant) and r.value is False:
                    full = False
                md = kwarg(v, "metadata")
                if isinstance(md, ast.Dict) and any(isinstance(k, ast.Constant) and k.value == "repr_func" for k in md.keys):
                    full = False
            if full:
                out.add(st.target.id)
    return out


class _Provenance:
    """Where the MarkdownIt object that a front end renders with comes from."""

    def __init__(self, corpus: Corpus, cmp_fn: FunctionInfo, ok_classes: set[str]):
        self.c = corpus
        self.cmp = cmp_fn
        self.reads = _config_reads(cmp_fn, cmp_fn.params[0])
        self.ok_classes = ok_classes
        self.how: list[str] = []

    def _is_cmp(self, call: ast.Call, fn: FunctionInfo) -> bool:
        d = dotted(call.func) or ""
        t = self.c.find_function(fn.module.resolve(d)) if d else None
        return t is not None and t.fq == self.cmp.fq

    def check_ctor(self, call: ast.Call, fn: FunctionInfo, cfg: str, renderer_param: str | None) -> str | None:
        a0 = call.args[0] if call.args else kwarg(call, self.cmp.params[0])
        if not (isinstance(a0, ast.Name) and a0.id == cfg):
            return f"{fn.qualname} builds the parser from `{short(a0, 30) if a0 is not None else '?'}`, not from the configuration it is given"
        r = call.args[1] if len(call.args) > 1 else kwarg(call, self.cmp.params[1])
        rn = (dotted(r) or "").split(".")[-1] if r is not None else ""
        if not (rn in self.ok_classes or (renderer_param is not None and rn == renderer_param)):
            return f"the parser is built with the renderer `{short(r, 30) if r is not None else 'default'}`, not with a DocutilsRenderer class"
        return None

    def cache_verdict(self, sub: ast.Subscript, fn: FunctionInfo, cfg: str, renderer_param: str | None) -> str | None:
        cache = unparse(sub.value)
        # the store that fills the cache
        fills = [n for n in fn.local_nodes() if isinstance(n, ast.Assign) and len(n.targets) == 1 and isinstance(n.targets[0], ast.Subscript) and unparse(n.targets[0].value) == cache and isinstance(n.value, ast.Call) and self._is_cmp(n.value, fn)]
        if not fills:
            raise Unsupported(f"{fn.qualname}: no `{cache}[...] = create_md_parser(...)` store found for the cached parser")
        for fl in fills:
            v = self.check_ctor(fl.value, fn, cfg, renderer_param)
            if v:
                return v
        fields: set[str] = set()
        whole = False
        seen: set[str] = set()
        work: list[ast.AST] = [sub.slice]
        reprd = False
        while work:
            x = work.pop()
            for n in ast.walk(x):
                if isinstance(n, ast.Attribute) and isinstance(n.value, ast.Name) and n.value.id == cfg:
                    fields.add(n.attr)
                elif isinstance(n, ast.Name):
                    if n.id == cfg:
                        par = parent(n)
                        if isinstance(par, ast.Attribute) and par.value is n:
                            continue
                        if (isinstance(par, ast.Call) and dotted(par.func) in ("repr", "str", "format")) or isinstance(par, ast.FormattedValue):
                            reprd = True
                        else:
                            whole = True
                    elif n.id not in seen:
                        seen.add(n.id)
                        work.extend(_all_defs(fn, n.id))
        if reprd and not whole:
            cov = _repr_covered_fields(self.c)
            if cov is None:
                raise Unsupported("MdParserConfig fields not readable")
            fields |= cov
        refreshed = any(
            (isinstance(n, ast.Assign) and isinstance(n.targets[0], ast.Subscript) and isinstance(n.targets[0].slice, ast.Constant) and n.targets[0].slice.value == "myst_config" and isinstance(n.value, ast.Name) and n.value.id == cfg)
            or (isinstance(n, ast.Call) and isinstance(n.func, ast.Attribute) and n.func.attr == "update" and "myst_config" in unparse(n) and any(isinstance(x, ast.Name) and x.id == cfg for x in ast.walk(n)))
            for n in fn.local_nodes()
        )
        missing = sorted(self.reads - fields)
        if not whole and missing:
            return (
                f"{fn.qualname} takes the parser from the cache `{cache}` whose key ({short(sub.slice, 30)}{' = repr of the configuration, which omits or abbreviates fields' if reprd else ''}) does not cover the configuration fields "
                f"{', '.join(missing)} that create_md_parser reads when it builds the parser: a document is tokenised with the plugin settings of an earlier document "
                "that had the same key, so its doctree is not the image of create_md_parser(config).parse(text)"
            )
        if not whole and not refreshed:
            return (
                f"{fn.qualname} takes the parser from the cache `{cache}` and does not refresh options['myst_config']: the renderer reads the configuration object of the document "
                "that created the parser, not that of the document being rendered"
            )
        self.how.append(f"cache {cache} keyed on every configuration field create_md_parser reads")
        return None

    def verdict(self, e: ast.expr, fn: FunctionInfo, cfg: str, renderer_param: str | None, depth: int = 0) -> str | None:
        """None if ``e`` evaluates to the parser create_md_parser builds for ``cfg``; otherwise the complaint."""
        if depth > 4:
            raise Unsupported("parser provenance too deep")
        if isinstance(e, ast.Name):
            defs = _all_defs(fn, e.id)
            if not defs:
                raise Unsupported(f"{fn.qualname}: `{e.id}` has no definition")
            for d in defs:
                v = self.verdict(d, fn, cfg, renderer_param, depth + 1)
                if v:
                    return v
            return None
        if isinstance(e, ast.Subscript):
            root = e.value
            is_shared = (isinstance(root, ast.Name) and root.id in fn.module.const_nodes) or (
                isinstance(root, ast.Attribute) and isinstance(root.value, ast.Name) and (root.value.id in ("self", "cls") or root.value.id in fn.module.classes)
            )
            if is_shared:
                return self.cache_verdict(e, fn, cfg, renderer_param)
            raise Unsupported(f"{fn.qualname}: parser taken from `{short(e, 40)}`")
        if isinstance(e, ast.Call):
            if self._is_cmp(e, fn):
                v = self.check_ctor(e, fn, cfg, renderer_param)
                if not v:
                    self.how.append("fresh create_md_parser(config, renderer)")
                return v
            d = dotted(e.func) or ""
            h = self.c.find_function(fn.module.resolve(d)) if d and "." not in d else None
            if h is None and isinstance(e.func, ast.Attribute) and isinstance(e.func.value, ast.Name) and e.func.value.id in ("self", "cls") and fn.cls is not None:
                h = self.c.lookup_method(fn.cls, e.func.attr)
            if h is None or h.is_lambda:
                raise Unsupported(f"{fn.qualname}: parser factory `{short(e.func, 40)}` is not a package function")
            hp = [p for p in h.params if p not in ("self", "cls")]
            if len(hp) < 2:
                raise Unsupported(f"{h.fq}: parser helper signature")
            a0 = e.args[0] if e.args else kwarg(e, hp[0])
            if not (isinstance(a0, ast.Name) and a0.id == cfg):
                return f"{fn.qualname} asks {h.name} for a parser for `{short(a0, 30) if a0 is not None else '?'}`, not for the configuration of this document"
            r = e.args[1] if len(e.args) > 1 else kwarg(e, hp[1])
            rn = (dotted(r) or "").split(".")[-1] if r is not None else ""
            if rn not in self.ok_classes and rn != (renderer_param or ""):
                return f"the front end builds its parser with the renderer `{short(r, 30) if r is not None else 'default'}`, not with a DocutilsRenderer class"
            rets = [x for x in h.local_nodes() if isinstance(x, ast.Return) and x.value is not None]
            if not rets:
                raise Unsupported(f"{h.fq}: no return")
            for x in rets:
                v = self.verdict(x.value, h, hp[0], hp[1], depth + 1)
                if v:
                    return v
            self.how.append(f"through {h.name}")
            return None
        raise Unsupported(f"{fn.qualname}: parser expression `{short(e, 40)}` not understood")


def _front_end_parsers(corpus: Corpus, rep: Report, cmp_fn: FunctionInfo) -> None:
    """Both front ends render with the parser create_md_parser builds for the document's configuration: directly, through a
    helper that returns a fresh one, or from a cache (module-, class- or instance-level container, in the front end or in a
    helper) whose key covers every configuration field create_md_parser reads - repr(config) covers only the fields that
    MdParserConfig.__repr__ prints in full - and whose options['myst_config'] is refreshed. A parser built for another
    configuration tokenises differently than this document's configuration says, so the doctree is no image of
    create_md_parser(config).parse(text)."""
    base_ci = corpus.cls(RENDERER)
    ok_classes = {base_ci.name} | {c.name for c in corpus.subclasses(base_ci)}
    for fq in ("parsers.docutils_:Parser.parse", "parsers.sphinx_:MystParser.parse"):
        fe = corpus.func(fq)
        rep.saw_function(fe.fq)
        k = f"{fe.fq}|renders with create_md_parser(config) for this document"
        rcalls = [c for c in fe.local_nodes() if isinstance(c, ast.Call) and isinstance(c.func, ast.Attribute) and c.func.attr == "render" and isinstance(c.func.value, ast.Name) and c.args and _all_defs(fe, c.func.value.id)]
        if len(rcalls) != 1:
            raise Unsupported(f"{fe.qualname}: expected one `<parser>.render(text)`, found {len(rcalls)}")
        pname = rcalls[0].func.value
        # the configuration of the document: the name handed to create_md_parser / the helper / used in the cache key
        cfg_names = {n.id for d in _all_defs(fe, pname.id) for n in ast.walk(d) if isinstance(n, ast.Name)} | {
            n.id for st in fe.local_nodes() if isinstance(st, ast.Assign) and isinstance(st.value, ast.Call) for n in ast.walk(st.value) if isinstance(n, ast.Name) and any(isinstance(c, ast.Call) and (dotted(c.func) or "").endswith("create_md_parser") for c in [st.value])
        }
        cfg = "config" if "config" in cfg_names or _all_defs(fe, "config") else None
        if cfg is None:
            raise Unsupported(f"{fe.qualname}: configuration variable not found")
        pv = _Provenance(corpus, cmp_fn, ok_classes)
        verdict = pv.verdict(pname, fe, cfg, None)
        site = fe.module.site(rcalls[0])
        if verdict:
            rep.violation("C02.R5", k, site, verdict)
        else:
            rep.ok("C02.R5", k, site, "; ".join(dict.fromkeys(pv.how)) or "create_md_parser(config, renderer)")


def enclosing_expr(n: ast.AST) -> ast.AST:
    cur = n
    for a in ancestors(n):
        if isinstance(a, ast.stmt):
            if isinstance(a, (ast.If, ast.While)):
                return a.test
            return a
        cur = a
    return cur


# ---------------------------------------------------------------------------
# R7 nodes built in place as an argument of a helper call (no name to track in R2(a))


def _value_attached_by_caller(an: "Nesting", fi: FunctionInfo, call: ast.Call) -> tuple[str, str]:
    """What the caller does with the (still unattached) node a helper call evaluates to:
    ('ok' | 'bad' | 'unknown', explanation)."""
    p = parent(call)
    if isinstance(p, ast.Expr):
        return "bad", "the call is an expression statement: the node it returns is discarded"
    if isinstance(p, ast.Return):
        r = fi.node.returns if not fi.is_lambda else None
        if fi.name.startswith("render_") or (isinstance(r, ast.Constant) and r.value is None):
            return "bad", f"`return <call>` in {fi.qualname}, whose result nobody uses (handlers are called for their effect on current_node; declared -> None)"
        return "unknown", f"{fi.qualname} returns the node to its own callers"
    if isinstance(p, ast.AugAssign) and isinstance(p.op, ast.Add) and p.value is call:
        return "ok", f"`{short(p, 50)}`"
    if isinstance(p, ast.Call) and call in p.args:
        f = p.func
        if isinstance(f, ast.Attribute) and f.attr in ("append", "extend", "insert"):
            return "ok", f"handed to .{f.attr}(...)"
        if _node_class(p, fi.module) is not None:
            return "ok", "child of a node constructed here"
        return "unknown", f"handed on to `{short(p.func, 40)}`"
    if isinstance(p, (ast.Assign, ast.AnnAssign)) and getattr(p, "value", None) is call:
        tgts = p.targets if isinstance(p, ast.Assign) else [p.target]
        if len(tgts) == 1 and isinstance(tgts[0], ast.Name):
            res = an.track(fi, p, tgts[0].id)
            counts = set()
            for v in res.values():
                counts |= v
            if counts == {1}:
                return "ok", f"bound to `{tgts[0].id}`, which is attached once on every path"
            if res and 0 in counts:
                return "bad", f"bound to `{tgts[0].id}`, which is not attached on some path"
            if 2 in counts:
                return "bad", f"bound to `{tgts[0].id}`, which is attached more than once on some path"
    return "unknown", f"used in `{short(p, 50)}`"


@rule("C02.R7")
def r7_nodes_built_in_place(corpus: Corpus, rep: Report, tier: str):
    rep.rule("C02.R7", "a docutils node constructed in place as an argument of a renderer helper is attached exactly once: by the helper on every normal path, or - if the helper hands it back unattached - by the caller from the value of the call")
    _load_node_classes(corpus, rep)
    base_ci = corpus.cls(RENDERER)
    n = 0
    for klass in _renderer_classes(corpus):
        an = _nesting(corpus, klass)
        for fi in an.scope():
            own = fi.cls is not None and fi.cls.fq == klass.fq
            if not own and (klass.fq == base_ci.fq or not _calls_overridden(corpus, fi, klass)):
                continue  # inherited unchanged: judged in the defining class
            ctx = "" if own else f"|as {klass.name}"
            ordinals: dict[str, int] = {}
            calls = sorted((c for c in fi.local_nodes() if isinstance(c, ast.Call)), key=lambda c: (c.lineno, c.col_offset))
            for c in calls:
                built = [a for a in list(c.args) + [k.value for k in c.keywords] if isinstance(a, ast.Call) and _node_class(a, fi.module) is not None and an.is_producer(a, fi) is not None]
                if not built or _node_class(c, fi.module) is not None:
                    continue  # children handed to a node constructor are part of that node
                f = c.func
                if isinstance(f, ast.Attribute) and f.attr in ("append", "extend", "insert"):
                    continue  # attached on the spot
                d = dotted(f) or ""
                if d in BENIGN_CALLEES or (isinstance(f, ast.Attribute) and f.attr.startswith("note_")):
                    continue
                m = an.resolve_callee(c, fi)
                if m is None or m.is_lambda:
                    continue  # library callee (nested_parse, Text ...): not a renderer helper, outside this obligation
                rep.saw_function(fi.fq)
                rep.saw_function(m.fq)
                for a in built:
                    cname = (_node_class(a, fi.module) or "?").rsplit(".", 1)[-1]
                    k0 = f"{fi.fq}|{m.name}({cname} built in place)|attached once"
                    ordinals[k0] = ordinals.get(k0, 0) + 1
                    k = k0 + (f"#{ordinals[k0]}" if ordinals[k0] > 1 else "") + ctx
                    site = fi.module.site(c)
                    ps = an._param_for_arg(c, m, lambda x, a=a: x is a)
                    if len(ps) != 1:
                        rep.error("C02.R7", f"{fi.fq}: parameter of {m.fq} receiving `{short(a, 40)}` not determined")
                        continue
                    res = an.track(m, "ENTRY", ps[0])
                    raw_ret = {kk: set(v) for kk, v in an.last_raw_returns.items()}
                    at_exit: set[int] = set()
                    for kk, v in res.items():
                        if kk not in raw_ret:
                            at_exit |= v
                    handed_back: set[int] = set()
                    for v in raw_ret.values():
                        handed_back |= v
                    n += 1
                    if not res:
                        rep.error("C02.R7", f"{m.fq}: no normal path to the exit")
                    elif 2 in at_exit | handed_back:
                        rep.violation("C02.R7", k, site, f"the {cname} built in the call of {m.name} is attached more than once by it on some path (parameter `{ps[0]}`): the subtree appears twice")
                    elif 0 in at_exit:
                        rep.violation("C02.R7", k, site, f"the {cname} built in the call of {m.name} is never attached on some path of {m.qualname} (parameter `{ps[0]}`) and nothing else refers to it: what is rendered into it is missing from the doctree")
                    elif handed_back <= {1} and 0 not in handed_back:
                        rep.ok("C02.R7", k, site, f"{m.qualname} attaches its parameter `{ps[0]}` once on every normal path")
                    elif handed_back == {0} and not at_exit:
                        verdict, why = _value_attached_by_caller(an, fi, c)
                        if verdict == "ok":
                            rep.ok("C02.R7", k, site, f"{m.qualname} hands `{ps[0]}` back unattached; the caller attaches it: {why}")
                        elif verdict == "bad":
                            rep.violation("C02.R7", k, site, f"{m.qualname} hands the {cname} built in this call back unattached (`return {ps[0]}`), but the caller does not attach it - {why}: "
                                          "the node and the link text rendered into it are built and silently lost")
                        else:
                            rep.error("C02.R7", f"{fi.fq}: {m.name} returns the {cname} built in the call unattached and the use of the value is not understood: {why}")
                    else:
                        rep.error("C02.R7", f"{m.fq} attaches its parameter `{ps[0]}` on some paths and hands it back unattached on others")
    rep.expect_min("C02.R7", 1, "the missing-file branch of SphinxRenderer.render_link_path builds its inline wrapper in the call of _process_wrap_node")


RULES = [r1_handler_exhaustiveness, r2_nesting_discipline, r3_verbatim_leaves, r4_current_node_writers, r5_backend_agreement, r6_section_level_state, r7_nodes_built_in_place]


def _seg(m: Module, node: ast.AST) -> str:
    return ast.get_source_segment(m.src, node) or ""


def _call_stmt(fi: FunctionInfo, text: str, nth: int = 0) -> ast.stmt | None:
    """The nth expression/aug-assign statement whose normalised text is ``text``."""
    hits = sorted((n for n in walk_local(fi.node) if isinstance(n, (ast.Expr, ast.AugAssign, ast.Assign)) and unparse(n) == text), key=lambda n: n.lineno)
    return hits[nth] if len(hits) > nth else None


def mutants(corpus: Corpus):
    out: list = []
    base = corpus.mod(BASE)
    sph = corpus.mod(SPHINX)
    mdit = corpus.mod("parsers.mdit")
    mock = corpus.mod("mocking")
    R = "DocutilsRenderer."

    def add(mid, rule_id, mod, node, text, expect, canary=False, more=None):
        if node is None:
            out.append((mid, "anchor construct not found on this tree"))
        else:
            out.append(Mutant(mid, rule_id, mod.rel, splice(mod.src, node, text), expect=expect, canary=canary, more=more or {}))

    # ---- R1
    f = base.func(R + "render_hr")
    hdr = f.node
    src_lines = base.src.splitlines(keepends=True)
    line = src_lines[hdr.lineno - 1]
    if "def render_hr(" in line:
        new_src = "".join(src_lines[: hdr.lineno - 1] + [line.replace("def render_hr(", "def render_hrule(")] + src_lines[hdr.lineno :])
        out.append(Mutant("c02-handler-renamed", "C02.R1", base.rel, new_src, expect="token type hr", canary=True))
    init = base.func(R + "__init__")
    cmp_ = find_node(init, lambda n: isinstance(n, ast.Compare) and unparse(n) == "k != 'render_children'")
    add("c02-rules-filter-excludes-handler", "C02.R1", base, cmp_, 'k not in ("render_children", "render_s")', "token type s")
    cm = mdit.func("create_md_parser")
    imp = next((n for n in mdit.tree.body if isinstance(n, ast.ImportFrom) and n.module == "mdit_py_plugins.amsmath"), None)
    use = find_node(cm, lambda n: isinstance(n, ast.Call) and unparse(n) == "md.use(amsmath_plugin)")
    if imp is not None and use is not None:
        src2 = splice(mdit.src, use, "md.use(amsmath_plugin).use(admon_plugin)")
        tmp = ast.parse(src2)
        imp2 = next(n for n in tmp.body if isinstance(n, ast.ImportFrom) and n.module == "mdit_py_plugins.amsmath")
        src2 = splice(src2, imp2, "from mdit_py_plugins.admon import admon_plugin\n" + (ast.get_source_segment(src2, imp2) or ""))
        out.append(Mutant("c02-plugin-without-handler", "C02.R1", mdit.rel, src2, expect="token type admonition"))
    else:
        out.append(("c02-plugin-without-handler", "amsmath import/use not found"))
    rc = base.func(R + "render_children")
    loop = find_node(rc, lambda n: isinstance(n, ast.For))
    add("c02-dispatch-loop-skips-first-child", "C02.R1", base, loop.iter if loop else None, "(token.children or [])[1:]", "dispatch loop")
    call = find_node(rc, lambda n: isinstance(n, ast.Call) and isinstance(n.func, ast.Subscript) and unparse(n.func.value) == "self.rules")
    add("c02-dispatch-on-parent", "C02.R1", base, call.args[0] if call else None, "token", "dispatch loop")
    if loop is not None and len(loop.body) == 1 and isinstance(loop.body[0], ast.If) and call is not None:
        # the dispatch extracted into a helper that forgets the no-handler warning (one path renders nothing)
        iff = loop.body[0]
        ind_m = indent_of(rc, rc.node.body[-1])[:-4]
        helper = f"\n\n{ind_m}def _dispatch_one(self, child: SyntaxTreeNode) -> None:\n{ind_m}    if {_seg(base, iff.test)}:\n{ind_m}        {_seg(base, call)}"
        src2 = splice(base.src, rc.node, _seg(base, rc.node).replace(_seg(base, iff), "self._dispatch_one(child)") + helper)
        out.append(Mutant("c02-dispatch-helper-drops-warning-path", "C02.R1", base.rel, src2, expect="dispatch loop"))
    else:
        out.append(("c02-dispatch-helper-drops-warning-path", "dispatch loop body is not a single if/else"))
    fn = find_node(cm, lambda n: isinstance(n, ast.keyword) and n.arg == "move_to_end")
    add("c02-footnote-tail-enabled", "C02.R1", mdit, fn.value if fn else None, "True", "token type footnote_block")
    fl = base.func(R + "render_field_list")
    lit = find_node(fl, lambda n: isinstance(n, ast.Constant) and n.value == "fieldlist_body")
    add("c02-field-body-consumer-literal-changed", "C02.R1", base, lit, '"field_body"', "token type fieldlist_body")

    # ---- R2
    f = base.func(R + "render_strong")
    add("c02-children-not-rendered", "C02.R2", base, _call_stmt(f, "self.render_children(token)"), "pass", "render_strong", canary=True)
    f = base.func(R + "render_hr")
    add("c02-node-never-attached", "C02.R2", base, _call_stmt(f, "self.current_node.append(node)"), "pass", "render_hr|node")
    f = base.func(R + "render_link_anchor")
    w = find_node(f, lambda n: isinstance(n, ast.With))
    add("c02-node-attached-twice", "C02.R2", base, w.items[0].context_expr if w else None, "self.current_node_context(ref_node, append=True)", "more than once")
    f = base.func(R + "render_em")
    w = find_node(f, lambda n: isinstance(n, ast.With))
    if w is not None:
        ind = indent_of(f, w)
        add("c02-children-rendered-as-siblings", "C02.R2", base, w, f"self.current_node.append(node)\n{ind}self.render_children(token)", "outside any current_node_context")
    f = base.func(R + "render_span")
    st0 = f.node.body[1] if isinstance(f.node.body[0], ast.Expr) and isinstance(f.node.body[0].value, ast.Constant) else f.node.body[0]
    ind = indent_of(f, st0)
    add("c02-silent-early-return", "C02.R2", base, st0, f'if "hidden" in token.attrs:\n{ind}    return\n{ind}' + _seg(base, st0), "render_span")
    f = base.func(R + "render_link_url")
    add("c02-link-text-dropped", "C02.R2", base, _call_stmt(f, "self.render_children(token)"), "pass", "render_link|children of token")
    f = base.func(R + "render_table_row")
    add("c02-cell-content-dropped", "C02.R2", base, _call_stmt(f, "self.render_children(child)"), "pass", "render_table|children")
    f = sph.func("SphinxRenderer._process_wrap_node")
    add("c02-sphinx-inner-node-not-attached", "C02.R2", sph, _call_stmt(f, "wrap_node.append(inner_node)"), "pass", "inner_node")
    # ---- R7 (the wrap node that render_link_path builds in the call of _process_wrap_node)
    wp = f.params[1] if len(f.params) > 1 else "wrap_node"
    ap = _call_stmt(f, f"self.current_node.append({wp})")
    add("c02-node-built-in-call-never-attached", "C02.R7", sph, ap, "pass", "built in place")
    if ap is not None:
        ind = indent_of(f, ap)
        add("c02-node-built-in-call-attached-twice", "C02.R7", sph, ap, _seg(sph, ap) + f"\n{ind}self.current_node.append({wp})", "built in place")
        # the helper refactored to return the node instead of attaching it; the callers that ignore the value are left as they are
        seg = _seg(sph, f.node)
        add("c02-helper-returns-node-caller-discards", "C02.R7", sph, f.node, seg.replace(_seg(sph, ap), "pass", 1).rstrip() + f"\n{ind}return {wp}", "built in place")
    else:
        out.append(("c02-node-built-in-call-attached-twice", "anchor construct not found on this tree"))
        out.append(("c02-helper-returns-node-caller-discards", "anchor construct not found on this tree"))
    f = sph.func("SphinxRenderer.add_math_target")
    rt = find_node(f, lambda n: isinstance(n, ast.Return))
    if rt is not None:
        ind = indent_of(f, rt)
        add("c02-helper-attaches-and-caller-attaches-again", "C02.R2", sph, rt, f"self.current_node.append(target)\n{ind}" + _seg(sph, rt), "more than once")
    f = base.func(R + "render_field_list")
    add("c02-field-body-not-attached", "C02.R2", base, _call_stmt(f, "field += field_body"), "pass", "field_body")
    f = base.func(R + "update_section_level_state")
    add("c02-section-not-attached-by-helper", "C02.R2", base, _call_stmt(f, "parent.append(section)"), "pass", "new_section")
    f = base.func(R + "render_dl")
    dd_loop_call = sorted((n for n in walk_local(f.node) if isinstance(n, ast.Expr) and unparse(n) == "self.render_children(child)"), key=lambda n: n.lineno)
    add("c02-definition-body-dropped", "C02.R2", base, dd_loop_call[-1] if dd_loop_call else None, "pass", "each `child`")

    # ---- R3
    f = base.func(R + "render_text")
    c = find_node(f, lambda n: isinstance(n, ast.Attribute) and unparse(n) == "token.content")
    add("c02-text-stripped", "C02.R3", base, c, "token.content.strip()", "render_text", canary=True)
    f = base.func(R + "render_fence")
    c = find_node(f, lambda n: isinstance(n, ast.Call) and _is_self_call(n, "create_highlighted_code_block"))
    add("c02-fence-trailing-newline-trimmed", "C02.R3", base, c.args[0] if c else None, 'token.content.rstrip("\\n")', "render_fence|text")
    add("c02-fence-language-dropped", "C02.R3", base, c.args[1] if c else None, '""', "code language")
    f = base.func(R + "create_highlighted_code_block")
    st = _call_stmt(f, "node += nodes.Text(value)")
    add("c02-unclassified-fragment-dropped", "C02.R3", base, st, "pass", "every lexer fragment")
    sn = find_node(f, lambda n: isinstance(n, ast.Assign) and isinstance(n.targets[0], ast.Attribute) and n.targets[0].attr == "stripnl")
    add("c02-revert-stripnl-fix", "C02.R3", base, sn, "pass", "keeps leading and trailing blank lines")
    add("c02-stripnl-left-on", "C02.R3", base, sn.value if sn is not None else None, "True", "keeps leading and trailing blank lines")
    lx = find_node(f, lambda n: isinstance(n, ast.Call) and (dotted(n.func) or "") == "Lexer")
    add("c02-lexer-fed-stripped-text", "C02.R3", base, lx.args[0] if lx else None, "text.strip()", "Lexer input")
    f = base.func(R + "render_link_url")
    c = find_node(f, lambda n: isinstance(n, ast.Constant) and n.value == "href")
    add("c02-refuri-from-title", "C02.R3", base, c, '"title"', "render_link_url|refuri")
    f = base.func(R + "render_image")
    c = find_node(f, lambda n: isinstance(n, ast.Assign) and unparse(n.targets[0]) == "img_node['uri']")
    add("c02-image-uri-constant", "C02.R3", base, c.value if c else None, '""', "render_image|uri")
    add("c02-image-uri-html-escaped", "C02.R3", base, c.value if c else None, "escapeHtml(destination)", "without output-format escaping")
    f = base.func(R + "render_ordered_list")
    c = find_node(f, lambda n: isinstance(n, ast.Tuple) and any(isinstance(e, ast.Constant) and e.value == "start" for e in n.elts))
    add("c02-list-start-not-copied", "C02.R3", base, c, '("class", "id")', "start carried over")
    f = sph.func("SphinxRenderer.render_amsmath")
    c = find_node(f, lambda n: isinstance(n, ast.Assign) and unparse(n) == "content = token.content")
    add("c02-sphinx-amsmath-stripped", "C02.R3", sph, c.value if c else None, "token.content.strip()", "SphinxRenderer.render_amsmath")
    f = base.func(R + "renderInlineAsText")
    st = find_node(f, lambda n: isinstance(n, ast.AugAssign) and "renderInlineAsText" in unparse(n.value))
    add("c02-alt-nested-image-dropped", "C02.R3", base, st, "pass", "`image` tokens")
    f = sph.func("SphinxRenderer.render_link_path")
    kw = find_node(f, lambda n: isinstance(n, ast.keyword) and n.arg == "reftarget")
    add("c02-sphinx-reftarget-constant", "C02.R3", sph, kw.value if kw else None, '""', "render_link_path|reftarget")

    # revert of dd4e50e (softbreak kept in alt text)
    f = base.func(R + "renderInlineAsText")
    def _type_branch(fn, ty):
        # the if/elif of the type dispatch that covers token type `ty` (== "ty" or in (..., "ty", ...))
        return find_node(fn, lambda n: isinstance(n, ast.If) and isinstance(n.test, ast.Compare) and unparse(n.test.left).endswith(".type") and any(
            (isinstance(c, ast.Constant) and c.value == ty) or (isinstance(c, (ast.Tuple, ast.List, ast.Set)) and any(isinstance(x, ast.Constant) and x.value == ty for x in c.elts)) for c in n.test.comparators))

    br = _type_branch(f, "softbreak")
    if br is not None:
        lines = base.src.splitlines(keepends=True)
        out.append(Mutant("c02-revert-alt-softbreak-fix", "C02.R3", base.rel, "".join(lines[: br.lineno - 1] + lines[br.body[-1].end_lineno :]), expect="`softbreak` tokens", canary=False))
        c0 = br.test.comparators[0]
        if isinstance(c0, (ast.Tuple, ast.List, ast.Set)):
            # partial weakening of c22b160: the hard break is dropped from the break types again
            add("c02-alt-hardbreak-dropped", "C02.R3", base, br.test, f'{unparse(br.test.left)} == "softbreak"', "`hardbreak` tokens")
    else:
        out.append(("c02-revert-alt-softbreak-fix", "softbreak branch not found"))
    # revert / weakening of c22b160: inline code contributes nothing / something else than its content to the alt text
    br = _type_branch(f, "code_inline")
    if br is not None:
        lines = base.src.splitlines(keepends=True)
        out.append(Mutant("c02-revert-alt-code-inline", "C02.R3", base.rel, "".join(lines[: br.lineno - 1] + lines[br.body[-1].end_lineno :]), expect="`code_inline` tokens"))
        aug = find_node(f, lambda n: isinstance(n, ast.AugAssign) and n in br.body)
        add("c02-alt-code-inline-contributes-markup", "C02.R3", base, aug.value if aug else None, "token.markup", "`code_inline` tokens")
    else:
        out.append(("c02-revert-alt-code-inline", "code_inline branch not found"))
    # revert / weakening of c309c95: the language is cut out of the raw info string
    f = base.func(R + "render_fence")
    un = find_node(f, lambda n: isinstance(n, ast.Call) and (dotted(n.func) or "").endswith("unescapeAll"))
    if un is not None and un.args:
        add("c02-revert-info-unescaped", "C02.R3", base, un, "(" + _seg(base, un.args[0]) + ")", "unescaped info string")
        add("c02-info-unescaped-after-the-cut", "C02.R3", base, un, f"unescapeAll((({_seg(base, un.args[0])}).split(maxsplit=1) or [\"\"])[0])", "unescaped info string")
        add("c02-info-unescaped-only-with-backslash", "C02.R3", base, un, f'({_seg(base, un)} if "\\\\" in ({_seg(base, un.args[0])}) else ({_seg(base, un.args[0])}))', "unescaped info string")
    else:
        out.append(("c02-revert-info-unescaped", "unescapeAll call not found in render_fence"))
    # revert / weakening of 14858ce: refname and registered names disagree on the normal form
    f = base.func(R + "render_link_unknown")
    st = find_node(f, lambda n: isinstance(n, ast.Assign) and unparse(n.targets[0]) == "ref_node['refname']")
    if st is not None and isinstance(st.value, ast.Call) and (dotted(st.value.func) or "").endswith("fully_normalize_name"):
        inner = _seg(base, st.value.args[0])
        add("c02-revert-refname-normalised", "C02.R3", base, st.value, inner, "normal form")
        add("c02-refname-normalised-only-with-spaces", "C02.R3", base, st.value, f'(nodes.fully_normalize_name({inner}) if " " in {inner} else {inner})', "normal form")
    else:
        out.append(("c02-revert-refname-normalised", "normalised refname store not found"))
    f = base.func(R + "render_myst_target")
    nm = find_node(f, lambda n: isinstance(n, ast.Assign) and isinstance(n.value, ast.Call) and (dotted(n.value.func) or "").endswith("fully_normalize_name"))
    add("c02-target-name-registered-unnormalised", "C02.R3", base, nm.value if nm else None, _seg(base, nm.value.args[0]) if nm else "", "normal form")
    # class: attribute value stored under a truthiness test / with an `or` default where 0 is legal
    f = base.func(R + "render_ordered_list")
    ca = find_node(f, lambda n: isinstance(n, ast.Expr) and isinstance(n.value, ast.Call) and _is_self_call(n.value, "copy_attributes"))
    if ca is not None:
        ind = indent_of(f, ca)
        tail = f'\n{ind}self.copy_attributes(token, list_node, keys=("class", "id"))'
        add("c02-list-start-under-truthiness", "C02.R3", base, ca, f'start = token.attrGet("start")\n{ind}if start:\n{ind}    list_node["start"] = start' + tail, "starting at 0")
        add("c02-list-start-or-default", "C02.R3", base, ca, f'if "start" in token.attrs:\n{ind}    list_node["start"] = token.attrs["start"] or 1' + tail, "starting at 0")
    f = base.func(R + "copy_attributes")
    guard = find_node(f, lambda n: isinstance(n, ast.If) and unparse(n.test) == "key not in keys")
    if guard is not None:
        ind = indent_of(f, guard)
        add("c02-copy-attributes-skips-falsy", "C02.R3", base, guard, _seg(base, guard) + f"\n{ind}if not value:\n{ind}    continue", "truthy")
    # class: only a part of a split destination is stored
    f = sph.func("SphinxRenderer.render_link_unknown")
    kws = sorted((n for n in walk_local(f.node) if isinstance(n, ast.keyword) and n.arg == "reftarget" and unparse(n.value) == "destination"), key=lambda n: n.value.lineno)
    add("c02-sphinx-reftarget-loses-fragment", "C02.R3", sph, kws[-1].value if kws else None, "path_dest", "truncated")
    f = sph.func("SphinxRenderer.render_link_project")
    kw = find_node(f, lambda n: isinstance(n, ast.keyword) and n.arg == "reftargetid")
    add("c02-sphinx-project-fragment-not-carried", "C02.R3", sph, kw.value if kw else None, "None", "truncated")
    f = base.func(R + "render_link_unknown")
    st = find_node(f, lambda n: isinstance(n, ast.Assign) and unparse(n.targets[0]) == "ref_node['refname']")
    add("c02-refname-loses-fragment", "C02.R3", base, st.value if st else None, 'cast(str, token.attrGet("href") or "").split("#")[0]', "truncated")

    # ---- R6
    f = base.func(R + "update_section_level_state")
    rebuild = find_node(f, lambda n: isinstance(n, ast.Assign) and isinstance(n.value, ast.DictComp))
    if rebuild is not None:
        ind = indent_of(f, rebuild)
        mexp = unparse(rebuild.targets[0])
        add("c02-level-prune-excludes-deepest", "C02.R6", base, rebuild, f"for section_level in range(level + 1, max({mexp})):\n{ind}    {mexp}.pop(section_level, None)", "excludes the deepest")
        add("c02-level-prune-dropped", "C02.R6", base, rebuild, "pass", "never removed")
        add("c02-level-prune-stops-at-h6", "C02.R6", base, rebuild, f"for section_level in range(level + 1, 7):\n{ind}    {mexp}.pop(section_level, None)", "not bounded")
        add("c02-level-prune-stops-at-constant-10", "C02.R6", base, rebuild, f"for section_level in range(level + 1, 10):\n{ind}    {mexp}.pop(section_level, None)", "not bounded")
        add("c02-level-prune-drops-own-level", "C02.R6", base, rebuild.value.generators[0].ifs[0], "section_level < level", "is removed by a heading")
        add("c02-level-prune-keeps-one-deeper", "C02.R6", base, rebuild.value.generators[0].ifs[0], "section_level <= level + 1", "survives a heading")
    else:
        out.append(("c02-level-prune-*", "dict-comprehension rebuild not found"))
    sel = find_node(f, lambda n: isinstance(n, ast.Compare) and unparse(n) == "level > section_level")
    add("c02-parent-includes-same-level", "C02.R6", base, sel, "level >= section_level", "parent candidate")

    # class: the alt-text walk rewritten as a work list that does not visit nested children in place
    f = base.func(R + "renderInlineAsText")
    floop = find_node(f, lambda n: isinstance(n, ast.For))
    rec = find_node(f, lambda n: isinstance(n, ast.AugAssign) and "renderInlineAsText" in unparse(n.value))
    if floop is not None and rec is not None and len(floop.body) == 1 and isinstance(floop.body[0], ast.If) and isinstance(floop.target, ast.Name):
        ind = indent_of(f, floop)
        v = floop.target.id
        chain = _seg(base, floop.body[0])
        for mid, seed_, pop, push, exp in (
            ("c02-alt-worklist-breadth-first", f"list({_seg(base, floop.iter)})", "pop(0)", f"pending.extend({v}.children or [])", "breadth-first"),
            ("c02-alt-worklist-appended-behind", f"list({_seg(base, floop.iter)})", "pop(0)", f"pending = pending + list({v}.children or [])", "breadth-first"),
            ("c02-alt-stack-children-in-order", f"list(reversed({_seg(base, floop.iter)}))", "pop()", f"pending.extend({v}.children or [])", "last-to-first"),
        ):
            body = chain.replace(_seg(base, rec), push)
            add(mid, "C02.R3", base, floop, f"pending = {seed_}\n{ind}while pending:\n{ind}    {v} = pending.{pop}\n{ind}    {body}", exp)
    else:
        out.append(("c02-alt-worklist-*", "renderInlineAsText loop shape not found"))
    # class: a per-child value that is only conditionally refreshed inside the per-child loop (stale fallback)
    f = base.func(R + "render_table_row")
    fseg = _seg(base, f.node)
    app = find_node(f, lambda n: isinstance(n, ast.Expr) and isinstance(n.value, ast.Call) and unparse(n.value.func) == "entry['classes'].append")
    first = f.node.body[0]
    sty = find_node(f, lambda n: isinstance(n, ast.Assign) and unparse(n.targets[0]) == "style")
    if app is not None and isinstance(parent(app), ast.If) and sty is not None:
        iff = parent(app)
        ind0 = indent_of(f, first)
        indi = indent_of(f, iff)
        seg_if = _seg(base, iff)
        new_if = seg_if.replace(_seg(base, app), f"align_classes = [{_seg(base, app.value.args[0])}]") + f'\n{indi}entry["classes"].extend(align_classes)'
        m1 = fseg.replace(seg_if, new_if).replace(_seg(base, first), f"align_classes: list[str] = []\n{ind0}" + _seg(base, first), 1)
        add("c02-cell-alignment-inherited-from-left", "C02.R2", base, f.node, m1, "`align_classes`")
        inds = indent_of(f, sty)
        m2 = fseg.replace(_seg(base, sty), f"if {_seg(base, sty.value)}:\n{inds}    " + _seg(base, sty)).replace(_seg(base, first), f"style = None\n{ind0}" + _seg(base, first), 1)
        add("c02-cell-style-conditionally-refreshed", "C02.R2", base, f.node, m2, "`style`")
        par = find_node(f, lambda n: isinstance(n, ast.Assign) and unparse(n.targets[0]) == "para" and isinstance(n.value, ast.Call) and n.value.args and isinstance(n.value.args[0], ast.IfExp))
        if par is not None:
            ife = par.value.args[0]
            indp = indent_of(f, par)
            m3 = fseg.replace(_seg(base, par), f"if {_seg(base, ife.test)}:\n{indp}    raw = {_seg(base, ife.body)}\n{indp}para = nodes.paragraph(raw)").replace(_seg(base, first), f'raw = ""\n{ind0}' + _seg(base, first), 1)
            add("c02-cell-rawsource-inherited", "C02.R2", base, f.node, m3, "`raw`")
    else:
        out.append(("c02-cell-*", "alignment store in render_table_row not found"))

    # class: a leaf handler with a path that leaves nothing in the doctree
    f = base.func(R + "render_hr")
    st0 = f.node.body[0]
    ind = indent_of(f, st0)
    add("c02-hr-dropped-outside-sections", "C02.R2", base, st0, f'if not isinstance(self.current_node, nodes.document | nodes.section):\n{ind}    self.create_warning("Thematic break is only supported at the top level of a section", MystWarnings.NOT_SUPPORTED, line=token_line(token, default=0))\n{ind}    return\n{ind}' + _seg(base, st0), "render_hr|every path")
    f = base.func(R + "render_math_inline")
    st0 = f.node.body[0]
    ind = indent_of(f, st0)
    add("c02-math-dropped-in-commonmark-mode", "C02.R2", base, st0, f"if self.md_config.commonmark_only:\n{ind}    return\n{ind}" + _seg(base, st0), "render_math_inline|every path")
    f = base.func(R + "render_image")
    st = find_node(f, lambda n: isinstance(n, ast.Assign) and unparse(n.targets[0]) == "destination")
    if st is not None:
        ind = indent_of(f, st)
        add("c02-image-without-src-dropped", "C02.R2", base, st, _seg(base, st) + f'\n{ind}if not destination:\n{ind}    self.create_warning("image without source", MystWarnings.NOT_SUPPORTED, line=token_line(token, default=0), append_to=self.current_node)\n{ind}    return', "render_image|every path")
    # class: a helper prunes the node it is given instead of a copy
    f = base.func("clean_astext")
    cp = find_node(f, lambda n: isinstance(n, ast.Assign) and isinstance(n.value, ast.Call) and isinstance(n.value.func, ast.Attribute) and n.value.func.attr == "deepcopy")
    if cp is not None:
        ind = indent_of(f, cp)
        add("c02-astext-copy-only-with-images", "C02.R2", base, cp, f"if any(findall(node)(nodes.image)):\n{ind}    " + _seg(base, cp), "works on a copy")
        add("c02-astext-copy-dropped", "C02.R2", base, cp, "pass", "works on a copy")
        add("c02-astext-copy-bound-to-other-name", "C02.R2", base, cp, "clone = node.deepcopy()", "works on a copy")
    else:
        out.append(("c02-astext-copy-*", "deepcopy in clean_astext not found"))
    # class: 'explicit link text' decided from the rendered text of the children instead of their presence
    f = sph.func("SphinxRenderer.render_link_unknown")
    ex = find_node(f, lambda n: isinstance(n, ast.Assign) and unparse(n.targets[0]) == "explicit")
    add("c02-sphinx-explicit-from-alt-text", "C02.R2", sph, ex.value if ex else None, 'token.info != "auto" and bool(self.renderInlineAsText(token.children or []).strip())', "_process_wrap_node|children")
    f = base.func(R + "render_link_inventory")
    ex = find_node(f, lambda n: isinstance(n, ast.Assign) and unparse(n.targets[0]) == "explicit")
    add("c02-inventory-explicit-from-alt-text", "C02.R2", base, ex.value if ex else None, 'token.info != "auto" and bool(self.renderInlineAsText(token.children or []))', "render_link_inventory|children")

    # class: near-synonym string method when the language word is cut out of the info string
    f = base.func(R + "render_fence")
    sp = find_node(f, lambda n: isinstance(n, ast.Call) and isinstance(n.func, ast.Attribute) and n.func.attr == "split" and "info" in unparse(n.func.value))
    if sp is not None:
        add("c02-fence-language-split-at-space-only", "C02.R3", base, sp, f'({_seg(base, sp.func.value)}).split(" ", 1)', "first whitespace-delimited word")
        add("c02-fence-language-partition-space", "C02.R3", base, sp, f'[x for x in ({_seg(base, sp.func.value)}).partition(" ")[::2] if x]', "first whitespace-delimited word")
    else:
        out.append(("c02-fence-language-*", "split of the info string not found"))
    f = base.func(R + "render_code_block")
    sp = find_node(f, lambda n: isinstance(n, ast.Call) and isinstance(n.func, ast.Attribute) and n.func.attr == "split" and "info" in unparse(n.func.value))
    add("c02-code-block-language-split-at-space-only", "C02.R3", base, sp, f'({_seg(base, sp.func.value)}).split(" ")' if sp is not None else "", "first whitespace-delimited word")
    # class: a percent-decoded destination is stored without being re-encoded
    f = base.func(R + "render_link_url")
    first = find_node(f, lambda n: isinstance(n, ast.Assign) and unparse(n.targets[0]) == "uri" and "attrGet" in unparse(n.value))
    add("c02-refuri-decoded-for-every-url-link", "C02.R3", base, first.value if first else None, "self.md.normalizeLinkText(" + (_seg(base, first.value) if first else "") + ")", "decoded unconditionally")
    # revert of b2de0bc: the decoded copy is written back to the variable that is stored as refuri
    f = base.func(R + "render_link_url")
    dec = find_node(f, lambda n: isinstance(n, ast.Assign) and isinstance(n.value, ast.Call) and (dotted(n.value.func) or "").endswith("normalizeLinkText") and isinstance(n.targets[0], ast.Name))
    if dec is not None and first is not None and dec.targets[0].id != first.targets[0].id:
        fseg = _seg(base, f.node)
        import re as _re
        out.append(Mutant("c02-revert-decoded-uri-fix", "C02.R3", base.rel, splice(base.src, f.node, _re.sub(rf"\b{dec.targets[0].id}\b", first.targets[0].id, fseg)), expect="stored percent-decoded"))
    else:
        out.append(("c02-revert-decoded-uri-fix", "separate decoded local not found in render_link_url"))
    # class: a nested image contributes an attribute that is only filled at HTML render time
    f = base.func(R + "renderInlineAsText")
    els = find_node(f, lambda n: isinstance(n, ast.AugAssign) and "renderInlineAsText" in unparse(n.value))
    if els is not None and isinstance(parent(els), ast.If):
        ind = indent_of(f, parent(els))
        # insert `elif <image>: result += <alt attribute>` before the final else
        src_lines = base.src.splitlines(keepends=True)
        else_line = els.lineno - 2  # the `else:` line precedes the statement
        while else_line >= 0 and src_lines[else_line].strip() != "else:":
            else_line -= 1
        if else_line >= 0:
            new_src = "".join(src_lines[:else_line] + [f'{ind}elif token.type == "image":\n', f'{ind}    result += str(token.attrGet("alt") or "")\n'] + src_lines[else_line:])
            out.append(Mutant("c02-alt-nested-image-from-alt-attribute", "C02.R3", base.rel, new_src, expect="`image` tokens"))
    f = base.func(R + "render_image")
    st = find_node(f, lambda n: isinstance(n, ast.Assign) and unparse(n.targets[0]) == "img_node['uri']")
    add("c02-image-uri-decoded", "C02.R3", base, st.value if st else None, "self.md.normalizeLinkText(destination)", "uri stored percent-decoded")
    # class: the HTML conversion looks at a filtered subset of the parsed children
    h2n = corpus.mod("mdit_to_docutils.html_to_nodes")
    f = _html_work_function(corpus, _nesting(corpus, corpus.cls(RENDERER)))
    gate = find_node(f, lambda n: isinstance(n, ast.Call) and dotted(n.func) == "all" and n.args and isinstance(n.args[0], ast.GeneratorExp))
    conv = find_node(f, lambda n: isinstance(n, ast.For) and any(isinstance(c, ast.Call) and isinstance(c.func, ast.Attribute) and c.func.attr == "run_directive" for c in ast.walk(n)))
    if gate is not None and conv is not None:
        git = gate.args[0].generators[0].iter
        src2 = splice(h2n.src, conv.iter, "[c for c in root if c.name]")
        src2 = splice(src2, git, "[c for c in root if c.name]")  # the gate precedes the loop in the file: offsets before it are unchanged
        out.append(Mutant("c02-html-only-elements-considered", "C02.R3", h2n.rel, src2, expect="ranges over every child"))
        add("c02-html-gate-skips-text-children", "C02.R3", h2n, git, "(c for c in root if c.name)", "convertibility gate")
        add("c02-html-loop-skips-last-child", "C02.R3", h2n, conv.iter, "list(root)[:-1]", "conversion loop")
    else:
        out.append(("c02-html-*", "gate/loop of html_to_nodes not found"))

    # ---- reverts of the round-10 repairs
    # cb7c1fd: the node itself as message node of note_explicit_target
    f = base.func(R + "copy_attributes")
    c = find_node(f, lambda n: isinstance(n, ast.Call) and isinstance(n.func, ast.Attribute) and n.func.attr == "note_explicit_target" and len(n.args) == 2)
    add("c02-revert-msgnode-fix-copy-attributes", "C02.R2", base, c.args[1] if c else None, unparse(c.args[0]) if c else "", "message node")
    f = base.func(R + "render_math_block_label")
    c = find_node(f, lambda n: isinstance(n, ast.Call) and isinstance(n.func, ast.Attribute) and n.func.attr == "note_explicit_target" and len(n.args) == 2)
    add("c02-revert-msgnode-fix-math-label", "C02.R2", base, c.args[1] if c else None, unparse(c.args[0]) if c else "", "message node")
    # 5769918: an unresolved inventory link returns after its warning without rendering the link text
    f = base.func(R + "render_link_inventory")
    keeps = sorted((n for n in walk_local(f.node) if isinstance(n, ast.If) and unparse(n.test) == "explicit" and len(n.body) == 1 and isinstance(n.body[0], ast.Return) and "render_link_url" in unparse(n.body[0])), key=lambda n: n.lineno)
    if keeps:
        src2 = base.src
        for n in reversed(keeps):
            src2 = splice(src2, n, "pass")
        out.append(Mutant("c02-revert-inventory-link-text-kept", "C02.R2", base.rel, src2, expect="render_link_inventory|children"))
    else:
        out.append(("c02-revert-inventory-link-text-kept", "`if explicit: return self.render_link_url(token)` not found"))
    # 1f47f0d: refname is markdown-it's percent-encoded href
    f = base.func(R + "render_link_unknown")
    st = find_node(f, lambda n: isinstance(n, ast.Assign) and unparse(n.targets[0]) == "ref_node['refname']")
    add("c02-revert-refname-decoded", "C02.R3", base, st.value if st else None, 'cast(str, token.attrGet("href") or "")', "decoded target name")
    # fa593fc: the reference has no rawsource
    st = find_node(f, lambda n: isinstance(n, ast.Assign) and isinstance(n.targets[0], ast.Attribute) and n.targets[0].attr == "rawsource")
    add("c02-revert-reference-rawsource", "C02.R2", base, st, "pass", "keeps its text as rawsource")
    # 3a7eebf: the lexed fragments are used unchecked
    f = base.func(R + "create_highlighted_code_block")
    chk = find_node(f, lambda n: isinstance(n, ast.If) and "lexed" in unparse(n.test) and any(isinstance(c, ast.Compare) for c in ast.walk(n.test)))
    add("c02-revert-lexed-text-check", "C02.R3", base, chk, "pass", "add up to the code text")
    sp = smod_r10 = None
    f = sph.func("SphinxRenderer.render_link_path")
    kw = find_node(f, lambda n: isinstance(n, ast.keyword) and n.arg == "reftarget")
    add("c02-sphinx-reftarget-percent-encoded", "C02.R3", sph, kw.value if kw else None, 'cast(str, token.attrGet("href") or "")', "decoded target name")

    # class: the duplicate-definition test compares a normalised copy of the footnote label
    f = base.func(R + "render_footnote_reference")
    cmpn = find_node(f, lambda n: isinstance(n, ast.Compare) and isinstance(n.ops[0], ast.In) and isinstance(n.left, ast.Name) and any(isinstance(p_, ast.GeneratorExp) for p_ in ancestors(n)))
    if cmpn is not None:
        lab = cmpn.left.id
        rhs = _seg(base, cmpn.comparators[0])
        add("c02-footnote-duplicate-test-normalised", "C02.R2", base, cmpn, f"nodes.fully_normalize_name({lab}) in [nodes.fully_normalize_name(n_) for n_ in {rhs}]", "compared as it is")
        add("c02-footnote-duplicate-test-case-folded", "C02.R2", base, cmpn, f"{lab}.lower() in [n_.lower() for n_ in {rhs}]", "compared as it is")
        add("c02-footnote-duplicate-test-stripped", "C02.R2", base, cmpn.left, f"{lab}.strip()", "compared as it is")
    else:
        out.append(("c02-footnote-duplicate-test-*", "membership test of the label not found"))

    # class: the helper that moves system messages behind a rubric / list loses or duplicates them
    try:
        f = base.func(R + "_messages_follow")
    except AnchorMissing:
        f = None
    ins = find_node(f, lambda n: isinstance(n, ast.Expr) and isinstance(n.value, ast.Call) and isinstance(n.value.func, ast.Attribute) and n.value.func.attr == "insert") if f is not None else None
    if ins is not None:
        ind = indent_of(f, ins)
        add("c02-moved-message-not-reinserted", "C02.R2", base, ins, "pass", "works on a copy")
        add("c02-moved-message-inserted-twice", "C02.R2", base, ins, _seg(base, ins) + f"\n{ind}" + _seg(base, ins), "works on a copy")
        flt = find_node(f, lambda n: isinstance(n, ast.Attribute) and unparse(n) == "nodes.system_message")
        add("c02-content-moved-out-of-container", "C02.R2", base, flt, "nodes.Text", "works on a copy")
    else:
        out.append(("c02-moved-message-*", "_messages_follow / its insert not found"))

    # ---- R4
    f = base.func(R + "render_paragraph")
    w = find_node(f, lambda n: isinstance(n, ast.With))
    if w is not None:
        ind = indent_of(f, w)
        add("c02-current-node-rebound-in-handler", "C02.R4", base, w, f"self.current_node.append(para)\n{ind}self.current_node = para\n{ind}self.render_children(token)", "render_paragraph", canary=True)
    f = base.func(R + "current_node_context")
    iff = find_node(f, lambda n: isinstance(n, ast.If) and unparse(n.test) == "append")
    setst = find_node(f, lambda n: isinstance(n, ast.Assign) and unparse(n) == "self.current_node = node")
    if iff is not None and setst is not None:
        ind = indent_of(f, setst)
        src2 = splice(base.src, setst, _seg(base, setst) + f"\n{ind}" + _seg(base, iff))
        tmp_if = iff
        src2 = splice(src2, tmp_if, "pass")  # the original `if append:` comes first in the file, offsets before it are unchanged
        out.append(Mutant("c02-append-after-rebind", "C02.R4", base.rel, src2, expect="its own child"))
    rest = find_node(f, lambda n: isinstance(n, ast.Assign) and unparse(n) == "self.current_node = current_node")
    add("c02-restore-to-parent", "C02.R4", base, rest.value if rest else None, "node.parent", "restored")
    f = base.func(R + "render_heading")
    upd = _call_stmt(f, "self.update_section_level_state(new_section, level)")
    if upd is not None:
        ind = indent_of(f, upd)
        add("c02-heading-rebinds-early", "C02.R4", base, upd, _seg(base, upd) + f"\n{ind}self.current_node = new_section", "before its last statement")
    f = mock.func("MockState.nested_parse")
    w = find_node(f, lambda n: isinstance(n, ast.With))
    if w is not None:
        ind = indent_of(f, w)
        add("c02-current-node-written-by-mock", "C02.R4", mock, w, f"self._renderer.current_node = node\n{ind}" + _seg(mock, w), "nested_parse")

    # ---- R5
    f = sph.func("SphinxRenderer._random_label")
    ind = indent_of(f, f.node.body[0])[:-4]
    add("c02-sphinx-overrides-text", "C02.R5", sph, f.node, f"def render_text(self, token: SyntaxTreeNode) -> None:\n{ind}    self.current_node.append(nodes.Text(token.content))\n\n{ind}" + _seg(sph, f.node), "render_text")
    f_s = base.func(R + "render_s")
    line = src_lines[f_s.node.lineno - 1]
    if "def render_s(" in line:
        base2 = "".join(src_lines[: f_s.node.lineno - 1] + [line.replace("def render_s(", "def _render_s_old(")] + src_lines[f_s.node.lineno :])
        sph2 = splice(sph.src, f.node, f"def render_s(self, token: SyntaxTreeNode) -> None:\n{ind}    self.render_children(token)\n\n{ind}" + _seg(sph, f.node))
        out.append(Mutant("c02-handler-only-in-sphinx", "C02.R5", sph.rel, sph2, expect="render_s", more={base.rel: base2}))
    # class: the front ends render with a parser that is not create_md_parser(config) of this document
    dmod, smod = corpus.mod("parsers.docutils_"), corpus.mod("parsers.sphinx_")

    def via_helper(mod, fq):
        fe = mod.func(fq)
        c = find_node(fe, lambda n: isinstance(n, ast.Call) and unparse(n.func) == "create_md_parser")
        if c is None:
            return None
        src2 = splice(mod.src, c.func, "get_md_parser")
        return src2.replace("import create_md_parser", "import get_md_parser", 1)

    d2, s2 = via_helper(dmod, "Parser.parse"), via_helper(smod, "MystParser.parse")
    if d2 and s2:
        cache = (
            "\n\n_PARSERS: dict = {}\n\n\ndef get_md_parser(config: MdParserConfig, renderer):\n"
            "    key = (renderer, config.commonmark_only, config.gfm_only, tuple(sorted(config.enable_extensions)), tuple(config.disable_syntax), config.enable_checkboxes)\n"
            "    if key not in _PARSERS:\n        _PARSERS[key] = create_md_parser(config, renderer)\n"
            "    _PARSERS[key].options[\"myst_config\"] = config\n    return _PARSERS[key]\n"
        )
        out.append(Mutant("c02-parser-cache-key-misses-plugin-settings", "C02.R5", mdit.rel, mdit.src + cache, expect="does not cover the configuration fields", more={dmod.rel: d2, smod.rel: s2}))
        fresh_default = "\n\ndef get_md_parser(config: MdParserConfig, renderer):\n    defaults = MdParserConfig()\n    return create_md_parser(defaults, renderer)\n"
        out.append(Mutant("c02-parser-built-from-default-config", "C02.R5", mdit.rel, mdit.src + fresh_default, expect="not from the configuration it is given", more={dmod.rel: d2, smod.rel: s2}))
    else:
        out.append(("c02-parser-cache-*", "create_md_parser call not found in a front end"))
    fe = dmod.func("Parser.parse")
    asg = find_node(fe, lambda n: isinstance(n, ast.Assign) and isinstance(n.value, ast.Call) and unparse(n.value.func) == "create_md_parser")
    if asg is not None:
        ind = indent_of(fe, asg)
        tgt = unparse(asg.targets[0])
        call_txt = _seg(dmod, asg.value)
        add("c02-front-end-cache-keyed-on-repr", "C02.R5", dmod, asg, f"key = repr(config)\n{ind}if key not in self._md_parsers:\n{ind}    self._md_parsers[key] = {call_txt}\n{ind}{tgt} = self._md_parsers[key]", "repr of the configuration")
        fields = "(config.commonmark_only, config.gfm_only, tuple(sorted(config.enable_extensions)), tuple(config.disable_syntax), config.enable_checkboxes, config.words_per_minute, config.linkify_fuzzy_links, config.dmath_allow_labels, config.dmath_allow_space, config.dmath_allow_digits, config.dmath_double_inline, tuple(config.sub_delimiters))"
        add("c02-front-end-cache-not-refreshed", "C02.R5", dmod, asg, f"key = {fields}\n{ind}if key not in self._md_parsers:\n{ind}    self._md_parsers[key] = {call_txt}\n{ind}{tgt} = self._md_parsers[key]", "does not refresh")
    fe = smod.func("MystParser.parse")
    c = find_node(fe, lambda n: isinstance(n, ast.Call) and unparse(n.func) == "create_md_parser")
    add("c02-sphinx-front-end-wrong-renderer", "C02.R5", smod, c.args[1] if c is not None and len(c.args) > 1 else None, "RendererHTML", "not with a DocutilsRenderer class")
    ctor = sorted((n for n in walk_local(cm.node) if isinstance(n, ast.Call) and unparse(n.func) == "MarkdownIt"), key=lambda n: n.lineno)
    add("c02-gfm-mode-default-renderer", "C02.R5", mdit, ctor[1] if len(ctor) > 1 else None, 'MarkdownIt("commonmark")', "not given the caller's renderer")
    st = find_node(cm, lambda n: isinstance(n, ast.Assign) and unparse(n.targets[0]) == "typographer")
    if st is not None:
        ind = indent_of(cm, st)
        add("c02-config-branches-on-renderer", "C02.R5", mdit, st, _seg(mdit, st) + f'\n{ind}if renderer.__name__ == "SphinxRenderer":\n{ind}    md.enable("linkify")', "branches on the renderer class")
    return out
