"""C03 - every produced document is a well-formed docutils tree (structural necessary conditions).

R1-R5 are the rules of DESIGN.md section 5 (extended in later rounds); R6 (a new section receives its title before
anything else) and R7 (the ids of a node are moved, not copied) were added because the statement says so and edits of
that class were not caught.
"""

from __future__ import annotations

import ast

from ..callgraph import get_callgraph
from ..corpus import (
    Corpus,
    FunctionInfo,
    Unsupported,
    dotted,
    kwarg,
    parent,
    short,
    splice,
    unparse,
)
from ..flow import ENTRY, EXIT, get_cfg
from ..mutant import Mutant
from ..report import Report
from .common import find_node, rule

PROP = "C03"
READY = False
TECHNIQUE = "value-flow tracing of structural nodes to their attach sites, CFG dominance / path counting, small may-append and node-move summaries"

META = {
    "explanation": (
        "R1: every construction of nodes.section / nodes.transition is traced (through locals, helper parameters and the "
        "current_node_context manager) to the sites that attach it; each receiver must be self.document, a value of the heading "
        "level map - every writer of that map (dict literal/comprehension, dict.fromkeys, copies, item stores, parameters followed "
        "to their callers) is shown to store only document/section values - or a node under a dominating "
        "isinstance(..., document|section) test (also `x.tagname in ('document', 'section')`, negated forms with early return, or a "
        "one-return helper; tests that only read attributes such as .children of the parent say nothing about its kind and are ignored). "
        "R2: the tgroup `cols`, the number of colspec nodes and the header row rendered into thead reduce to one symbolic length; "
        "the tgroup/colspec code, the thead/tbody row rendering and the per-cell code are followed into private helpers of "
        "render_table / render_table_row (parameters stand for the call's arguments); every row token is rendered once; exactly "
        "one nodes.entry is attached per cell token on every path; any other loop in the package that builds entries (e.g. a "
        "re-implemented build_table_row of the rST state mock) may skip the entry only for a span placeholder (the loop element "
        "itself is None/false); (thorough) markdown-it pads body rows to the header width. "
        "R3: every refid store takes its value from a found registry lookup (`k in R` / R.get tested; R read from the "
        "document/env, or a dict filled - locally or by a helper that returns it - from document.nameids / node ids) or from "
        "document.set_id; a value of document.nameids (None for a name defined twice, read from docutils' source) only under a "
        "not-None test; the anchor handed to sphinx make_refnode(…, targetid, …) is judged like a refid store, per binding of the value (a "
        "registry entry, the empty anchor, or a value assigned only after the warning); otherwise every path to the store has "
        "passed an XREF_MISSING warning (directly or through a helper that "
        "always warns; `not node` is read as `node is None` because docutils' Node.__bool__ returns True). "
        "R4: a manually numbered footnote gets its label as first possible child, an auto footnote is registered with "
        "note_autofootnote instead (docutils inserts the label at index 0), never both; the label text is the footnote's name "
        "(the not-a-duplicate test in front of the registry calls is only listed as evidence since round 9: with the test removed the "
        "tree stays well formed - docutils moves both names to dupnames, gives the second footnote a fresh id and reports the "
        "references - so recognising duplicates is C11.R6's subject, not a necessary condition of C03; the forms understood are: "
        "a test on the name (document.nameids, or the footnote registries the call "
        "registers into; any(...) over `a + b` or itertools.chain(a, b) / loop / one-return helper / membership in a set of the "
        "registered names, with the same normalisation on both sides or none; the element test may be a disjunction of "
        "memberships, a conjunction that narrows it is noted as weak)); document.footnotes/autofootnotes/symbol_footnotes are only "
        "reordered by MyST code, never filtered, truncated or emptied. "
        "R5: in transforms.py / myst_refs.py an existing node (loop variable over the tree) is re-attached only after being removed "
        "from its old parent, at most once; children moved out of a node (X.children, followed through helpers) are moved at most "
        "once per path and the old owner is replaced/removed on every later path; package-wide: a message node that "
        "create_warning(append_to=) already attached is not attached again by the function or by a caller that attaches the "
        "returned collection; a node object built outside a loop is not attached inside the loop without being rebuilt (also when "
        "it is collected in a list that is later put into a node, or attached by a nested function called from the loop, which "
        "cannot rebind the enclosing local); `.children` / `.parent` of nodes are never written directly (only through "
        "Element.append/insert/extend/+=/replace/slice assignment, which keep .parent in step; emptying a child list is allowed); "
        "a node, or the (object, messages) result of docutils' directive/role lookup (shape re-read from the docutils source), that "
        "is stored in a container on self is not read back on a cache hit and attached. "
        "R5 also: a function that returns several node collections (docutils' (nodes, messages) convention) does not put the same "
        "node objects into two of them (a filtered copy of a list still holds the same objects). "
        "R9: every id MyST itself gives to a node is registered with the document: a node built with ids=[...] or written to "
        "x['ids'] is passed to note_*_target / set_id on every path; library calls that take a ready-made id and then skip the "
        "registration (sphinx make_glossary_term(node_id=...), shape re-read from the Sphinx source) get node_id=None. "
        "Round 10 additions: R3 - in a Transform, an id looked up in the document's registries / slug table becomes a refid only under a "
        "test that it is among the ids collected from the elements in the tree (the registries keep elements a directive parsed and "
        "dropped). R5 - one node held in a local/parameter gets a parent at most once per path, counting library calls that append "
        "their content argument to what they build (make_refnode child, Domain.resolve_xref/resolve_any_xref contnode). R7 - because "
        "inline render methods copy an `id` attribute, a package transform ordered after docutils' Contents (priority read from the "
        "docutils source) clears the ids of the copies in the contents topic, selects every topic that has the class 'contents' (plain membership: docutils "
        "adds 'local' and :class: values to the list) and is registered in both front ends. R8 - a node built "
        "locally and filled by state.nested_parse is handed on (itself or something derived from its children) by every return that "
        "follows the parse. R9 - a preset id (ids=[x]) is used only where `x not in document.ids` is known, since docutils' set_id only "
        "reports a clash of preset ids (read from the docutils source). "
        "Round 14: R7 - when a donor of ids is replaced by a placeholder that a later pass resolves (pending_xref / pending), the ids go "
        "to the placeholder itself (replace_self carries its basic attributes over, while the resolvers in myst_refs - found by their "
        "`node[0].children` reads - keep only the children of the content node), and the hand-over dominates every "
        "`donor.parent.replace(donor, placeholder)` (Element.replace copies no attributes). R1 - a transition kept in the `details` of "
        "a docutils pending node is not an attach. "
        "R5 (returned collections): nodes found by a tree walk (findall/traverse) of X count as nodes of X.children; two returned "
        "collections over the same nodes are accepted only when one of them is emptied out of the tree first (`for m in msgs: "
        "m.parent.remove(m)` on every iteration, dominating the return) and the other is the live child list or a copy taken after that. "
        "R4 (round 15): the transform that moves footnotes to the end of the document gathers them from all three footnote "
        "registries (docutils resolves references against the registries, so a registered footnote from dropped content must be put "
        "back into the tree), never by a tree walk or from a subset. R5: create_warning results collected by a list display / "
        "comprehension are followed like singly assigned ones. "
        "R5 (round 17): whether a create_warning result is 'already attached' is decided from the effective receiver: the renderer's "
        "forwarding wrapper must hand append_to on unchanged; if it substitutes a receiver when the caller gives none (`X if append_to is "
        "None else append_to`, `append_to or X`) every method call without append_to is judged as create_warning(append_to=X) (any other "
        "shape, or a rebound parameter, is an analysis error once a used result depends on it); callers that attach the returned collection "
        "are followed through functions that merely hand the result on (`return helper(...)`, up to three levels). "
        "R6: the first child a new section can receive, on every path, is its nodes.title (interprocedural may-append summary: "
        "direct appends, note_*_target(_, msgnode) where msgnode may be the node - also through a conditional expression or a helper that may hand its argument back -, create_warning(append_to=), becoming the current node; parameter guards of "
        "helpers evaluated against the call's literal arguments). "
        "R8 also: a function that collects in a local list the nodes returned by calls that register names/ids with the document "
        "(run_directive, nested renders, anything reaching note_*_target/set_id) and returns that list must return it on every path "
        "that can follow such a call (an early `return` without the list drops nodes whose names stay registered). "
        "R9 also: when nodes are parsed into a document created on the side (make_document/new_document) and its children are moved "
        "into the real tree, that document's id registry and footnote registries are shared with / merged into the real document's. "
        "R8: a node constructed locally and made the current node for rendering (current_node_context without append) is afterwards "
        "attached, handed on or has its children used - not merely read as text (render methods register footnote references, "
        "targets and ids with the document). "
        "R7: the ids of a node (item copy incl. loops over literal attribute tuples, update_basic_atts/update_all_atts, ids= "
        "keyword) are handed to at most one other node per path and the donor is replaced/removed afterwards, by the function, a "
        "helper or every caller."
    ),
    "not_decided": (
        "uniqueness of ids that collide by value (two different nodes given the same name by the document); single parenthood and "
        "content model of nodes produced by third-party directives/roles or by docutils/Sphinx transforms; whether nodes rendered "
        "into a root that is handed to another function really end up in the tree (R8 only flags roots that are provably just read as text; C02.R2 decides the attach-once discipline of render methods); table rows built "
        "by docutils' own Body.build_table_row, to which the state mock delegates; backrefs/refids assigned later by docutils' "
        "Footnotes transform; recursion depth on pathologically nested input; anything that depends on run-time values rather than on the shape of the code"
    ),
    "trusted_base": [
        "CPython ast",
        "engine call graph (frozen special edges) and CFG",
        "docutils API roles: note_explicit_target/note_implicit_target(target, msgnode) may append a system_message to msgnode; "
        "document.set_id returns the registered id; Element.append/extend/+= re-parent without detaching; update_basic_atts copies ids",
        "facts parsed from the installed docutils source on every run: Node.__bool__ returns True; document.nameids[name] = None "
        "for duplicated names; (thorough) Footnotes.number_footnotes inserts the label at index 0",
        "(thorough) markdown_it/rules_block/table.py: th loop over the header columns, td loop over range(columnCount)",
    ],
    "assumptions": [
        "self.document of the renderer / a Transform is the docutils document node",
        "loop variables in transforms.py and myst_refs.py range over nodes that are already in the tree; X.children are existing children",
        "a `for` target named in the loop over footnote registries / nameids items has the docutils meaning of that registry",
        "the indirect-target branch of ResolveAnchorIds (labelid = node['names'][0]) is unreachable: MyST never calls "
        "note_indirect_target on the document it renders into (tabled, shape re-verified on every run)",
        "three genuine, deliberately unrepaired findings are listed in known_findings.json: render_hr attaches a transition under any "
        "parent (F9: since 2ea1b0a it is shielded from docutils' Transitions transform and put back, so no crash and no relocation, but "
        "the final tree still has it under the block quote / list item / admonition); the heading level map is re-rooted at the "
        "directive's node for match_titles nested parses (4629fdf: sections directly under desc_content / only); eval-rst moves the "
        "children of a scratch document into the tree without its registries",
    ],
}

N_DOC = "docutils.nodes.document"
N_SEC = "docutils.nodes.section"
N_TRANS = "docutils.nodes.transition"
STRUCT_PARENTS = {N_DOC, N_SEC}

ATTACH_METHODS = {"append": 0, "insert": 1, "extend": 0}

# docutils calls that receive a node without attaching it anywhere (registries)
REGISTRY_CALLS = {
    "note_explicit_target", "note_implicit_target", "note_footnote", "note_autofootnote", "note_footnote_ref",
    "note_autofootnote_ref", "note_symbol_footnote", "note_substitution_def", "note_refid", "note_refname", "set_id",
    "isinstance", "id", "len", "clean_astext", "findall", "cast", "repr", "str", "type",
}
# docutils calls whose *second* positional argument (msgnode) may receive a system_message child
MSGNODE_CALLS = {"note_explicit_target": 1, "note_implicit_target": 1}


# ---------------------------------------------------------------------------
# small AST helpers


def _resolved(fi: FunctionInfo, e: ast.AST | None) -> str | None:
    d = dotted(e)
    return fi.module.resolve(d) if d else None


def _ctor_class(fi: FunctionInfo, e: ast.AST | None) -> str | None:
    if isinstance(e, ast.Call):
        return _resolved(fi, e.func)
    return None


def _type_set(e: ast.expr, fi: FunctionInfo) -> set[str] | None:
    if isinstance(e, ast.BinOp) and isinstance(e.op, ast.BitOr):
        a, b = _type_set(e.left, fi), _type_set(e.right, fi)
        return None if a is None or b is None else a | b
    if isinstance(e, ast.Tuple):
        out: set[str] = set()
        for x in e.elts:
            s = _type_set(x, fi)
            if s is None:
                return None
            out |= s
        return out
    if isinstance(e, ast.Constant) and e.value is None:
        return {"None"}
    r = _resolved(fi, e)
    return {r} if r else None


def _elts(e: ast.expr) -> list[ast.expr]:
    if isinstance(e, (ast.List, ast.Tuple)):
        return list(e.elts)
    if isinstance(e, ast.BinOp) and isinstance(e.op, ast.Add):
        return _elts(e.left) + _elts(e.right)
    return [e]


def _bindings(fi: FunctionInfo, name: str) -> list[tuple[ast.AST, ast.expr | None, int | None]]:
    """Every binding of local ``name``: (binding stmt/node, value expr or None, tuple index or None)."""
    out = []

    def tgt(t, st, val, idx=None):
        if isinstance(t, ast.Name) and t.id == name:
            out.append((st, val, idx))
        elif isinstance(t, (ast.Tuple, ast.List)):
            for i, x in enumerate(t.elts):
                tgt(x, st, val, i if idx is None else idx)

    for n in fi.local_nodes():
        if isinstance(n, ast.Assign):
            for t in n.targets:
                tgt(t, n, n.value)
        elif isinstance(n, ast.AnnAssign) and n.value is not None:
            tgt(n.target, n, n.value)
        elif isinstance(n, ast.AugAssign):
            tgt(n.target, n, None)
        elif isinstance(n, ast.For):
            tgt(n.target, n, None)
        elif isinstance(n, ast.withitem) and n.optional_vars is not None:
            tgt(n.optional_vars, n, None)
        elif isinstance(n, ast.NamedExpr):
            tgt(n.target, n, n.value)
    return out


def _shadowed(u: ast.Name) -> bool:
    """Is this use of a name bound by an enclosing comprehension (its own scope)?"""
    n: ast.AST | None = u
    while n is not None and not isinstance(n, (ast.FunctionDef, ast.AsyncFunctionDef, ast.Lambda)):
        if isinstance(n, (ast.ListComp, ast.SetComp, ast.DictComp, ast.GeneratorExp)):
            for gen in n.generators:
                if any(isinstance(x, ast.Name) and x.id == u.id for x in ast.walk(gen.target)):
                    return True
        n = parent(n)
    return False


def _single_value(fi: FunctionInfo, name: str, ignore_aug: bool = False) -> ast.expr | None:
    b = _bindings(fi, name)
    if ignore_aug:
        b = [x for x in b if not isinstance(x[0], ast.AugAssign)]
    if len(b) == 1 and b[0][1] is not None and b[0][2] is None:
        return b[0][1]
    return None


def _owner_of_name(fi: FunctionInfo, name: str) -> FunctionInfo | None:
    """The function (fi or an enclosing one) that binds ``name``."""
    f: FunctionInfo | None = fi
    while f is not None:
        if name in f.params or _bindings(f, name):
            return f
        f = f.parent_func
    return None


def _attach_events(fi: FunctionInfo) -> list[tuple[ast.AST, ast.expr, list[ast.expr], str]]:
    """(node, receiver expr, attached value exprs, how) for every child-adding construct."""
    ev = fi.__dict__.get("_c03_attach")
    if ev is not None:
        return ev
    ev = []
    for n in fi.local_nodes():
        if isinstance(n, ast.Call) and isinstance(n.func, ast.Attribute):
            a = n.func.attr
            if a in ATTACH_METHODS and len(n.args) > ATTACH_METHODS[a]:
                ev.append((n, n.func.value, _elts(n.args[ATTACH_METHODS[a]]), a))
            elif a == "replace" and len(n.args) == 2 and not n.keywords:
                ev.append((n, n.func.value, [n.args[1]], "replace"))
            elif a == "replace_self" and len(n.args) == 1:
                ev.append((n, n.func.value, [n.args[0]], "replace_self"))
        elif isinstance(n, ast.AugAssign) and isinstance(n.op, ast.Add):
            ev.append((n, n.target, _elts(n.value), "+="))
    fi.__dict__["_c03_attach"] = ev
    return ev


def _param_of(callee: FunctionInfo, call: ast.Call, arg: ast.AST) -> str | None:
    """Name of the callee parameter that receives ``arg`` (an element of call.args or a keyword value)."""
    params = callee.params
    shift = 1 if (callee.cls is not None and params and params[0] in ("self", "cls") and isinstance(call.func, ast.Attribute)) else 0
    for i, a in enumerate(call.args):
        if a is arg:
            return params[i + shift] if i + shift < len(params) else None
    for k in call.keywords:
        if k.value is arg:
            return k.arg
    return None


_NOARG = object()


def _arg_for(callee: FunctionInfo, call: ast.Call, pname: str):
    """Argument expression bound to parameter ``pname`` at ``call`` (default expression if omitted, _NOARG if none)."""
    params = callee.params
    shift = 1 if (callee.cls is not None and params and params[0] in ("self", "cls") and isinstance(call.func, ast.Attribute)) else 0
    if any(isinstance(a, ast.Starred) for a in call.args) or any(k.arg is None for k in call.keywords):
        raise Unsupported(f"star-arguments at call of {callee.qualname}")
    a = callee.node.args
    pos = [x.arg for x in a.posonlyargs + a.args]
    if pname in pos:
        i = pos.index(pname) - shift
        if 0 <= i < len(call.args):
            return call.args[i]
    for k in call.keywords:
        if k.arg == pname:
            return k.value
    if pname in pos:
        j = pos.index(pname) - (len(pos) - len(a.defaults))
        if j >= 0:
            return a.defaults[j]
    kwo = [x.arg for x in a.kwonlyargs]
    if pname in kwo and a.kw_defaults[kwo.index(pname)] is not None:
        return a.kw_defaults[kwo.index(pname)]
    return _NOARG


def _literal_container(e) -> list | None:
    if isinstance(e, (ast.Tuple, ast.List, ast.Set)) and all(isinstance(x, ast.Constant) for x in e.elts):
        return [x.value for x in e.elts]
    if isinstance(e, ast.Dict) and all(isinstance(x, ast.Constant) for x in e.keys):
        return [x.value for x in e.keys]
    return None


def _site_feasible(callee: FunctionInfo, site: ast.AST, call: ast.Call) -> bool:
    """Can ``site`` inside ``callee`` execute for the arguments of ``call``?  Guards that do not depend on
    parameters are taken as satisfiable (document-controlled); parameter guards must be evaluable."""
    cfg = get_cfg(callee)
    facts = cfg.guards(cfg.stmt_of(site))
    params = set(callee.params) - {"self", "cls"}
    eq_consts: dict[str, object] = {}
    for t, pol in facts:
        if pol and isinstance(t, ast.Compare) and len(t.ops) == 1 and isinstance(t.ops[0], ast.Eq) and isinstance(t.left, ast.Name) and isinstance(t.comparators[0], ast.Constant):
            eq_consts[t.left.id] = t.comparators[0].value
    for t, pol in facts:
        used = {n.id for n in ast.walk(t) if isinstance(n, ast.Name)} & params
        if not used:
            continue
        if isinstance(t, ast.Name):
            arg = _arg_for(callee, call, t.id)
            if _bindings(callee, t.id):
                raise Unsupported(f"parameter {t.id} of {callee.qualname} is reassigned and guards {short(site, 40)}")
            if isinstance(arg, ast.Constant):
                if bool(arg.value) != pol:
                    return False
                continue
            raise Unsupported(f"guard `{t.id}` of {short(site, 40)} in {callee.qualname}: argument {short(arg, 30) if arg is not _NOARG else '<none>'} is not a constant")
        if isinstance(t, ast.Compare) and len(t.ops) == 1 and isinstance(t.ops[0], (ast.In, ast.NotIn)) and isinstance(t.comparators[0], ast.Name) and t.comparators[0].id in params:
            p = t.comparators[0].id
            arg = _arg_for(callee, call, p)
            rebinds = _bindings(callee, p)
            if rebinds:
                # only `if p is None: p = <literal>` is understood
                ok = all(v is not None and _literal_container(v) is not None for _, v, _ in rebinds)
                if not ok:
                    raise Unsupported(f"parameter {p} of {callee.qualname} is reassigned in an unknown way")
                if arg is _NOARG or (isinstance(arg, ast.Constant) and arg.value is None):
                    arg = rebinds[0][1]
            if arg is _NOARG:
                raise Unsupported(f"no argument for {p} at {short(call, 50)}")
            cont = _literal_container(arg)
            if cont is None:
                raise Unsupported(f"guard `{short(t, 40)}` in {callee.qualname}: argument `{short(arg, 40)}` is not a literal container")
            if isinstance(t.left, ast.Name) and t.left.id in eq_consts:
                member = eq_consts[t.left.id] in cont
            elif not cont:
                member = False
            else:
                continue  # some document-controlled key may or may not be a member: satisfiable
            truth = member if isinstance(t.ops[0], ast.In) else not member
            if truth != pol:
                return False
            continue
        if isinstance(t, ast.Compare) and len(t.ops) == 1 and isinstance(t.ops[0], (ast.Is, ast.IsNot)) and isinstance(t.left, ast.Name) and t.left.id in params and isinstance(t.comparators[0], ast.Constant) and t.comparators[0].value is None:
            if any(v is not None for _, v, _ in _bindings(callee, t.left.id)):
                continue  # `if p is None: p = {}` normalisation; both outcomes possible before it
            arg = _arg_for(callee, call, t.left.id)
            if isinstance(arg, ast.Constant):
                is_none = arg.value is None
                truth = is_none if isinstance(t.ops[0], ast.Is) else not is_none
                if truth != pol:
                    return False
                continue
            if isinstance(arg, ast.Call) and isinstance(t.ops[0], ast.IsNot) == pol:
                continue
            raise Unsupported(f"guard `{short(t, 40)}` in {callee.qualname} cannot be evaluated for `{short(arg, 30) if arg is not _NOARG else '<none>'}`")
        # any other guard: satisfiable when every parameter it reads is bound to a run-time value at the call
        for pn in sorted(used):
            arg = _arg_for(callee, call, pn)
            if arg is _NOARG or isinstance(arg, ast.Constant) or _literal_container(arg) is not None:
                raise Unsupported(f"parameter-dependent guard `{short(t, 50)}` in {callee.qualname} is outside the understood forms")
    return True


def _between(cfg, a, b) -> set:
    """CFG nodes on some path a -> b (both excluded)."""
    fwd = cfg.reachable_from(a)
    back = set()
    work = [b]
    while work:
        n = work.pop()
        if n in back:
            continue
        back.add(n)
        work.extend(cfg.pred.get(n, []))
    return (fwd & back) - {a, b}


def _header_exprs(st) -> list[ast.AST]:
    """The part of a CFG statement node that executes at that node."""
    if isinstance(st, (ast.If, ast.While)):
        return [st.test]
    if isinstance(st, ast.For):
        return [st.iter, st.target]
    if isinstance(st, ast.With):
        return list(st.items)
    if isinstance(st, ast.Try):
        return []
    if isinstance(st, (ast.FunctionDef, ast.AsyncFunctionDef, ast.ClassDef)):
        return []
    return [st] if isinstance(st, ast.AST) else []


def _stores_to(st, text: str) -> bool:
    for h in _header_exprs(st):
        for n in ast.walk(h):
            if isinstance(n, (ast.Attribute, ast.Name, ast.Subscript)) and isinstance(getattr(n, "ctx", None), (ast.Store, ast.Del)) and unparse(n) == text:
                return True
    return False


# ---------------------------------------------------------------------------
# R1 structural-node guard


def _current_node_writers(corpus: Corpus) -> set[str]:
    """fq of every function from which a store to ``<x>.current_node`` is reachable."""

    def compute():
        g = get_callgraph(corpus)
        direct = set()
        for fi in corpus.all_functions():
            if fi.is_lambda:
                continue
            for n in fi.local_nodes():
                if isinstance(n, ast.Attribute) and n.attr == "current_node" and isinstance(n.ctx, ast.Store):
                    direct.add(fi.fq)
        out = set(direct)
        for fi in corpus.all_functions():
            if fi.is_lambda or fi.fq in out:
                continue
            if set(g.reachable([fi])) & direct:
                out.add(fi.fq)
        return out

    return corpus.cache("c03-current-node-writers", compute)


_FLIP = {ast.NotIn: ast.In, ast.NotEq: ast.Eq, ast.IsNot: ast.Is}


def _flip_compare(t: ast.expr) -> ast.expr | None:
    """`a not in b` / `a != b` / `a is not b` being false is `a in b` / `a == b` / `a is b` being true."""
    if isinstance(t, ast.Compare) and len(t.ops) == 1 and type(t.ops[0]) in _FLIP:
        new = ast.Compare(left=t.left, ops=[_FLIP[type(t.ops[0])]()], comparators=t.comparators)
        return ast.copy_location(new, t)
    return None


def _structural_test(t: ast.expr, fi: FunctionInfo, recv: str, depth: int = 0) -> str:
    """'yes' if ``t`` being true implies recv is a document/section; 'no' if it says nothing of the kind;
    'unknown' if it mentions the receiver in a form that is not understood."""
    if isinstance(t, ast.Call) and dotted(t.func) == "isinstance" and len(t.args) == 2 and unparse(t.args[0]) == recv:
        ts = _type_set(t.args[1], fi)
        if ts is None:
            return "unknown"
        return "yes" if ts <= STRUCT_PARENTS else "no"
    if isinstance(t, ast.Compare) and len(t.ops) == 1 and isinstance(t.ops[0], (ast.Is, ast.Eq)):
        sides = {unparse(t.left), unparse(t.comparators[0])}
        if recv in sides and "self.document" in sides:
            return "yes"
    if isinstance(t, ast.Compare) and len(t.ops) == 1 and unparse(t.left) == f"{recv}.tagname" and isinstance(t.ops[0], (ast.In, ast.Eq)):
        # docutils: tagname is the class name
        c = t.comparators[0]
        vals = _literal_container(c) if isinstance(t.ops[0], ast.In) else ([c.value] if isinstance(c, ast.Constant) else None)
        if vals is None:
            return "unknown"
        return "yes" if set(vals) <= {"document", "section"} else "no"
    if isinstance(t, ast.BoolOp) and isinstance(t.op, ast.And):
        rs = [_structural_test(v, fi, recv, depth) for v in t.values]
        if "yes" in rs:
            return "yes"
        return "unknown" if "unknown" in rs else "no"
    if isinstance(t, ast.BoolOp) and isinstance(t.op, ast.Or):
        rs = [_structural_test(v, fi, recv, depth) for v in t.values]
        if all(r == "yes" for r in rs):
            return "yes"
        return "unknown" if "unknown" in rs else "no"
    if isinstance(t, ast.Name) and depth < 3:
        v = _single_value(fi, t.id)
        if v is not None:
            return _structural_test(v, fi, recv, depth + 1)
        return "no" if not _bindings(fi, t.id) else "unknown"
    if isinstance(t, ast.Call) and recv.startswith("self.") and isinstance(t.func, ast.Attribute) and unparse(t.func.value) == "self" and fi.cls is not None and depth < 3:
        body = _helper_predicate(fi, t)
        if body is not None:
            callee, expr = body
            if expr is None:
                return "unknown" if _has_text(recv, unparse(callee.node)) else "no"
            return _structural_test(expr, callee, recv, depth + 1)
    if _has_text(recv, unparse(t)) and any(isinstance(c, ast.Call) for c in ast.walk(t)):
        # some other call on the receiver (type(x), helper(x)): not understood
        calls = [c for c in ast.walk(t) if isinstance(c, ast.Call) and _has_text(recv, unparse(c)) and dotted(c.func) != "isinstance"]
        if calls:
            return "unknown"
    return "no"


def _helper_predicate(fi: FunctionInfo, call: ast.Call):
    """(callee, returned expression | None) for ``self.helper(...)`` resolved inside the class hierarchy."""
    c = module_corpus(fi)
    if c is None or fi.cls is None:
        return None
    cands = [m for ci in [fi.cls] + c.subclasses(fi.cls) + c.mro(fi.cls) for m in [ci.methods.get(call.func.attr)] if m is not None]
    if not cands:
        return None
    callee = cands[0]
    body = [s_ for s_ in callee.node.body if not (isinstance(s_, ast.Expr) and isinstance(s_.value, ast.Constant))]
    if len(body) == 1 and isinstance(body[0], ast.Return) and body[0].value is not None and not call.args and not call.keywords:
        return callee, body[0].value
    return callee, None


_CORPUS_OF: dict[int, Corpus] = {}


def module_corpus(fi: FunctionInfo) -> Corpus | None:
    return _CORPUS_OF.get(id(fi.module))


def _has_text(recv: str, text: str) -> bool:
    import re

    return re.search(r"(?<![\w.])" + re.escape(recv) + r"(?!\w)", text) is not None


def _about(t: ast.expr, recv: str) -> bool:
    """Does the test read the node ``recv`` itself (its type/identity), not merely one of its attributes such as
    `.children` / `.parent` (which say nothing about what kind of node it is)?"""
    for n in ast.walk(t):
        if isinstance(n, (ast.Attribute, ast.Name, ast.Subscript)) and unparse(n) == recv:
            p_ = parent(n)
            if isinstance(p_, ast.Attribute) and p_.value is n and p_.attr not in ("tagname", "__class__"):
                continue
            if isinstance(p_, ast.Subscript) and p_.value is n:
                continue
            return True
    return False


def _mentions(t: ast.expr, fi: FunctionInfo, recv: str, depth: int = 0) -> bool:
    if _has_text(recv, unparse(t)):
        return _about(t, recv)
    for c in ast.walk(t):
        if isinstance(c, ast.Call) and isinstance(c.func, ast.Attribute) and unparse(c.func.value) == "self" and recv.startswith("self."):
            hp = _helper_predicate(fi, c)
            if hp is not None and _has_text(recv, unparse(hp[0].node)):
                return True
    if depth < 3:
        for n in ast.walk(t):
            if isinstance(n, ast.Name):
                v = _single_value(fi, n.id)
                if v is not None and _mentions(v, fi, recv, depth + 1):
                    return True
    return False


def _guard_status(corpus: Corpus, fi: FunctionInfo, at: ast.AST, recv: str) -> tuple[str, str]:
    """('ok'|'none'|'weak'|'unknown'|'stale', detail) for a dominating document/section test on ``recv``."""
    for m_ in corpus.modules.values():
        _CORPUS_OF[id(m_)] = corpus
    cfg = get_cfg(fi)
    st = cfg.stmt_of(at)
    g = get_callgraph(corpus)
    weak = unknown = None
    for d in cfg.dom().get(st, set()):
        if not (isinstance(d, tuple) and d[0] in ("T", "F") and isinstance(d[1], (ast.If, ast.While))):
            continue
        from ..flow import facts

        for t, pol in facts(d[1].test, d[0] == "T"):
            if not _mentions(t, fi, recv):
                continue
            if not pol:
                flipped = _flip_compare(t)
                if flipped is None:
                    unknown = unknown or f"negated test `{short(t, 60)}`"
                    continue
                t = flipped
            r = _structural_test(t, fi, recv)
            if r == "yes":
                # the guard must still describe the receiver at the attach site
                for n in _between(cfg, d, st):
                    if not isinstance(n, ast.AST):
                        continue
                    if _stores_to(n, recv):
                        return "stale", f"`{recv}` is reassigned between the test and the attach site"
                    if recv.endswith(".current_node"):
                        for h in _header_exprs(n):
                            for c in ast.walk(h):
                                if isinstance(c, ast.Call):
                                    for tg in g.resolve_call(c, fi):
                                        if isinstance(tg, FunctionInfo) and tg.fq in _current_node_writers(corpus) and tg.name != "current_node_context":
                                            return "stale", f"`{short(c, 50)}` between the test and the attach site may rebind current_node"
                return "ok", f"dominated by `{short(t, 70)}`"
            if r == "no":
                weak = weak or f"`{short(t, 70)}` holds for parents that are neither document nor section"
            else:
                unknown = unknown or f"test `{short(t, 60)}`"
    if unknown:
        return "unknown", unknown
    if weak:
        return "weak", weak
    return "none", ""


class _LevelMap:
    """Writers of the heading level map ``self.<attr>``: every stored value must be document/section."""

    def __init__(self, corpus: Corpus, attr: str):
        self.c = corpus
        self.attr = attr
        self.g = get_callgraph(corpus)
        self.results: list[tuple[str, str, str, str]] = []  # (status, key, site, what)
        self._run()

    def _is_map(self, e: ast.AST) -> bool:
        return isinstance(e, ast.Attribute) and e.attr == self.attr

    def _run(self):
        for fi in self.c.all_functions():
            if fi.is_lambda:
                continue
            for n in fi.local_nodes():
                val = kind = None
                if isinstance(n, (ast.Assign, ast.AnnAssign)):
                    tgts = n.targets if isinstance(n, ast.Assign) else [n.target]
                    if n.value is None:
                        continue
                    for t in tgts:
                        if self._is_map(t):
                            val, kind = n.value, "map"
                        elif isinstance(t, ast.Subscript) and self._is_map(t.value):
                            val, kind = n.value, "item"
                elif isinstance(n, ast.Call) and isinstance(n.func, ast.Attribute) and self._is_map(n.func.value) and n.func.attr in ("update", "setdefault", "__setitem__"):
                    raise Unsupported(f"{fi.qualname}: `{short(n, 60)}` mutates the level map in an unmodelled way")
                if kind is None:
                    continue
                # keyed by the class that owns the map, not by the (helper / nested) function the store sits in
                owner = fi
                while owner.cls is None and owner.parent_func is not None:
                    owner = owner.parent_func
                where = owner.cls.fq if owner.cls is not None else fi.fq
                key = f"{where}|store into {self.attr}|{short(n, 90)}"
                site = fi.module.site(n)
                try:
                    k, why = self.kind(val, fi, 0)
                except Unsupported as e:
                    self.results.append(("error", key, site, str(e)))
                    continue
                want = {"map"} if kind == "map" else {"doc", "sec"}
                if k in want:
                    self.results.append(("ok", key, site, why))
                elif k == "other":
                    self.results.append(("violation", key, site, f"the level map receives {why}: a later heading appends its section to that node"))
                else:
                    self.results.append(("error", key, site, f"value of kind {k} stored as {kind}"))

    def kind(self, e: ast.expr, fi: FunctionInfo, depth: int) -> tuple[str, str]:
        if depth > 6:
            raise Unsupported("level-map value chain too deep")
        if unparse(e) == "self.document":
            return "doc", "self.document"
        c = _ctor_class(fi, e)
        if c == N_SEC:
            return "sec", "nodes.section()"
        if c == N_DOC:
            return "doc", "nodes.document()"
        if c and c.startswith("docutils.nodes.") and isinstance(e, ast.Call) and c.rsplit(".", 1)[1] not in ("fully_normalize_name", "whitespace_normalize_name", "make_id", "dupname", "unescape"):
            return "other", f"a nodes.{c.rsplit('.', 1)[1]} node"
        if isinstance(e, ast.Dict) and all(k_ is not None for k_ in e.keys):
            for v in e.values:
                k, why = self.kind(v, fi, depth + 1)
                if k not in ("doc", "sec"):
                    return (k, why) if k == "other" else ("unknown", why)
            return "map", "dict literal of document/section values"
        if isinstance(e, ast.DictComp) and len(e.generators) == 1:
            gen = e.generators[0]
            it = gen.iter
            if isinstance(it, ast.Call) and isinstance(it.func, ast.Attribute) and it.func.attr == "items" and self._is_map(it.func.value) and isinstance(gen.target, ast.Tuple) and len(gen.target.elts) == 2 and unparse(e.value) == unparse(gen.target.elts[1]):
                return "map", "filtered copy of the level map"
            # {k: <expr using the map's own elements> for k, v in map.items()}
            if isinstance(it, ast.Call) and isinstance(it.func, ast.Attribute) and it.func.attr == "items" and self._is_map(it.func.value) and isinstance(gen.target, ast.Tuple) and len(gen.target.elts) == 2 and isinstance(gen.target.elts[1], ast.Name):
                elem = gen.target.elts[1].id

                def val_kind(x: ast.expr) -> tuple[str, str]:
                    if isinstance(x, ast.Name) and x.id == elem:
                        return "sec", "an element of the level map"
                    if isinstance(x, ast.IfExp):
                        a, b = val_kind(x.body), val_kind(x.orelse)
                        for k_ in (a, b):
                            if k_[0] == "other":
                                return k_
                        if a[0] == "none" or b[0] == "none":
                            return b if a[0] == "none" else a
                        return a
                    if any(isinstance(y, ast.Name) and y.id == elem for y in ast.walk(x)):
                        raise Unsupported(f"value `{short(x, 50)}` computed from a level-map element is not understood")
                    return self.kind(x, fi, depth + 1)

                k, why = val_kind(e.value)
                if k in ("doc", "sec"):
                    return "map", f"level-map elements / {why}"
                if k == "other":
                    return "other", why
            # {key: <value> for ...}: every value is what the value expression evaluates to
            bound = {x.id for x in ast.walk(gen.target) if isinstance(x, ast.Name)}
            if not ({x.id for x in ast.walk(e.value) if isinstance(x, ast.Name)} & bound):
                k, why = self.kind(e.value, fi, depth + 1)
                if k in ("doc", "sec"):
                    return "map", f"dict comprehension whose every value is {why}"
                if k == "other":
                    return "other", why
            raise Unsupported(f"dict comprehension `{short(e, 60)}` over something other than the level map's items")
        if isinstance(e, ast.Call) and dotted(e.func) == "dict.fromkeys" and len(e.args) == 2:
            k, why = self.kind(e.args[1], fi, depth + 1)
            if k in ("doc", "sec"):
                return "map", f"dict.fromkeys(..., {why})"
            if k == "other":
                return "other", why
            raise Unsupported(f"value `{short(e.args[1], 40)}` of dict.fromkeys stored in the level map is not understood")
        if isinstance(e, ast.Dict) and any(k_ is None for k_ in e.keys):
            # {**map, level: value}
            for k_, v in zip(e.keys, e.values):
                kk, why = self.kind(v, fi, depth + 1)
                if kk == "other":
                    return kk, why
                if (k_ is None and kk != "map") or (k_ is not None and kk not in ("doc", "sec")):
                    raise Unsupported(f"dict display `{short(e, 60)}` stored in the level map is not understood")
            return "map", "dict display of level-map / document / section values"
        if isinstance(e, ast.Call):
            f = e.func
            if dotted(f) == "dict" and len(e.args) == 1:
                a = e.args[0]
                if self._is_map(a) or (isinstance(a, ast.Call) and isinstance(a.func, ast.Attribute) and a.func.attr == "items" and self._is_map(a.func.value)):
                    return "map", "copy of the level map"
            if isinstance(f, ast.Attribute) and f.attr == "copy" and self._is_map(f.value):
                return "map", "copy of the level map"
            raise Unsupported(f"value `{short(e, 60)}` stored in the level map is not understood")
        if self._is_map(e):
            return "map", "the level map itself"
        if isinstance(e, ast.Constant) and e.value is None:
            return "none", "None"
        if isinstance(e, ast.IfExp):
            a, b = self.kind(e.body, fi, depth + 1), self.kind(e.orelse, fi, depth + 1)
            for k in (a, b):
                if k[0] == "other":
                    return k
            if a[0] == "none" or b[0] == "none":
                return b if a[0] == "none" else a
            return a if a[0] == b[0] else ("unknown", "branches differ")
        if isinstance(e, ast.Name):
            owner = _owner_of_name(fi, e.id)
            if owner is None:
                raise Unsupported(f"name {e.id} in {fi.qualname} has no visible binding")
            if e.id in owner.params:
                return self._param_kind(owner, e.id, depth)
            kinds = []
            for st, v, idx in _bindings(owner, e.id):
                if isinstance(st, ast.AugAssign):
                    continue  # `x += child` on a node adds a child, it does not rebind
                if v is None or idx is not None:
                    raise Unsupported(f"binding of {e.id} in {owner.qualname} is not a plain assignment")
                kinds.append(self.kind(v, owner, depth + 1))
            for k in kinds:
                if k[0] == "other":
                    return k
            if len({k[0] for k in kinds}) == 1:
                return kinds[0]
            raise Unsupported(f"{e.id} has bindings of different kinds")
        raise Unsupported(f"value `{short(e, 60)}` stored in the level map is not understood")

    def _param_kind(self, owner: FunctionInfo, pname: str, depth: int) -> tuple[str, str]:
        callers = self.g.callers().get(owner.fq, [])
        kinds = []
        for cfi, call in callers:
            arg = _arg_for(owner, call, pname)
            if arg is _NOARG or (isinstance(arg, ast.Constant) and arg.value is None):
                continue
            kd = self.kind(arg, cfi, depth + 1)
            if kd[0] != "none":
                kinds.append(kd)
        for k in kinds:
            if k[0] == "other":
                return k
        if kinds and len({k[0] for k in kinds}) == 1:
            return kinds[0][0], f"parameter {pname}: every caller passes {kinds[0][1]}"
        if kinds:
            raise Unsupported(f"callers of {owner.qualname} pass values of different kinds for {pname}")
        # boundary (public/mock API called from outside the package): the declared type decides
        ann = None
        a = owner.node.args
        for x in a.posonlyargs + a.args + a.kwonlyargs:
            if x.arg == pname:
                ann = x.annotation
        if ann is None:
            raise Unsupported(f"parameter {pname} of {owner.qualname} has no caller in the package and no annotation")
        if isinstance(ann, ast.Constant) and isinstance(ann.value, str):
            ann = ast.parse(ann.value, mode="eval").body
        ts = _type_set(ann, owner)
        if ts is None:
            raise Unsupported(f"annotation `{unparse(ann)}` of {owner.qualname}({pname}) not understood")
        ts = ts - {"None"}
        if ts <= {N_SEC}:
            return "sec", f"parameter {pname}: nodes.section (declared)"
        if ts <= {N_DOC}:
            return "doc", f"parameter {pname}: nodes.document (declared)"
        return "other", f"`{pname}` of {owner.qualname}, declared `{unparse(ann)}` and supplied from outside the package (any element)"


def _level_map(corpus: Corpus, attr: str) -> _LevelMap:
    return corpus.cache(("c03-levelmap", attr), lambda: _LevelMap(corpus, attr))


def _returns_param(f: FunctionInfo, pname: str) -> bool:
    """May the function return the object passed as ``pname`` (directly or as a branch of a conditional expression)?"""
    if f.is_lambda:
        return False
    for r in f.local_nodes():
        if isinstance(r, ast.Return) and r.value is not None:
            v = r.value
            cands = [v] if isinstance(v, ast.Name) else ([v.body, v.orelse] if isinstance(v, ast.IfExp) else [])
            if any(isinstance(c, ast.Name) and c.id == pname for c in cands) and not _bindings(f, pname):
                return True
    return False


def _may_be(corpus: Corpus, fi: FunctionInfo, e: ast.expr, name: str, depth: int = 0) -> bool:
    """May the expression evaluate to the object held in local/parameter ``name``?"""
    if isinstance(e, ast.Name):
        return e.id == name and not _shadowed(e)
    if isinstance(e, ast.IfExp):
        return _may_be(corpus, fi, e.body, name, depth) or _may_be(corpus, fi, e.orelse, name, depth)
    if isinstance(e, ast.Call) and depth < 3:
        for t in get_callgraph(corpus).resolve_call(e, fi):
            if isinstance(t, FunctionInfo) and not t.is_lambda:
                for a in list(e.args) + [k.value for k in e.keywords]:
                    if _may_be(corpus, fi, a, name, depth + 1):
                        pn = _param_of(t, e, a)
                        if pn and _returns_param(t, pn):
                            return True
    return False


class _StructTrace:
    """Follow a freshly constructed structural node to every site that attaches it."""

    def __init__(self, corpus: Corpus, rep: Report, what: str):
        self.c = corpus
        self.rep = rep
        self.g = get_callgraph(corpus)
        self.what = what  # 'section' / 'transition'
        self.n_attach = 0
        self.maps: set[str] = set()

    def trace(self, fi: FunctionInfo, name: str, via: list[tuple[FunctionInfo, ast.Call]], depth: int = 0):
        if depth > 4:
            raise Unsupported(f"{self.what} passed through more than 4 helpers")
        self.rep.saw_function(fi.fq)
        handled = set()
        for node, recv, vals, how in _attach_events(fi):
            for v in vals:
                if isinstance(v, ast.Name) and v.id == name:
                    handled.add(id(v))
                    if via and not _site_feasible(fi, node, via[-1][1]):
                        continue
                    self.attach(fi, node, recv, via)
        for u in fi.local_nodes():
            if not (isinstance(u, ast.Name) and u.id == name and isinstance(u.ctx, ast.Load)) or id(u) in handled or _shadowed(u):
                continue
            p = parent(u)
            if isinstance(p, (ast.Attribute, ast.Subscript)) and p.value is u:
                continue
            if isinstance(p, ast.Compare):
                continue
            call = None
            if isinstance(p, ast.keyword):
                call = parent(p)
            elif isinstance(p, ast.Call) and u in p.args:
                call = p
            if call is not None:
                tg = self.g.resolve_call(call, fi)
                pkg = [t for t in tg if isinstance(t, FunctionInfo)]
                if pkg:
                    for t in pkg:
                        pn = _param_of(t, call, u)
                        if pn is None:
                            raise Unsupported(f"cannot map argument {name} of `{short(call, 50)}` to a parameter of {t.qualname}")
                        self.trace(t, pn, via + [(fi, call)], depth + 1)
                        if _returns_param(t, pn):
                            # the helper may hand the node back: follow what the caller does with the result
                            self.value_use(fi, call, name, via, depth + 1)
                    continue
                fname = (dotted(call.func) or unparse(call.func)).rsplit(".", 1)[-1]
                if fname in REGISTRY_CALLS:
                    continue
                raise Unsupported(f"{self.what} `{name}` is passed to `{short(call, 60)}` in {fi.qualname}, whose effect is not modelled")
            if isinstance(p, ast.Dict) and u in p.values:
                # kept in the `details` of a docutils pending node (a note for a later transform): not an attach
                holder = parent(p)
                holder = parent(holder) if isinstance(holder, ast.keyword) else holder
                if isinstance(holder, ast.Call) and _ctor_class(fi, holder) == "docutils.nodes.pending":
                    continue
                raise Unsupported(f"{self.what} `{name}` stored in the dict `{short(p, 50)}` in {fi.qualname}: flow not modelled")
            if isinstance(p, ast.Return) or (isinstance(p, ast.IfExp) and (p.body is u or p.orelse is u) and isinstance(parent(p), ast.Return)):
                if via:
                    continue  # handed back to the caller: judged there (value_use)
                raise Unsupported(f"{self.what} `{name}` is returned by {fi.qualname}, where it was built: flow not modelled")
            if isinstance(p, ast.IfExp) and (p.body is u or p.orelse is u) and isinstance(parent(p), ast.Assign) and parent(p).value is p and all(isinstance(t, ast.Name) for t in parent(p).targets):
                # `alias = node if <cond> else <other>`: the alias may be the node
                for t in parent(p).targets:
                    self.trace(fi, t.id, via, depth + 1)
                continue
            if isinstance(p, ast.Assign) and p.value is u:
                for t in p.targets:
                    tt = unparse(t)
                    if isinstance(t, ast.Attribute) and t.attr == "current_node":
                        continue  # becomes the current node: children are added to it, it is not attached
                    if isinstance(t, ast.Subscript) and isinstance(t.value, ast.Attribute):
                        self.maps.add(t.value.attr)  # stored in a per-level map: judged with the map's writers
                        continue
                    if isinstance(t, ast.Name):
                        self.trace(fi, t.id, via, depth + 1)
                        continue
                    raise Unsupported(f"{self.what} `{name}` stored into `{tt}` in {fi.qualname}")
                continue
            raise Unsupported(f"{self.what} `{name}` used in `{short(p, 60)}` in {fi.qualname}: flow not modelled")

    def value_use(self, fi: FunctionInfo, e: ast.Call, name: str, via, depth: int) -> None:
        """``e`` (a call that may return the traced node) is used in ``fi``: classify that use."""
        if depth > 5:
            raise Unsupported(f"{self.what} handed back through too many helpers")
        for node, recv, vals, how in _attach_events(fi):
            if any(v is e for v in vals):
                self.attach(fi, node, recv, via)
                return
        p = parent(e)
        if isinstance(p, ast.Expr):
            return
        outer = parent(p) if isinstance(p, ast.keyword) else (p if isinstance(p, ast.Call) and (e in p.args) else None)
        if outer is not None:
            pkg = [t for t in self.g.resolve_call(outer, fi) if isinstance(t, FunctionInfo)]
            if pkg:
                for t in pkg:
                    pn = _param_of(t, outer, e)
                    if pn is None:
                        raise Unsupported(f"cannot map `{short(e, 40)}` to a parameter of {t.qualname}")
                    self.trace(t, pn, via + [(fi, outer)], depth + 1)
                return
            fname = (dotted(outer.func) or unparse(outer.func)).rsplit(".", 1)[-1]
            if fname in REGISTRY_CALLS:
                return
            raise Unsupported(f"`{short(e, 40)}` (may be the {self.what} `{name}`) is passed to `{short(outer, 50)}`, whose effect is not modelled")
        if isinstance(p, ast.Assign) and p.value is e and all(isinstance(t, ast.Name) for t in p.targets):
            for t in p.targets:
                self.trace(fi, t.id, via, depth + 1)
            return
        raise Unsupported(f"`{short(e, 40)}` (may be the {self.what} `{name}`) used in `{short(p, 50)}` in {fi.qualname}: flow not modelled")

    def attach(self, fi: FunctionInfo, node: ast.AST, recv: ast.expr, via):
        self.n_attach += 1
        rep = self.rep
        r = recv
        hops = 0
        while isinstance(r, ast.Name) and hops < 4:
            v = _single_value(fi, r.id, ignore_aug=True)  # `x += child` on a node does not rebind x
            if v is None:
                break
            r, hops = v, hops + 1
        text = unparse(r)
        key = f"{fi.fq}|attach {self.what} to {text}"
        site = fi.module.site(node)
        rep.saw_call(site)
        if text == "self.document":
            rep.ok("C03.R1", key, site, "attached to self.document")
            return
        if isinstance(r, ast.Subscript) and isinstance(r.value, ast.Attribute) and unparse(r.value.value) == "self" and isinstance(r.ctx, ast.Load):
            attr = r.value.attr
            self.maps.add(attr)
            rep.ok("C03.R1", key, site, f"receiver is a value of self.{attr}; every writer of that map is judged separately")
            return
        if isinstance(r, ast.Name) and r.id in fi.params:
            raise Unsupported(f"{self.what} attached to parameter `{r.id}` of {fi.qualname}: receiver kind not modelled")
        status, detail = _guard_status(self.c, fi, node, text)
        chain = list(via)
        cur_fi = fi
        cur_node = node
        while status == "none" and chain and text.startswith("self."):
            cfi, call = chain.pop()
            if not (isinstance(call.func, ast.Attribute) and unparse(call.func.value) == "self"):
                break
            cfg = get_cfg(cur_fi)
            if any(isinstance(n, ast.AST) and _stores_to(n, text) for n in _between(cfg, ENTRY, cfg.stmt_of(cur_node))):
                break
            status, detail = _guard_status(self.c, cfi, call, text)
            cur_fi, cur_node = cfi, call
        where = " (reached via " + " <- ".join(f.qualname.split('.')[-1] for f, _ in reversed(via)) + ")" if via else ""
        if status == "ok":
            rep.ok("C03.R1", key, site, detail + where)
        elif status in ("unknown", "stale"):
            rep.error("C03.R1", f"{site} {key}: a test on `{text}` exists but cannot be interpreted ({detail})")
        else:
            consequence = {
                "transition": "docutils' Transitions transform asserts on / relocates a transition whose parent is not a document or section",
                "section": "a section below a body element violates the docutils content model",
            }[self.what]
            rep.violation(
                "C03.R1",
                key,
                site,
                f"nodes.{self.what} is attached to `{text}` with no dominating isinstance(..., document | section) test"
                + (f" ({detail})" if detail else "")
                + where
                + f": {consequence}",
            )


@rule("C03.R1")
def r1_structural_guard(corpus: Corpus, rep: Report, tier: str):
    rep.rule("C03.R1", "nodes.section / nodes.transition are attached only to self.document, to a level-map value (writers store only document/section) or under a dominating isinstance(parent, document|section) test")
    n_ctor = 0
    maps: set[str] = set()
    for fi in corpus.all_functions():
        if fi.is_lambda:
            continue
        for n in fi.local_nodes():
            cls = _ctor_class(fi, n)
            if cls not in (N_SEC, N_TRANS):
                continue
            n_ctor += 1
            what = cls.rsplit(".", 1)[1]
            tr = _StructTrace(corpus, rep, what)
            p = parent(n)
            if isinstance(p, (ast.Assign, ast.AnnAssign)) and p.value is n:
                tgts = p.targets if isinstance(p, ast.Assign) else [p.target]
                if len(tgts) == 1 and isinstance(tgts[0], ast.Name):
                    tr.trace(fi, tgts[0].id, [])
                else:
                    raise Unsupported(f"{what} constructed into `{short(p, 60)}`")
            else:
                ev = [e for e in _attach_events(fi) if any(v is n for v in e[2])]
                if not ev:
                    raise Unsupported(f"{what} constructed inside `{short(p, 60)}` in {fi.qualname}: flow not modelled")
                for node, recv, _, _ in ev:
                    tr.attach(fi, node, recv, [])
            if tr.n_attach == 0:
                rep.error("C03.R1", f"{fi.module.site(n)}: no attach site found for the {what} constructed in {fi.qualname}")
            maps |= tr.maps
    for attr in sorted(maps):
        lm = _level_map(corpus, attr)
        for status, key, site, what in lm.results:
            if status == "ok":
                rep.ok("C03.R1", key, site, what)
            elif status == "violation":
                rep.violation("C03.R1", key, site, what)
            else:
                rep.error("C03.R1", f"{site} {key}: {what}")
    if n_ctor < 3:
        rep.error("C03.R1", f"expected the section and two transition constructions, found {n_ctor}")
    rep.expect_min("C03.R1", 6, "3 attach sites + 4 level-map writers on the pinned tree")



# ---------------------------------------------------------------------------
# may-append summaries (shared by R4 and R6)


def _create_warning_call(call: ast.Call) -> bool:
    return (dotted(call.func) or "").rsplit(".", 1)[-1] == "create_warning"


def _child_events(corpus: Corpus, fi: FunctionInfo, name: str, call_ctx: ast.Call | None = None, depth: int = 0, seen: frozenset = frozenset()) -> list[tuple[ast.AST, str, ast.expr | None]]:
    """Constructs in ``fi`` that can add a child to the node held in local/parameter ``name``:
    (node, description, child expr or None).  With ``call_ctx`` (fi is a callee) infeasible sites are dropped."""
    if depth > 4 or (fi.fq, name) in seen:
        return []
    seen = seen | {(fi.fq, name)}
    g = get_callgraph(corpus)
    out: list[tuple[ast.AST, str, ast.expr | None]] = []

    def add(node, desc, child=None):
        if call_ctx is not None and not _site_feasible(fi, node, call_ctx):
            return
        out.append((node, desc, child))

    for node, recv, vals, how in _attach_events(fi):
        if isinstance(recv, ast.Name) and recv.id == name and how in ("append", "insert", "extend", "+="):
            add(node, f"`{short(node, 60)}`", vals[0] if len(vals) == 1 else None)
    # local aliases: `x = name` / `x = name if cond else other` (x may be the node)
    for n in fi.local_nodes():
        if isinstance(n, ast.Assign) and all(isinstance(t, ast.Name) for t in n.targets):
            v = n.value
            if isinstance(v, (ast.Name, ast.IfExp, ast.Call)) and _may_be(corpus, fi, v, name):
                for t in n.targets:
                    if t.id != name:
                        out.extend(_child_events(corpus, fi, t.id, call_ctx, depth + 1, seen))
    for n in fi.local_nodes():
        if isinstance(n, ast.Assign) and isinstance(n.value, ast.Name) and n.value.id == name and not _shadowed(n.value):
            for t in n.targets:
                if isinstance(t, ast.Attribute) and t.attr == "current_node":
                    add(n, f"`{short(n, 50)}` (what is rendered next becomes its child)")
        if not isinstance(n, ast.Call):
            continue
        uses = [a for a in list(n.args) + [k.value for k in n.keywords] if isinstance(a, ast.Name) and a.id == name and not _shadowed(a)]
        # an argument computed by a helper that may hand the node back (`self._message_node(node)`)
        uses += [a for a in list(n.args) + [k.value for k in n.keywords] if isinstance(a, (ast.Call, ast.IfExp)) and _may_be(corpus, fi, a, name)]
        if not uses:
            continue
        fname = (dotted(n.func) or unparse(n.func)).rsplit(".", 1)[-1]
        if fname in MSGNODE_CALLS:
            idx = MSGNODE_CALLS[fname]
            if len(n.args) > idx and n.args[idx] in uses or any(k.arg == "msgnode" and k.value in uses for k in n.keywords):
                add(n, f"`{short(n, 60)}` (docutils appends a system_message to msgnode when the name is a duplicate)")
            continue
        if _create_warning_call(n):
            a = kwarg(n, "append_to")
            if a is not None and a in uses:
                add(n, f"`{short(n, 50)}` appends the warning node")
            continue
        pkg = [t for t in g.resolve_call(n, fi) if isinstance(t, FunctionInfo)]
        for t in pkg:
            for u in uses:
                pn = _param_of(t, n, u)
                if pn is None:
                    continue
                if call_ctx is not None and not _site_feasible(fi, n, call_ctx):
                    continue
                inner = _child_events(corpus, t, pn, n, depth + 1, seen)
                if inner:
                    out.append((n, f"`{short(n, 70)}` -> {t.qualname}: {inner[0][1]}", None))
    return out


def _first_child_check(corpus: Corpus, fi: FunctionInfo, var: str, ctor_stmt: ast.stmt, is_first, also_ok=lambda st: False):
    """Events that can add a child to ``var`` on a path from its construction that has not passed a statement
    accepted by ``is_first`` (or ``also_ok``).  Returns (first_events, offending_events)."""
    cfg = get_cfg(fi)
    events = _child_events(corpus, fi, var)
    firsts = [(n, d, c) for n, d, c in events if is_first(n, c)]
    first_stmts = {cfg.stmt_of(n) for n, _, _ in firsts}
    bad = []
    for n, d, c in events:
        st = cfg.stmt_of(n)
        if st in first_stmts:
            continue
        if cfg.paths_avoiding(ctor_stmt, st, lambda x: x in first_stmts or (isinstance(x, ast.AST) and also_ok(x))):
            bad.append((n, d))
    return firsts, bad


def _local_ctor(fi: FunctionInfo, e: ast.expr | None) -> str | None:
    """Class constructed by ``e`` (directly or through a singly assigned local)."""
    if isinstance(e, ast.Name):
        e = _single_value(fi, e.id, ignore_aug=True)  # `x += child` on a node does not rebind x
    return _ctor_class(fi, e)


# ---------------------------------------------------------------------------
# R6 section starts with its title


@rule("C03.R6")
def r6_section_title_first(corpus: Corpus, rep: Report, tier: str):
    rep.rule("C03.R6", "on every path the first child a newly constructed section can receive is a nodes.title")
    n = 0
    for fi in corpus.all_functions():
        if fi.is_lambda:
            continue
        for c in fi.local_nodes():
            if _ctor_class(fi, c) != N_SEC:
                continue
            p = parent(c)
            if not (isinstance(p, ast.Assign) and len(p.targets) == 1 and isinstance(p.targets[0], ast.Name)):
                raise Unsupported(f"section constructed into `{short(p, 60)}`")
            var = p.targets[0].id
            n += 1
            rep.saw_function(fi.fq)
            firsts, bad = _first_child_check(corpus, fi, var, p, lambda node, child: child is not None and _local_ctor(fi, child) == "docutils.nodes.title")
            k0 = f"{fi.fq}|new section"
            if not firsts:
                rep.violation("C03.R6", k0 + "|no title", fi.module.site(p), "the section never receives a nodes.title child in the function that builds it")
                continue
            cfg = get_cfg(fi)
            first_stmts = {cfg.stmt_of(x) for x, _, _ in firsts}
            if cfg.paths_avoiding(p, EXIT, lambda x: x in first_stmts):
                rep.violation("C03.R6", k0 + "|title skipped on some path", fi.module.site(p), "a path from the section's construction to the function's exit appends no title")
            else:
                rep.ok("C03.R6", k0 + "|title appended on every path", fi.module.site(firsts[0][0]))
            for node, desc in bad:
                rep.violation(
                    "C03.R6",
                    f"{k0}|child before title|{short(node, 80)}",
                    fi.module.site(node),
                    f"before the title is appended, {desc} can add a child to the new section: the section then starts with that node, not with its title",
                )
            if not bad:
                rep.ok("C03.R6", k0 + "|nothing can precede the title", fi.module.site(p))
    rep.expect_min("C03.R6", 2, "one section construction (render_heading): title-on-every-path + precedence")
    if n < 1:
        rep.error("C03.R6", "no section construction found")


# ---------------------------------------------------------------------------
# R4 footnote shape

FOOTNOTE_REGISTRIES = ("footnotes", "autofootnotes", "symbol_footnotes")


def _dup_test(t: ast.expr, pol: bool, names_src: list[str], needed: set[str], fi: FunctionInfo | None = None, depth: int = 0) -> tuple[str, str]:
    """Is (t, pol) the fact "no footnote with this name is registered yet"?  ('ok'|'weak'|'unknown'|'none', why).
    Accepted forms: `name in document.nameids` (flat name registry) and
    `any(name in fn["names"] [+ fn["dupnames"]] for fn in document.<registry> + ...)` covering ``needed``."""
    if isinstance(t, ast.Compare) and len(t.ops) == 1 and isinstance(t.ops[0], (ast.In, ast.NotIn)) and unparse(t.left) in names_src and unparse(t.comparators[0]).endswith(".nameids"):
        return ("ok", "name not in document.nameids") if pol == isinstance(t.ops[0], ast.NotIn) else ("none", "")
    if isinstance(t, ast.Compare) and len(t.ops) == 1 and isinstance(t.ops[0], (ast.In, ast.NotIn)) and fi is not None:
        # `f(name) in known` / `name in known`, known = {f(n) for fn in <registries> for n in fn["names"] + ...}
        left, norm_l = t.left, None
        if isinstance(left, ast.Call) and len(left.args) == 1 and not left.keywords and unparse(left.args[0]) in names_src:
            left, norm_l = left.args[0], unparse(t.left.func)
        comp = t.comparators[0]
        if isinstance(comp, ast.Name):
            comp = _single_value(fi, comp.id) or comp
        if isinstance(comp, ast.Call) and dotted(comp.func) in ("set", "frozenset", "list", "tuple") and len(comp.args) == 1:
            comp = comp.args[0]
        if unparse(left) in names_src and isinstance(comp, (ast.SetComp, ast.ListComp, ast.GeneratorExp)) and len(comp.generators) == 2 and not any(g_.ifs for g_ in comp.generators):
            g0, g1 = comp.generators
            if isinstance(g0.target, ast.Name) and isinstance(g1.target, ast.Name):
                elt, norm_r = comp.elt, None
                if isinstance(elt, ast.Call) and len(elt.args) == 1 and not elt.keywords:
                    elt, norm_r = elt.args[0], unparse(comp.elt.func)
                looked = {x.slice.value for x in ast.walk(g1.iter) if isinstance(x, ast.Subscript) and isinstance(x.value, ast.Name) and x.value.id == g0.target.id and isinstance(x.slice, ast.Constant)}
                if isinstance(elt, ast.Name) and elt.id == g1.target.id and "names" in looked:
                    if pol != isinstance(t.ops[0], ast.NotIn):
                        return "none", ""
                    it = g0.iter
                    hops = 0
                    while isinstance(it, ast.Name) and hops < 3:
                        v = _single_value(fi, it.id)
                        if v is None:
                            return "unknown", f"`{it.id}` (searched by the duplicate test) is not a singly assigned local"
                        it, hops = v, hops + 1
                    regs = {x.attr for x in ast.walk(it) if isinstance(x, ast.Attribute) and x.attr in FOOTNOTE_REGISTRIES}
                    if norm_l != norm_r:
                        return "weak", f"the duplicate test `{short(t, 60)}` normalises only one side ({norm_l or 'raw name'} vs {norm_r or 'raw names'}): an exact duplicate can be missed"
                    if needed <= regs:
                        return "ok", f"the name{' (normalised by ' + norm_l + ')' if norm_l else ''} is not among the names of the registered footnotes ({', '.join(sorted(regs))})"
                    return "weak", f"the duplicate test only searches document.{'/'.join(sorted(regs)) or '?'} but the footnote is registered in document.{'/'.join(sorted(needed - regs))}"
    if isinstance(t, ast.Call) and dotted(t.func) in ("any", "all") and len(t.args) == 1 and isinstance(t.args[0], (ast.GeneratorExp, ast.ListComp)) and any(nm in unparse(t) for nm in names_src):
        ge = t.args[0]
        if dotted(t.func) != "any" or len(ge.generators) != 1:
            return "unknown", f"`{short(t, 60)}`"
        if pol:
            return "none", ""
        gen = ge.generators[0]
        elt = ge.elt
        if gen.ifs or not isinstance(gen.target, ast.Name):
            return "unknown", f"`{short(t, 60)}`"
        tgt = gen.target.id
        looked = _name_membership(elt, names_src, tgt)
        if looked is None and isinstance(elt, ast.BoolOp) and isinstance(elt.op, ast.And) and any(_name_membership(v, names_src, tgt) is not None for v in elt.values):
            return "weak", f"the duplicate test `{short(t, 60)}` only rejects a footnote with the same name when a further condition holds"
        if looked is None:
            return "unknown", f"`{short(t, 60)}`"
        if "names" not in looked:
            return "weak", f"the duplicate test `{short(t, 60)}` does not look at the registered footnotes' names"
        it = gen.iter
        hops = 0
        while isinstance(it, ast.Name) and fi is not None and hops < 3:
            v = _single_value(fi, it.id)
            if v is None:
                return "unknown", f"`{it.id}` (searched by the duplicate test) is not a singly assigned local"
            it, hops = v, hops + 1
        regs = {x.attr for x in ast.walk(it) if isinstance(x, ast.Attribute) and x.attr in FOOTNOTE_REGISTRIES}
        other = [x for x in ast.walk(it) if isinstance(x, (ast.Call, ast.Subscript, ast.IfExp)) and not (isinstance(x, ast.Call) and dotted(x.func) in ("list", "tuple", "chain", "itertools.chain"))]
        if other:
            return "unknown", f"`{short(gen.iter, 60)}`"
        if needed <= regs:
            return "ok", f"no registered footnote ({', '.join(sorted(regs))}) carries the name"
        return "weak", f"the duplicate test only searches document.{'/'.join(sorted(regs)) or '?'} but the footnote is registered in document.{'/'.join(sorted(needed - regs))}"
    if any(isinstance(x, ast.Attribute) and x.attr == "ids" and "document" in unparse(x.value) for x in ast.walk(t)) and any(isinstance(x, ast.Name) and x.id in names_src for x in ast.walk(t)):
        # the name is looked up in the *id* registry: ids are not an injective image of names
        if pol and not isinstance(t, ast.Compare):
            return "none", ""
        return "weak", (
            f"the duplicate test `{short(t, 60)}` looks the footnote's name up in document.ids: an id is not the name "
            "(make_id folds case and punctuation and is empty for a purely numeric label, and docutils gives another id when that one is taken), "
            "so a footnote with exactly the same name can go unnoticed"
        )
    if isinstance(t, ast.Call) and fi is not None and depth < 2 and isinstance(t.func, ast.Attribute) and unparse(t.func.value) == "self" and any(unparse(a) in names_src for a in t.args):
        # `if self._is_duplicate(name): ... return` - a one-return helper is read through
        hp = _helper_predicate_args(fi, t)
        if hp is None:
            return "unknown", f"helper `{short(t, 50)}`"
        callee, expr, pmap = hp
        inner_names = [pmap[a] for a in names_src if a in pmap]
        return _dup_test(expr, pol, inner_names, needed, callee, depth + 1)
    if any(nm in {n.id for n in ast.walk(t) if isinstance(n, ast.Name)} for nm in names_src) and not pol and isinstance(t, (ast.Call, ast.Compare)) and any(w in unparse(t) for w in ("names", "nameids", "footnote")):
        return "unknown", f"`{short(t, 60)}`"
    return "none", ""


def _helper_predicate_args(fi: FunctionInfo, call: ast.Call):
    """(callee, returned expr, {caller arg text -> callee param}) for a one-return ``self.helper(args)``."""
    c = module_corpus(fi)
    if c is None or fi.cls is None or not isinstance(call.func, ast.Attribute):
        return None
    cands = [m for ci in [fi.cls] + c.subclasses(fi.cls) + c.mro(fi.cls) for m in [ci.methods.get(call.func.attr)] if m is not None]
    if not cands:
        return None
    callee = cands[0]
    body = [s_ for s_ in callee.node.body if not (isinstance(s_, ast.Expr) and isinstance(s_.value, ast.Constant))]
    if not (len(body) == 1 and isinstance(body[0], ast.Return) and body[0].value is not None):
        return None
    pmap = {}
    for a in call.args:
        pn = _param_of(callee, call, a)
        if pn:
            pmap[unparse(a)] = pn
    return callee, body[0].value, pmap


def _name_membership(e: ast.expr, names_src: list[str], tgt: str) -> set | None:
    """Attribute keys of the registered footnote ``tgt`` in which ``e`` searches the new footnote's name, when ``e``
    being false implies the name is in none of them: `name in tgt[k] (+ tgt[k2])`, or a disjunction with at least one
    such membership (further disjuncts only make the test reject more).  None if ``e`` is not of that form."""
    if isinstance(e, ast.Compare) and len(e.ops) == 1 and isinstance(e.ops[0], ast.In) and unparse(e.left) in names_src:
        return {x.slice.value for x in ast.walk(e.comparators[0]) if isinstance(x, ast.Subscript) and isinstance(x.value, ast.Name) and x.value.id == tgt and isinstance(x.slice, ast.Constant)}
    if isinstance(e, ast.BoolOp) and isinstance(e.op, ast.Or):
        parts = [_name_membership(v, names_src, tgt) for v in e.values]
        if any(p is not None for p in parts):
            return set().union(*(p for p in parts if p is not None))
    return None


def _dup_loop(cfg, st, names_src: list[str], needed: set[str]) -> tuple[str, str]:
    """Loop form of the duplicate test: `for fn in <registries>: if name in fn["names"]...: ...; return`
    completed (not left by the return) before ``st`` executes."""
    for d in cfg.dom().get(st, set()):
        if not (isinstance(d, tuple) and d[0] == "F" and isinstance(d[1], ast.For) and isinstance(d[1].target, ast.Name)):
            continue
        lp = d[1]
        tgt = lp.target.id
        for x in ast.walk(lp):
            if isinstance(x, ast.If) and x.body and isinstance(x.body[-1], (ast.Return, ast.Raise)):
                if not any(isinstance(t, ast.Compare) and len(t.ops) == 1 and isinstance(t.ops[0], ast.In) and unparse(t.left) in names_src for t in ast.walk(x.test)):
                    continue
                looked = _name_membership(x.test, names_src, tgt)
                regs = {y.attr for y in ast.walk(lp.iter) if isinstance(y, ast.Attribute) and y.attr in FOOTNOTE_REGISTRIES}
                if looked is not None and "names" in looked and needed <= regs:
                    return "ok", f"loop over document.{'/'.join(sorted(regs))} returns on a footnote with the same name"
                if looked is not None and "names" in looked:
                    return "weak", f"the duplicate loop only searches document.{'/'.join(sorted(regs)) or '?'} but the footnote is registered in document.{'/'.join(sorted(needed - regs))}"
                return "unknown", f"loop test `{short(x.test, 50)}`"
    return "none", ""


def _footnote_movers_read_registries(corpus: Corpus, rep: Report) -> None:
    """docutils resolves footnote references against the document's footnote registries, not against the tree: a
    registered footnote whose definition lay in content a directive parsed and dropped still receives refids.  The
    transform that moves the footnotes to the end of the document is what puts those back into the tree, so it has to
    gather its footnotes from all three registries - a tree walk, or a subset of the registries, leaves references with
    a refid that no element carries."""
    m = corpus.mod("mdit_to_docutils.transforms")
    for fi in m.functions.values():
        if fi.is_lambda:
            continue
        for node, recv, vals, how in _attach_events(fi):
            if how not in ("+=", "append", "extend") or "document" not in unparse(recv):
                continue
            for v in vals:
                if not isinstance(v, ast.Name):
                    continue
                lp = next((a for a in _ancestors(node) if isinstance(a, ast.For) and any(isinstance(x, ast.Name) and x.id == v.id for x in ast.walk(a.target))), None)
                if lp is None:
                    continue
                src, chain = _element_source(fi, lp.iter, 0)
                if src is None:
                    continue
                txt = unparse(src)
                regs = {x.attr for x in ast.walk(src) if isinstance(x, ast.Attribute) and x.attr in FOOTNOTE_REGISTRIES and "document" in unparse(x.value)}
                walks = any(w in txt for w in ("findall(", ".traverse(", ".findall(")) and "footnote" in txt
                if not regs and not walks:
                    continue  # not a collection of footnotes
                rep.saw_function(fi.fq)
                key = f"{fi.fq}|the footnotes moved by `{short(node, 40)}` are gathered from all footnote registries"
                site = fi.module.site(src)
                missing = set(FOOTNOTE_REGISTRIES) - regs
                if walks and not regs:
                    rep.violation("C03.R4", key, site, f"the footnotes are gathered by walking the tree (`{short(src, 50)}`): a registered footnote whose definition was in content a directive dropped is not in the tree, so it is not put back, while docutils has resolved references to it - their refid is the id of no element and no warning says so")
                elif missing:
                    rep.violation("C03.R4", key, site, f"`{short(src, 60)}` leaves out document.{'/'.join(sorted(missing))}: footnotes of that registry are neither moved nor put back when their definition was in dropped content, while references to them are resolved")
                else:
                    rep.ok("C03.R4", key, site, f"gathered from document.{', '.join(sorted(regs))}" + (f" via {chain}" if chain else ""))


def _element_source(fi: FunctionInfo, it: ast.expr, depth: int) -> tuple[ast.expr | None, str]:
    """The expression whose elements end up (possibly wrapped in tuples, sorted, copied) in the iterable ``it``."""
    if depth > 4:
        return None, ""
    if isinstance(it, ast.Call) and dotted(it.func) in ("sorted", "list", "tuple", "reversed", "set") and it.args:
        return _element_source(fi, it.args[0], depth + 1)
    if isinstance(it, ast.Name) and it.id not in fi.params:
        # a list filled in a loop / a comprehension
        fills = [(n, lp_) for lp_ in fi.local_nodes() if isinstance(lp_, ast.For) for n in ast.walk(lp_) if isinstance(n, ast.Call) and isinstance(n.func, ast.Attribute) and n.func.attr in ("append", "extend") and isinstance(n.func.value, ast.Name) and n.func.value.id == it.id]
        if fills:
            lp_ = min((l for _, l in fills), key=lambda l: l.end_lineno - l.lineno)
            inner, ch = _element_source(fi, lp_.iter, depth + 1)
            return inner, f"`{it.id}`" + (f" <- {ch}" if ch else "")
        v = _single_value(fi, it.id)
        if v is not None:
            inner, ch = _element_source(fi, v, depth + 1)
            return inner, f"`{it.id}`" + (f" <- {ch}" if ch else "")
        return None, ""
    if isinstance(it, (ast.ListComp, ast.GeneratorExp)) and it.generators:
        return _element_source(fi, it.generators[0].iter, depth + 1)
    return it, ""


def _registry_writes(corpus: Corpus, rep: Report) -> None:
    """docutils' Footnotes transform labels exactly the members of document.footnotes / autofootnotes /
    symbol_footnotes, and CollectFootnotes moves exactly those: MyST code may reorder a registry, never shrink it."""

    def is_reg(e):
        return isinstance(e, ast.Attribute) and e.attr in FOOTNOTE_REGISTRIES and "document" in unparse(e.value)

    def permutation_of(v: ast.expr, reg_text: str) -> tuple[bool | None, str]:
        if isinstance(v, ast.Call) and dotted(v.func) in ("sorted", "list", "reversed", "tuple") and v.args:
            return permutation_of(v.args[0], reg_text)
        if is_reg(v):
            return (unparse(v) == reg_text, "" if unparse(v) == reg_text else f"built from {unparse(v)}")
        if isinstance(v, (ast.ListComp, ast.GeneratorExp)) and len(v.generators) == 1:
            gen = v.generators[0]
            if gen.ifs:
                return False, f"members are filtered by `{short(gen.ifs[0], 40)}`"
            if unparse(v.elt) != unparse(gen.target):
                return None, f"`{short(v, 50)}`"
            return permutation_of(gen.iter, reg_text)
        if isinstance(v, ast.Subscript) and isinstance(v.slice, ast.Slice):
            return False, f"only the slice `[{unparse(v.slice)}]` is kept"
        if isinstance(v, ast.Call) and dotted(v.func) == "filter":
            return False, "members are filtered"
        if isinstance(v, ast.BinOp) and isinstance(v.op, ast.Add):
            a, b = permutation_of(v.left, reg_text), permutation_of(v.right, reg_text)
            return None, f"`{short(v, 50)}`"
        if isinstance(v, (ast.List, ast.Tuple)) and not v.elts:
            return False, "the registry is emptied"
        return None, f"`{short(v, 50)}`"

    for fi in corpus.all_functions():
        if fi.is_lambda or fi.module.name.endswith("._docs"):
            continue
        for n in fi.local_nodes():
            verdict = None
            if isinstance(n, ast.Call) and isinstance(n.func, ast.Attribute) and is_reg(n.func.value):
                a = n.func.attr
                if a in ("sort", "reverse"):
                    verdict = ("ok", "in-place reordering")
                elif a in ("remove", "pop", "clear"):
                    verdict = ("bad", f"`.{a}()` takes members out of the registry")
                elif a in ("append", "extend", "insert", "__setitem__", "__delitem__"):
                    verdict = ("unknown", f"`.{a}()` on a docutils registry")
            elif isinstance(n, (ast.Assign, ast.AugAssign)):
                tgts = n.targets if isinstance(n, ast.Assign) else [n.target]
                for t in tgts:
                    base = t.value if isinstance(t, ast.Subscript) and isinstance(t.slice, ast.Slice) and t.slice.lower is None and t.slice.upper is None else t
                    if is_reg(base) and isinstance(n, ast.Assign):
                        ok, why = permutation_of(n.value, unparse(base))
                        verdict = ("ok", "reordered copy of the same registry") if ok else (("bad", why) if ok is False else ("unknown", why))
                    elif is_reg(base) or (isinstance(t, ast.Subscript) and is_reg(t.value)):
                        verdict = ("unknown", f"`{short(n, 50)}`")
            elif isinstance(n, ast.Delete):
                for t in n.targets:
                    if (isinstance(t, ast.Subscript) and is_reg(t.value)) or is_reg(t):
                        verdict = ("bad", "members are deleted from the registry")
            if verdict is None:
                continue
            rep.saw_function(fi.fq)
            key = f"{fi.fq}|footnote registry keeps every member|{short(n, 70)}"
            site = fi.module.site(n)
            if verdict[0] == "ok":
                rep.ok("C03.R4", key, site, verdict[1])
            elif verdict[0] == "bad":
                rep.violation("C03.R4", key, site, f"{verdict[1]}: a footnote that leaves the registry but stays in the tree never gets its label from docutils' Footnotes transform and is not collected")
            else:
                rep.error("C03.R4", f"{site} {key}: write to a docutils footnote registry not understood ({verdict[1]})")



@rule("C03.R4")
def r4_footnote_shape(corpus: Corpus, rep: Report, tier: str):
    rep.rule("C03.R4", "manual footnote: label is the first child; auto footnote: note_autofootnote instead (docutils inserts the label); never both; footnote registries are only reordered, never shrunk (the not-a-duplicate test is listed as evidence only: C11.R6)")
    n = 0
    for fi in corpus.all_functions():
        if fi.is_lambda:
            continue
        for c in fi.local_nodes():
            if _ctor_class(fi, c) != "docutils.nodes.footnote":
                continue
            p = parent(c)
            if not (isinstance(p, ast.Assign) and len(p.targets) == 1 and isinstance(p.targets[0], ast.Name)):
                raise Unsupported(f"footnote constructed into `{short(p, 60)}`")
            var = p.targets[0].id
            n += 1
            rep.saw_function(fi.fq)
            cfg = get_cfg(fi)
            site = fi.module.site(p)
            k0 = f"{fi.fq}|new footnote"

            def reg_calls(names):
                return [x for x in fi.local_nodes() if isinstance(x, ast.Call) and isinstance(x.func, ast.Attribute) and x.func.attr in names and any(isinstance(a, ast.Name) and a.id == var for a in x.args)]

            autos = reg_calls({"note_autofootnote"})
            manuals = reg_calls({"note_footnote", "note_symbol_footnote"})
            auto_stmts = {cfg.stmt_of(x) for x in autos}
            firsts, bad = _first_child_check(
                corpus, fi, var, p,
                lambda node, child: child is not None and _local_ctor(fi, child) == "docutils.nodes.label",
                also_ok=lambda st: st in auto_stmts,
            )
            label_stmts = {cfg.stmt_of(x) for x, _, _ in firsts}
            for node, desc in bad:
                rep.violation("C03.R4", f"{k0}|child before label|{short(node, 80)}", fi.module.site(node), f"{desc} can add a child to the footnote on a path that has neither appended its label nor registered it as auto-numbered: the footnote does not start with its label")
            if not bad:
                rep.ok("C03.R4", f"{k0}|label or auto registration precedes every child", site)
            # exactly one of {label, auto registration} per path up to the point where content is rendered
            events = _child_events(corpus, fi, var)
            content = [cfg.stmt_of(x) for x, _, _ in events if cfg.stmt_of(x) not in label_stmts]
            weight = lambda x: (1 if x in label_stmts else 0) + (1 if x in auto_stmts else 0)
            for st in sorted(set(content), key=lambda s: s.lineno):
                got = cfg.counts(p, [st], weight).get(st, set())
                kk = f"{k0}|label xor auto before `{short(st, 50)}`"
                if got and got <= {1}:
                    rep.ok("C03.R4", kk, fi.module.site(st))
                elif 2 in got:
                    rep.violation("C03.R4", kk, fi.module.site(st), "some path both appends a label and registers the footnote as auto-numbered: docutils inserts a second label")
                elif got:
                    rep.violation("C03.R4", kk, fi.module.site(st), "some path reaches the footnote's content with neither a label nor an auto registration")
            # the manual registration goes with the label, the auto one without
            for m in manuals:
                st = cfg.stmt_of(m)
                got = cfg.counts(p, [st], lambda x: 1 if x in label_stmts else 0).get(st, set())
                kk = f"{k0}|manual registration has its label|{short(m, 50)}"
                (rep.ok if got <= {1} and got else rep.violation)("C03.R4", kk, fi.module.site(m), *([] if got <= {1} and got else ["note_footnote is reached on a path that did not append the label first"]))
            # label text is the footnote's own name
            names_src = [unparse(x.args[0]) for x in fi.local_nodes() if isinstance(x, ast.Call) and isinstance(x.func, ast.Attribute) and x.func.attr == "append" and unparse(x.func.value) == f"{var}['names']" and x.args]
            for node, _, child in firsts:
                cv = child if not isinstance(child, ast.Name) else _single_value(fi, child.id)
                txt = unparse(cv.args[1]) if isinstance(cv, ast.Call) and len(cv.args) > 1 else None
                kk = f"{k0}|label text is the footnote's name"
                if txt is not None and txt in names_src:
                    rep.ok("C03.R4", kk, fi.module.site(node))
                else:
                    rep.violation("C03.R4", kk, fi.module.site(node), f"label text `{txt}` is not the value appended to {var}['names'] ({names_src})")
            # duplicate test dominates every registry call
            regs = [x for x in fi.local_nodes() if isinstance(x, ast.Call) and isinstance(x.func, ast.Attribute) and x.func.attr.startswith("note_") and any(isinstance(a, ast.Name) and a.id == var for a in x.args)]
            if not regs or not (autos and manuals):
                rep.error("C03.R4", f"{site}: expected note_footnote / note_autofootnote / note_explicit_target calls on `{var}`")
            reg_of = {"note_footnote": "footnotes", "note_autofootnote": "autofootnotes", "note_symbol_footnote": "symbol_footnotes"}
            all_needed = {reg_of[x.func.attr] for x in regs if x.func.attr in reg_of}
            for x in regs:
                needed = {reg_of[x.func.attr]} if x.func.attr in reg_of else all_needed
                kk = f"{k0}|not-a-duplicate test dominates `{short(x, 50)}`"
                verdict, why = "none", ""
                for m_ in corpus.modules.values():
                    _CORPUS_OF[id(m_)] = corpus
                for t, pol in list(cfg.guards(cfg.stmt_of(x))) + [(None, False)]:
                    v, w = _dup_test(t, pol, names_src, needed, fi) if t is not None else _dup_loop(cfg, cfg.stmt_of(x), names_src, needed)
                    if v == "ok":
                        verdict, why = v, w
                        break
                    if v == "unknown" or (v == "weak" and verdict == "none"):
                        verdict, why = v, w
                # Evidence only (not judged): whether a duplicate definition is recognised is C11.R6's subject.  A duplicate
                # that slips through is still a well-formed tree: docutils moves both names to dupnames, gives the second
                # footnote a fresh id and reports the references (reproduced against the real code with the test removed).
                note = {"ok": why, "none": "no dominating not-a-duplicate test on the name", "weak": why, "unknown": f"not understood ({why})"}[verdict]
                rep.listed("C03.R4", kk, fi.module.site(x), note[:200])
    if n < 1:
        rep.error("C03.R4", "no footnote construction found")
    _registry_writes(corpus, rep)
    _footnote_movers_read_registries(corpus, rep)
    if tier == "thorough":
        m = corpus.sibling("docutils/transforms/references.py")
        rep.saw_sibling(m.rel)
        f = m.functions.get("Footnotes.number_footnotes")
        ok = f is not None and any(
            isinstance(x, ast.Call) and isinstance(x.func, ast.Attribute) and x.func.attr == "insert" and len(x.args) == 2 and isinstance(x.args[0], ast.Constant) and x.args[0].value == 0 and isinstance(x.args[1], ast.Call) and (dotted(x.args[1].func) or "").endswith("label")
            for x in ast.walk(f.node)
        )
        if ok:
            rep.ok("C03.R4", "docutils Footnotes.number_footnotes inserts the label at index 0", m.rel)
        else:
            rep.error("C03.R4", "docutils Footnotes.number_footnotes no longer inserts nodes.label at index 0 (sibling changed)")
    rep.expect_min("C03.R4", 5, "footnote shape obligations in render_footnote_reference")



# ---------------------------------------------------------------------------
# R2 table width single source


# callee fq -> (call, caller): while R2 evaluates a helper, its parameters stand for the caller's arguments
_CALL_CTX: dict[str, tuple[ast.Call, FunctionInfo]] = {}


def _param_arg(fi: FunctionInfo, name: str):
    """(argument expr, caller) bound to parameter ``name`` of helper ``fi`` in the active call context, or None."""
    if name in fi.params and fi.fq in _CALL_CTX:
        call, caller = _CALL_CTX[fi.fq]
        arg = _arg_for(fi, call, name)
        if arg is not _NOARG:
            return arg, caller
    return None


def _canon(e: ast.expr, fi: FunctionInfo, depth: int = 0) -> str:
    """Expression text with singly-assigned locals replaced by their defining access path."""
    if depth > 8:
        raise Unsupported("alias chain too deep")
    if isinstance(e, ast.Name):
        pa = _param_arg(fi, e.id)
        if pa is not None:
            return _canon(pa[0], pa[1], depth + 1)
        if e.id in fi.params:
            return f"<{e.id}>"
        v = _single_value(fi, e.id)
        if v is not None and isinstance(v, (ast.Name, ast.Attribute, ast.Subscript)):
            return _canon(v, fi, depth + 1)
        return e.id
    if isinstance(e, ast.Attribute):
        return f"{_canon(e.value, fi, depth + 1)}.{e.attr}"
    if isinstance(e, ast.Subscript) and isinstance(e.slice, ast.Constant):
        return f"{_canon(e.value, fi, depth + 1)}[{e.slice.value!r}]"
    if isinstance(e, ast.BoolOp) and isinstance(e.op, ast.Or) and len(e.values) == 2 and isinstance(e.values[1], (ast.List, ast.Tuple)) and not e.values[1].elts:
        return _canon(e.values[0], fi, depth + 1)  # `x or []`
    raise Unsupported(f"access path `{short(e, 50)}` not understood")


def _len_of(e: ast.expr, fi: FunctionInfo, depth: int = 0) -> str:
    if depth > 8:
        raise Unsupported("length chain too deep")
    if isinstance(e, ast.Name) and _param_arg(fi, e.id) is not None:
        pa = _param_arg(fi, e.id)
        return _len_of(pa[0], pa[1], depth + 1)
    if isinstance(e, ast.Name) and e.id not in fi.params:
        v = _single_value(fi, e.id)
        if v is None:
            raise Unsupported(f"`{e.id}` is not a singly assigned local")
        if not isinstance(v, (ast.Name, ast.Attribute, ast.Subscript)) or (isinstance(v, ast.Subscript) and isinstance(v.slice, ast.Slice)):
            return _len_of(v, fi, depth + 1)
    if isinstance(e, ast.BinOp) and isinstance(e.op, ast.Mult):
        for a, b in ((e.left, e.right), (e.right, e.left)):
            if isinstance(a, (ast.List, ast.Tuple)) and len(a.elts) == 1:
                return _count_of(b, fi, depth + 1)
    if isinstance(e, (ast.List, ast.Tuple)):
        return str(len(e.elts))
    if isinstance(e, ast.Call) and dotted(e.func) == "range" and len(e.args) == 1:
        return _count_of(e.args[0], fi, depth + 1)
    if isinstance(e, ast.Call) and dotted(e.func) in ("list", "tuple") and len(e.args) == 1:
        return _len_of(e.args[0], fi, depth + 1)
    if isinstance(e, ast.Subscript) and isinstance(e.slice, ast.Slice):
        return f"slice({_len_of(e.value, fi, depth + 1)},{unparse(e.slice)})"
    if isinstance(e, ast.ListComp) and len(e.generators) == 1 and not e.generators[0].ifs:
        return _len_of(e.generators[0].iter, fi, depth + 1)
    return f"len({_canon(e, fi)})"


def _count_of(e: ast.expr, fi: FunctionInfo, depth: int = 0) -> str:
    if depth > 8:
        raise Unsupported("count chain too deep")
    if isinstance(e, ast.Call) and dotted(e.func) == "len" and len(e.args) == 1:
        return _len_of(e.args[0], fi, depth + 1)
    if isinstance(e, ast.Constant) and isinstance(e.value, int):
        return str(e.value)
    if isinstance(e, ast.Name):
        pa = _param_arg(fi, e.id)
        if pa is not None:
            return _count_of(pa[0], pa[1], depth + 1)
        v = _single_value(fi, e.id)
        if v is not None:
            return _count_of(v, fi, depth + 1)
    if isinstance(e, ast.BinOp):
        return f"({_count_of(e.left, fi, depth + 1)} {type(e.op).__name__} {_count_of(e.right, fi, depth + 1)})"
    raise Unsupported(f"count `{short(e, 50)}` not understood")


def _attached_ctor_in(st: ast.AST, fi: FunctionInfo, cls: str) -> int:
    """How many nodes of class ``cls`` the CFG statement ``st`` attaches (append/+=/current_node_context(append=True))."""
    k = 0
    hs = _header_exprs(st)
    for h in hs:
        for x in ast.walk(h):
            if isinstance(x, ast.Call) and isinstance(x.func, ast.Attribute):
                if x.func.attr in ATTACH_METHODS and len(x.args) > ATTACH_METHODS[x.func.attr]:
                    k += sum(1 for v in _elts(x.args[ATTACH_METHODS[x.func.attr]]) if _local_ctor(fi, v) == cls)
                elif x.func.attr == "current_node_context" and x.args and _local_ctor(fi, x.args[0]) == cls:
                    a = kwarg(x, "append") or (x.args[1] if len(x.args) > 1 else None)
                    if isinstance(a, ast.Constant) and a.value is True:
                        k += 1
            elif isinstance(x, ast.AugAssign) and isinstance(x.op, ast.Add):
                k += sum(1 for v in _elts(x.value) if _local_ctor(fi, v) == cls)
    return k


def _pkg_callees(corpus: Corpus, fi: FunctionInfo, call: ast.Call) -> list[FunctionInfo]:
    return [t for t in get_callgraph(corpus).resolve_call(call, fi) if isinstance(t, FunctionInfo) and not t.is_lambda]


def _entries_per_call(corpus: Corpus, fi: FunctionInfo, cls: str, depth: int = 0) -> set[int]:
    """How many nodes of class ``cls`` one call of ``fi`` attaches (set over its normal paths, saturating at 2)."""
    if depth > 2:
        return {0}
    cfg = get_cfg(fi)
    res = cfg.counts(ENTRY, [EXIT], lambda x: _stmt_attaches(corpus, x, fi, cls, depth)[1] if isinstance(x, ast.AST) else 0)
    lo = cfg.counts(ENTRY, [EXIT], lambda x: _stmt_attaches(corpus, x, fi, cls, depth)[0] if isinstance(x, ast.AST) else 0)
    return set(res.get(EXIT, {0})) | set(lo.get(EXIT, {0}))


def _stmt_attaches(corpus: Corpus, st: ast.AST, fi: FunctionInfo, cls: str, depth: int = 0) -> tuple[int, int]:
    """(min, max) number of ``cls`` nodes the CFG statement attaches, directly or through helpers it calls."""
    lo = hi = _attached_ctor_in(st, fi, cls)
    for h in _header_exprs(st):
        for c in ast.walk(h):
            if isinstance(c, ast.Call) and not (isinstance(c.func, ast.Attribute) and c.func.attr == "current_node_context"):
                for t in _pkg_callees(corpus, fi, c):
                    if t.fq == fi.fq or not any(_ctor_class(t, x) == cls for x in t.local_nodes()):
                        continue
                    got = _entries_per_call(corpus, t, cls, depth + 1)
                    lo, hi = lo + min(got), hi + max(got)
    return lo, hi


def _iter_attach_counts(corpus: Corpus, fi: FunctionInfo, lp: ast.For, cls: str, exempt=lambda n: False) -> set[int]:
    cfg = get_cfg(fi)
    return _iteration_counts(cfg, lp, lambda x: _stmt_attaches(corpus, x, fi, cls)[0], exempt) | _iteration_counts(cfg, lp, lambda x: _stmt_attaches(corpus, x, fi, cls)[1], exempt)


def _row_sites(corpus: Corpus, fi: FunctionInfo, rr: FunctionInfo, env: dict[str, tuple[ast.expr, FunctionInfo]], depth: int = 0) -> list[dict]:
    """Where ``fi`` (render_table or a helper of it) renders row tokens: container kind (thead/tbody),
    'single' row expression or 'each' element of an iterable, all expressed in the caller's terms."""
    out: list[dict] = []
    if depth > 2:
        return out

    def resolve(e: ast.expr) -> tuple[ast.expr, FunctionInfo]:
        if isinstance(e, ast.Name) and e.id in env and not _bindings(fi, e.id):
            return env[e.id]
        return e, fi

    for c in fi.local_nodes():
        if not isinstance(c, ast.Call):
            continue
        tg = _pkg_callees(corpus, fi, c)
        if any(t.fq == rr.fq for t in tg) and c.args:
            kinds = set()
            for w in _ancestors_with(c):
                for it in w.items:
                    ce = it.context_expr
                    if isinstance(ce, ast.Call) and isinstance(ce.func, ast.Attribute) and ce.func.attr == "current_node_context" and ce.args:
                        x, xfi = resolve(ce.args[0])
                        k = _local_ctor(xfi, x)
                        if k:
                            kinds.add(k)
            kind = "thead" if "docutils.nodes.thead" in kinds else "tbody" if "docutils.nodes.tbody" in kinds else None
            arg = c.args[0]
            lp = next((a for a in _ancestors(c) if isinstance(a, ast.For) and isinstance(arg, ast.Name) and unparse(a.target) == arg.id), None)
            if lp is not None:
                it, ifi = resolve(lp.iter if not (isinstance(lp.iter, ast.BoolOp) and isinstance(lp.iter.op, ast.Or)) else lp.iter)
                if isinstance(it, (ast.List, ast.Tuple)) and len(it.elts) == 1:
                    out.append({"kind": kind, "mode": "single", "expr": it.elts[0], "fi": ifi, "loop": lp, "loop_fi": fi, "call": c})
                else:
                    out.append({"kind": kind, "mode": "each", "expr": it, "fi": ifi, "loop": lp, "loop_fi": fi, "call": c})
            else:
                x, xfi = resolve(arg)
                out.append({"kind": kind, "mode": "single", "expr": x, "fi": xfi, "loop": None, "loop_fi": fi, "call": c})
        else:
            for t in tg:
                if t.fq in (fi.fq, rr.fq) or t.cls is None or t.cls is not fi.cls and fi.cls is not None and t.cls.fq != fi.cls.fq:
                    continue
                if not any(isinstance(x, ast.Call) and any(u.fq == rr.fq for u in _pkg_callees(corpus, t, x)) for x in t.local_nodes()):
                    continue
                sub_env = {}
                for pn in t.params:
                    a = _arg_for(t, c, pn) if pn not in ("self", "cls") else _NOARG
                    if a is not _NOARG:
                        sub_env[pn] = resolve(a)
                out.extend(_row_sites(corpus, t, rr, sub_env, depth + 1))
    return out


@rule("C03.R2")
def r2_table_width(corpus: Corpus, rep: Report, tier: str):
    rep.rule("C03.R2", "tgroup cols, number of colspec nodes and the rendered header row derive from one length; one entry per cell token on every path")
    rt = corpus.func("mdit_to_docutils.base:DocutilsRenderer.render_table")
    rr = corpus.func("mdit_to_docutils.base:DocutilsRenderer.render_table_row")
    rep.saw_function(rt.fq)
    rep.saw_function(rr.fq)
    _CALL_CTX.clear()
    try:
        _r2_body(corpus, rep, tier, rt, rr)
    finally:
        _CALL_CTX.clear()


def _r2_body(corpus: Corpus, rep: Report, tier: str, rt: FunctionInfo, rr: FunctionInfo) -> None:
    # the tgroup: built in render_table or in a helper it calls (parameters then stand for the call's arguments)
    owner, tg = rt, [c for c in rt.local_nodes() if _ctor_class(rt, c) == "docutils.nodes.tgroup"]
    if not tg:
        for c in rt.local_nodes():
            if isinstance(c, ast.Call):
                for t in _pkg_callees(corpus, rt, c):
                    sub = [x for x in t.local_nodes() if _ctor_class(t, x) == "docutils.nodes.tgroup"]
                    if sub and t.fq != rt.fq:
                        owner, tg = t, sub
                        _CALL_CTX[t.fq] = (c, rt)
                        rep.saw_function(t.fq)
    if len(tg) != 1:
        raise Unsupported(f"expected one tgroup construction in render_table (or a helper it calls), found {len(tg)}")
    cfg = get_cfg(owner)
    cols = kwarg(tg[0], "cols")
    if cols is None:
        rep.violation("C03.R2", f"{rt.fq}|tgroup without cols", owner.module.site(tg[0]), "tgroup is built without `cols`: writers index colspecs by it")
        return
    n_cols = _count_of(cols, owner)
    sites = _row_sites(corpus, rt, rr, {})
    for s_ in sites:
        rep.saw_function(s_["loop_fi"].fq)
    if any(s_["kind"] is None for s_ in sites):
        raise Unsupported("a table row is rendered outside a thead/tbody context")
    hdr = [s_ for s_ in sites if s_["kind"] == "thead"]
    body = [s_ for s_ in sites if s_["kind"] == "tbody"]
    if len(hdr) != 1 or hdr[0]["mode"] != "single":
        raise Unsupported(f"expected exactly one header row rendered into thead, found {[(h['mode'], short(h['expr'], 30)) for h in hdr]}")
    want = f"len({_canon(hdr[0]['expr'], hdr[0]['fi'])}.children)"
    k = f"{rt.fq}|tgroup cols = width of the rendered header row"
    if n_cols == want:
        rep.ok("C03.R2", k, owner.module.site(tg[0]), f"cols = {n_cols}")
    else:
        rep.violation("C03.R2", k, owner.module.site(tg[0]), f"cols is {n_cols} but the header row rendered into thead has {want} entries: rows and declared columns disagree")
    # colspec loop (in the function that builds the tgroup)
    loops = [st for st in owner.local_nodes() if isinstance(st, ast.For) and any(_attached_ctor_in(b, owner, "docutils.nodes.colspec") for b in ast.walk(st) if isinstance(b, ast.stmt) and b is not st)]
    in_loops = [b for l in loops for b in ast.walk(l)]
    direct = [st for st in owner.local_nodes() if isinstance(st, ast.stmt) and not isinstance(st, (ast.For, ast.If, ast.With, ast.While, ast.Try)) and _attached_ctor_in(st, owner, "docutils.nodes.colspec") and st not in in_loops]
    k = f"{rt.fq}|number of colspec nodes = cols"
    if len(loops) == 1 and not direct:
        lp = loops[0]
        n_spec = _len_of(lp.iter, owner)
        per = cfg.counts(("T", lp), [lp, EXIT], lambda x: _attached_ctor_in(x, owner, "docutils.nodes.colspec") if isinstance(x, ast.stmt) and x is not lp else 0)
        per_ok = all(v <= {1} for v in per.values()) and per.get(lp)
        if n_spec == n_cols and per_ok:
            rep.ok("C03.R2", k, owner.module.site(lp), f"one colspec per element of a sequence of length {n_spec}")
        elif not per_ok:
            rep.violation("C03.R2", k, owner.module.site(lp), f"the colspec loop does not attach exactly one colspec per iteration on every path ({ {str(a)[:20]: sorted(b) for a, b in per.items()} })")
        else:
            rep.violation("C03.R2", k, owner.module.site(lp), f"{n_spec} colspec nodes are attached but tgroup declares cols = {n_cols}")
    else:
        rep.error("C03.R2", f"{owner.site()}: colspec attachment is not a single loop ({len(loops)} loops, {len(direct)} direct): not modelled")
    # body rows: each rendered once by the same row renderer
    k = f"{rt.fq}|body rows rendered by the row renderer, once each"
    if len(body) == 1 and body[0]["mode"] == "each" and body[0]["loop"] is not None:
        lp, lfi, call = body[0]["loop"], body[0]["loop_fi"], body[0]["call"]
        lcfg = get_cfg(lfi)
        per = lcfg.counts(("T", lp), [lp, EXIT], lambda x: 1 if isinstance(x, ast.stmt) and x is not lp and any(call is y for y in ast.walk(x)) and not isinstance(x, (ast.For, ast.If, ast.While, ast.With, ast.Try)) else 0)
        src_ok = _canon(body[0]["expr"], body[0]["fi"]).endswith(".children")
        if all(v <= {1} for v in per.values()) and per.get(lp) and src_ok:
            rep.ok("C03.R2", k, lfi.module.site(lp))
        elif not src_ok:
            rep.error("C03.R2", f"{lfi.module.site(lp)}: body rows iterate `{short(body[0]['expr'], 40)}`, not the children of a token")
        else:
            rep.violation("C03.R2", k, lfi.module.site(lp), "a body row can be skipped or rendered twice")
    else:
        rep.error("C03.R2", f"{rt.site()}: body-row render is not one `for row in <token>.children: render_table_row(row)` ({[(b['mode'], short(b['expr'], 30)) for b in body]})")
    # render_table_row: one entry per child token (the entry may be attached by a per-cell helper)
    tok = rr.params[1] if len(rr.params) > 1 else None
    loops = [st for st in rr.local_nodes() if isinstance(st, ast.For) and any(_stmt_attaches(corpus, b, rr, "docutils.nodes.entry")[1] for b in ast.walk(st) if isinstance(b, ast.stmt) and b is not st)]
    loops = [l for l in loops if not any(o is not l and any(o is y for y in ast.walk(l)) for o in loops)]
    k = f"{rr.fq}|one entry per cell token"
    if len(loops) != 1:
        rep.error("C03.R2", f"{rr.site()}: expected one loop attaching nodes.entry, found {len(loops)}")
    else:
        lp = loops[0]
        it = _canon(lp.iter, rr)
        got = _iter_attach_counts(corpus, rr, lp, "docutils.nodes.entry")
        if it != f"<{tok}>.children":
            rep.violation("C03.R2", k, rr.module.site(lp), f"the entry loop iterates {it}, not the row token's children")
        elif got and got <= {1}:
            rep.ok("C03.R2", k, rr.module.site(lp), "exactly one nodes.entry attached on every path through the loop body")
        else:
            rep.violation("C03.R2", k, rr.module.site(lp), f"some path through the cell loop attaches {sorted(got)} entries: the row gets fewer/more cells than the table declares columns")
        inside = list(ast.walk(lp))
        extra = [st for st in rr.local_nodes() if isinstance(st, ast.stmt) and not any(st is y for y in inside) and not isinstance(st, (ast.For, ast.If, ast.While, ast.Try)) and not (isinstance(st, ast.With) and any(lp is y for y in ast.walk(st))) and _attached_ctor_in(st, rr, "docutils.nodes.entry")]
        if extra:
            rep.violation("C03.R2", f"{rr.fq}|entry outside the cell loop", rr.module.site(extra[0]), "an extra nodes.entry is attached outside the per-cell loop")
    helpers = {t.fq for st in ast.walk(rr.node) if isinstance(st, ast.Call) for t in _pkg_callees(corpus, rr, st) if any(_ctor_class(t, x) == "docutils.nodes.entry" for x in t.local_nodes())}
    _other_row_builders(corpus, rep, skip={rr.fq} | helpers)
    if tier == "thorough":
        _mdit_table_padding(corpus, rep)
    rep.expect_min("C03.R2", 4, "cols/header, colspec count, body rows, one entry per cell")


def _iteration_counts(cfg, lp: ast.For, weight, exempt) -> set[int]:
    """Event counts (saturating at 2) over all paths through one iteration of ``lp`` (body entry -> back edge /
    function exit), ignoring paths that pass an ``exempt`` branch edge."""
    out: set[int] = set()
    seen = set()
    work = [(("T", lp), 0)]
    while work:
        n, c = work.pop()
        if (n, c) in seen:
            continue
        seen.add((n, c))
        if n != ("T", lp) and (n is lp or n == EXIT):
            out.add(c)
            continue
        if exempt(n):
            continue
        c2 = min(2, c + (weight(n) if isinstance(n, ast.AST) and n is not lp else 0))
        for s_ in cfg.succ.get(n, []):
            work.append((s_, c2))
    return out


def _other_row_builders(corpus: Corpus, rep: Report, skip: set[str]) -> None:
    """Any other loop in the package that attaches one nodes.entry per cell (e.g. a re-implemented
    build_table_row of the rST state mock): the entry may only be skipped for a placeholder cell (the loop
    element itself is None/false: a cell covered by a span), never depending on the cell's content."""
    for fi in corpus.all_functions():
        if fi.is_lambda or fi.fq in skip:
            continue
        loops = [st for st in fi.local_nodes() if isinstance(st, ast.For) and any(_attached_ctor_in(b, fi, "docutils.nodes.entry") for b in ast.walk(st) if isinstance(b, ast.stmt) and b is not st)]
        # keep the innermost loops only
        loops = [l for l in loops if not any(o is not l and any(o is y for y in ast.walk(l)) for o in loops)]
        for lp in loops:
            rep.saw_function(fi.fq)
            cfg = get_cfg(fi)
            elem = lp.target.id if isinstance(lp.target, ast.Name) else None

            def exempt(n, elem=elem):
                if elem is None or not (isinstance(n, tuple) and n[0] in ("T", "F") and isinstance(n[1], ast.If)):
                    return False
                fs = _truth_facts(n[1].test, n[0] == "T")
                return len(fs) == 1 and fs[0][0] == elem and fs[0][1] in ("none", "falsy") and isinstance(n[1].test, (ast.Name, ast.Compare, ast.UnaryOp))

            got = _iteration_counts(cfg, lp, lambda x: _attached_ctor_in(x, fi, "docutils.nodes.entry"), exempt)
            key = f"{fi.fq}|one entry per cell|for {short(lp.target, 30)} in {short(lp.iter, 40)}"
            site = fi.module.site(lp)
            if got and got <= {1}:
                rep.ok("C03.R2", key, site, "exactly one nodes.entry per cell (placeholder cells excepted)")
            elif not got:
                rep.error("C03.R2", f"{site} {key}: no complete path through the loop body found")
            else:
                rep.violation("C03.R2", key, site, f"some path through the cell loop attaches {sorted(got)} entries for a real cell (a skip that depends on the cell's content, not on the cell being a span placeholder): the row gets fewer/more entries than the table declares columns")


def _ancestors(n: ast.AST):
    p = parent(n)
    while p is not None and not isinstance(p, (ast.FunctionDef, ast.AsyncFunctionDef, ast.Lambda)):
        yield p
        p = parent(p)


def _ancestors_with(n: ast.AST) -> list[ast.With]:
    return [a for a in _ancestors(n) if isinstance(a, ast.With)]


def _mdit_table_padding(corpus: Corpus, rep: Report) -> None:
    m = corpus.sibling("markdown_it/rules_block/table.py")
    rep.saw_sibling(m.rel)
    f = m.functions.get("table")
    if f is None:
        rep.error("C03.R2", "markdown_it table rule not found")
        return

    def push_loop(tag):
        for n in ast.walk(f.node):
            if isinstance(n, ast.For) and any(isinstance(c, ast.Call) and isinstance(c.func, ast.Attribute) and c.func.attr == "push" and c.args and isinstance(c.args[0], ast.Constant) and c.args[0].value == tag for c in ast.walk(n)):
                inner = [x for x in ast.walk(n) if isinstance(x, ast.For) and x is not n and any(isinstance(c, ast.Call) and isinstance(c.func, ast.Attribute) and c.func.attr == "push" and c.args and isinstance(c.args[0], ast.Constant) and c.args[0].value == tag for c in ast.walk(x))]
                if not inner:
                    return n
        return None

    th, td = push_loop("th_open"), push_loop("td_open")
    cc = [n for n in ast.walk(f.node) if isinstance(n, ast.Assign) and unparse(n.targets[0]) == "columnCount"]
    ok = th is not None and td is not None and len(cc) == 1 and unparse(cc[0].value) == "len(columns)" and unparse(td.iter) == "range(columnCount)" and unparse(th.iter) in ("range(len(columns))", "range(columnCount)")
    if ok:
        between = [n for n in ast.walk(f.node) if isinstance(n, (ast.Assign, ast.Call)) and cc[0].lineno < getattr(n, "lineno", 0) < th.lineno and ((isinstance(n, ast.Assign) and unparse(n.targets[0]) == "columns") or (isinstance(n, ast.Call) and isinstance(n.func, ast.Attribute) and unparse(n.func.value) == "columns" and n.func.attr in ("pop", "append", "insert", "extend")))]
        ok = not between
    k = "markdown_it table rule: every body row gets columnCount td tokens, header gets len(columns) = columnCount th tokens"
    if ok:
        rep.ok("C03.R2", k, f"{m.rel}:{td.lineno}")
    else:
        rep.error("C03.R2", "markdown_it table rule no longer has the shape `columnCount = len(columns)`; th loop over the header columns; td loop over range(columnCount) (sibling changed: body rows may differ in width from the header)")



# ---------------------------------------------------------------------------
# R3 refid provenance


def _node_bool_always_true(corpus: Corpus) -> bool:
    """docutils: ``Node.__bool__`` returns True and no other class in nodes.py overrides it."""

    def compute():
        m = corpus.sibling("docutils/nodes.py")
        bools = [q for q in m.functions if q.endswith(".__bool__")]
        if bools != ["Node.__bool__"]:
            return False
        f = m.functions["Node.__bool__"]
        rets = [n for n in ast.walk(f.node) if isinstance(n, ast.Return)]
        return len(rets) == 1 and isinstance(rets[0].value, ast.Constant) and rets[0].value.value is True

    return corpus.cache("c03-node-bool", compute)


def _nameids_may_be_none(corpus: Corpus) -> bool:
    """docutils: some method of ``document`` executes ``self.nameids[...] = None``."""

    def compute():
        m = corpus.sibling("docutils/nodes.py")
        for n in ast.walk(m.tree):
            if isinstance(n, ast.Assign) and isinstance(n.value, ast.Constant) and n.value.value is None:
                for t in n.targets:
                    if isinstance(t, ast.Subscript) and isinstance(t.value, ast.Attribute) and t.value.attr == "nameids":
                        return True
        return False

    return corpus.cache("c03-nameids-none", compute)


def _is_node_type(r: str | None) -> bool:
    return bool(r) and (r.startswith("docutils.nodes.") or r.startswith("sphinx.addnodes.") or r == "None")


def _node_or_none(corpus: Corpus, fi: FunctionInfo, name: str, depth: int = 0) -> bool:
    """Every value bound to ``name`` is None or a docutils node (so `not name` means `name is None`)."""
    if depth > 3:
        return False
    g = get_callgraph(corpus)
    bs = _bindings(fi, name)
    if not bs:
        return False
    for _, v, idx in bs:
        if v is None or idx is not None:
            return False
        if isinstance(v, ast.Constant) and v.value is None:
            continue
        if isinstance(v, ast.Name):
            if not _node_or_none(corpus, fi, v.id, depth + 1):
                return False
            continue
        if isinstance(v, ast.Call):
            if dotted(v.func) == "cast" and len(v.args) == 2:
                ts = _type_set(v.args[0], fi)
                if ts and all(_is_node_type(t) for t in ts):
                    continue
                return False
            if _is_node_type(_ctor_class(fi, v)):
                continue
            if isinstance(v.func, ast.Attribute) and v.func.attr == "deepcopy":
                continue
            tgs = [t for t in g.resolve_call(v, fi) if isinstance(t, FunctionInfo)]
            if tgs and all(_returns_node_or_none(t) for t in tgs):
                continue
        return False
    return True


def _returns_node_or_none(f: FunctionInfo) -> bool:
    ann = getattr(f.node, "returns", None)
    if ann is None:
        return False
    if isinstance(ann, ast.Constant) and isinstance(ann.value, str):
        ann = ast.parse(ann.value, mode="eval").body
    ts = _type_set(ann, f)
    return bool(ts) and all(_is_node_type(t) for t in ts)


def _truth_facts(test: ast.expr, pol: bool) -> list[tuple[str, str]]:
    from ..flow import facts

    out = []
    for t, p in facts(test, pol):
        if isinstance(t, ast.Name):
            out.append((t.id, "truthy" if p else "falsy"))
        elif isinstance(t, ast.Compare) and len(t.ops) == 1 and isinstance(t.left, ast.Name) and isinstance(t.comparators[0], ast.Constant) and t.comparators[0].value is None:
            if isinstance(t.ops[0], ast.Is):
                out.append((t.left.id, "none" if p else "notnone"))
            elif isinstance(t.ops[0], ast.IsNot):
                out.append((t.left.id, "notnone" if p else "none"))
    return out


_CONTRA = {("none", "notnone"), ("none", "truthy"), ("falsy", "truthy")}
_CONTRA_NODE = {("falsy", "notnone")}  # only for values that are None or a docutils node


def _path_avoiding_with_facts(corpus: Corpus, fi: FunctionInfo, start, stop, avoid) -> tuple[bool, set[str]]:
    """Is there a feasible path start -> stop that passes no ``avoid`` node?  Paths that take two branch
    outcomes contradicting each other on an unmodified name are pruned.  Returns (exists, names whose
    node-or-None typing was needed to prune)."""
    cfg = get_cfg(fi)
    used: set[str] = set()
    typed: dict[str, bool] = {}

    def is_typed(nm):
        if nm not in typed:
            typed[nm] = _node_bool_always_true(corpus) and _node_or_none(corpus, fi, nm)
        return typed[nm]

    seen = set()
    work = [(start, frozenset())]
    while work:
        n, fs = work.pop()
        if (n, fs) in seen:
            continue
        seen.add((n, fs))
        if n != start and avoid(n):
            continue
        if n == stop:
            return True, used
        nfs = set(fs)
        if isinstance(n, tuple) and n[0] in ("T", "F") and isinstance(n[1], (ast.If, ast.While)):
            dead = False
            for nm, f in _truth_facts(n[1].test, n[0] == "T"):
                for nm2, f2 in fs:
                    if nm2 != nm:
                        continue
                    pair = tuple(sorted((f, f2)))
                    if pair in _CONTRA:
                        dead = True
                    elif pair in _CONTRA_NODE:
                        if is_typed(nm):
                            dead = True
                            used.add(nm)
                        else:
                            used.add("?" + nm)
                nfs.add((nm, f))
            if dead:
                continue
        elif isinstance(n, ast.AST):
            killed = set()
            for h in _header_exprs(n):
                for x in ast.walk(h):
                    if isinstance(x, ast.Name) and isinstance(x.ctx, (ast.Store, ast.Del)):
                        killed.add(x.id)
            if killed:
                nfs = {(a, b) for a, b in nfs if a not in killed}
        nf = frozenset(nfs)
        for s_ in cfg.succ.get(n, []):
            work.append((s_, nf))
    return False, used


def _is_missing_warning(st, corpus: Corpus | None = None, fi: FunctionInfo | None = None, depth: int = 0) -> bool:
    for h in _header_exprs(st) if isinstance(st, ast.AST) else []:
        for c in ast.walk(h):
            if not isinstance(c, ast.Call):
                continue
            if (dotted(c.func) or "").rsplit(".", 1)[-1] in ("create_warning", "log_warning"):
                if any(unparse(a) == "MystWarnings.XREF_MISSING" for a in list(c.args) + [k.value for k in c.keywords]):
                    return True
            elif corpus is not None and fi is not None and depth < 2:
                # a helper that issues the warning on every path
                for t in get_callgraph(corpus).resolve_call(c, fi):
                    if isinstance(t, FunctionInfo) and not t.is_lambda:
                        tcfg = get_cfg(t)
                        if not tcfg.paths_avoiding(ENTRY, EXIT, lambda x: _is_missing_warning(x, corpus, t, depth + 1)):
                            return True
    return False


def _doc_rooted(e: ast.expr) -> bool:
    t = unparse(e)
    return any(x in t for x in ("self.document", "self.env", "stddomain."))


class _Refid:
    def __init__(self, corpus: Corpus, rep: Report):
        self.c, self.rep = corpus, rep

    def id_valued(self, e: ast.expr, fi: FunctionInfo, at: ast.AST, idx: int | None, depth: int = 0) -> tuple[str, str]:
        """('reg', why) when the value is an id taken from a registry, ('name', why) when it is a *name*,
        ('no', why) otherwise."""
        if depth > 5:
            return "no", "chain too deep"
        if isinstance(e, ast.Call) and isinstance(e.func, ast.Attribute) and e.func.attr == "set_id" and _doc_rooted(e.func.value):
            return "reg", "id returned by document.set_id"
        if isinstance(e, ast.Subscript) and idx is None:
            txt = unparse(e)
            if isinstance(e.value, ast.Subscript) and isinstance(e.value.slice, ast.Constant) and e.value.slice.value == "ids":
                return "reg", f"`{txt}`: an id of an existing node"
            if isinstance(e.value, ast.Subscript) and isinstance(e.value.slice, ast.Constant) and e.value.slice.value in ("names", "dupnames"):
                return "name", f"`{txt}` is a name, not an id"
            if isinstance(e.value, ast.Attribute) and e.value.attr == "nameids" and _doc_rooted(e.value):
                return self._nameids_value(txt, fi, at)
        if isinstance(e, ast.Call) and isinstance(e.func, ast.Attribute) and e.func.attr == "get" and isinstance(e.func.value, ast.Attribute) and e.func.value.attr == "nameids" and _doc_rooted(e.func.value) and idx is None:
            return self._nameids_value(unparse(e), fi, at)
        if isinstance(e, ast.Subscript) and not isinstance(e.value, ast.Name) and not isinstance(e.slice, ast.Slice) and _doc_rooted(e.value) and unparse(e.value).split(".")[0] in ("self", "stddomain", "document", "env"):
            return "reg", f"`{short(e, 50)}`: entry of a document/environment registry"
        if isinstance(e, ast.Call) and isinstance(e.func, ast.Attribute) and e.func.attr == "get" and not isinstance(e.func.value, ast.Name) and _doc_rooted(e.func.value) and unparse(e.func.value).split(".")[0] in ("self", "stddomain", "document", "env"):
            d = e.args[1] if len(e.args) > 1 else None
            dflt = d.elts[idx] if isinstance(d, ast.Tuple) and idx is not None and idx < len(d.elts) else d
            if dflt is None or (isinstance(dflt, ast.Constant) and dflt.value in ("", None)):
                return "reg", f"`{short(e, 50)}`: entry of a document/environment registry (or its empty default)"
        if isinstance(e, ast.Subscript) and isinstance(e.value, ast.Name):
            if idx is None and isinstance(e.slice, ast.Constant) and isinstance(e.slice.value, int) and not isinstance(_single_value(fi, e.value.id), (ast.Dict, type(None))):
                # `hit[0]` where hit is itself a looked-up tuple
                return self.id_valued(e.value, fi, at, e.slice.value, depth + 1)
            return self.lookup(e, fi, at, idx, depth)
        if isinstance(e, ast.Subscript) and idx is None and isinstance(e.slice, ast.Constant) and isinstance(e.slice.value, int) and isinstance(e.value, ast.Subscript) and isinstance(e.value.value, ast.Name):
            return self.lookup(e.value, fi, at, e.slice.value, depth)  # registry[key][i]
        if isinstance(e, ast.Call) and isinstance(e.func, ast.Attribute) and e.func.attr == "get" and isinstance(e.func.value, ast.Name) and len(e.args) == 1:
            # registry.get(key): found when the result is tested before use (checked by the caller via `at`)
            return self.lookup(ast.Subscript(value=e.func.value, slice=e.args[0], ctx=ast.Load()), fi, at, idx, depth, found_var=getattr(self, "_cur_name", None))
        if isinstance(e, ast.Call) and any(isinstance(t, FunctionInfo) for t in get_callgraph(self.c).resolve_call(e, fi)):
            raise Unsupported(f"refid value comes from the package helper `{short(e, 50)}`: provenance through helpers is not modelled")
        if isinstance(e, ast.Name):
            bs = _bindings(fi, e.id)
            if not bs or e.id in fi.params:
                return "no", f"`{e.id}` is not a local with visible bindings"
            res = []
            for st, v, i in bs:
                if v is None and isinstance(st, ast.For) and isinstance(st.iter, ast.Call) and isinstance(st.iter.func, ast.Attribute) and st.iter.func.attr == "items" and isinstance(st.iter.func.value, ast.Attribute) and st.iter.func.value.attr == "nameids" and _doc_rooted(st.iter.func.value) and not st.iter.args:
                    if i == 1:
                        res.append((st, ("optid", f"`{e.id}` iterates the values of document.nameids: an id or None (docutils sets None when a name is defined twice)") if _nameids_may_be_none(self.c) else ("reg", "value of document.nameids")))
                    else:
                        res.append((st, ("name", f"`{e.id}` iterates the keys of document.nameids: a name, not an id")))
                    continue
                if v is None:
                    return "no", f"`{e.id}` is bound by `{short(st, 40)}`"
                if isinstance(v, ast.Call) and isinstance(v.func, ast.Attribute) and v.func.attr == "get":
                    self._cur_name = e.id
                    res.append((st, self.id_valued(v, fi, at, i if i is not None else idx, depth + 1)))
                    self._cur_name = None
                    continue
                res.append((st, self.id_valued(v, fi, st, i if i is not None else idx, depth + 1)))
            for st, (k, why) in res:
                if k == "no":
                    return k, why
            for st, (k, why) in res:
                if k == "optid":
                    # the id-or-None value is carried by `e.id`: its use must be under a not-None test
                    cfg = get_cfg(fi)
                    tested = any(nm == e.id and f in ("notnone", "truthy") for t, pol in cfg.guards(cfg.stmt_of(at)) for nm, f in _truth_facts(t, pol))
                    if not tested:
                        return "optid", why
            names = [(st, why) for st, (k, why) in res if k == "name"]
            if names:
                self._name_sites = getattr(self, "_name_sites", []) + [(fi, st, why) for st, why in names]
            return "reg", "; ".join(sorted({why for _, (_, why) in res}))
        return "no", f"`{short(e, 50)}` is not a registry lookup"

    def _nameids_value(self, txt: str, fi: FunctionInfo, at: ast.AST) -> tuple[str, str]:
        """A value of document.nameids: docutils stores None there for a name defined twice."""
        if not _nameids_may_be_none(self.c):
            return "reg", f"`{txt}`: name -> id registry of the document"
        cfg = get_cfg(fi)
        for t, pol in cfg.guards(cfg.stmt_of(at)):
            if isinstance(t, ast.Compare) and len(t.ops) == 1 and unparse(t.left) == txt and isinstance(t.comparators[0], ast.Constant) and t.comparators[0].value is None:
                if (isinstance(t.ops[0], ast.IsNot) and pol) or (isinstance(t.ops[0], ast.Is) and not pol):
                    return "reg", f"`{txt}`: name -> id registry of the document, tested against None"
        return "optid", f"`{txt}` is an id or None (docutils sets nameids[name] = None when a name is defined twice)"

    def lookup(self, e: ast.Subscript, fi: FunctionInfo, at: ast.AST, idx: int | None, depth: int, found_var: str | None = None) -> tuple[str, str]:
        reg = e.value.id
        cfg = get_cfg(fi)
        key = unparse(e.slice)
        self.lookups = getattr(self, "lookups", []) + [(fi, reg, key, idx)]
        gs = cfg.guards(cfg.stmt_of(at))
        found = any(isinstance(t, ast.Compare) and len(t.ops) == 1 and ((pol and isinstance(t.ops[0], ast.In)) or (not pol and isinstance(t.ops[0], ast.NotIn))) and unparse(t.left) == key and unparse(t.comparators[0]) == reg for t, pol in gs)
        if not found and found_var is not None:
            found = any((nm == found_var and f in ("truthy", "notnone")) for t, pol in gs for nm, f in _truth_facts(t, pol))
        if not found:
            return "no", f"`{unparse(e)}` is not under a dominating `{key} in {reg}` test"
        bs = _bindings(fi, reg)
        if bs and all(v is not None and _doc_rooted(v) for _, v, _ in bs):
            return "reg", f"found lookup in `{reg}` (read from the document/environment)"
        # a registry built by a helper of the package: judge the dict the helper returns
        if len(bs) == 1 and isinstance(bs[0][1], ast.Call) and bs[0][2] is None and depth < 4:
            tgs = [t for t in get_callgraph(self.c).resolve_call(bs[0][1], fi) if isinstance(t, FunctionInfo) and not t.is_lambda]
            if len(tgs) == 1:
                t = tgs[0]
                rets = [n for n in t.local_nodes() if isinstance(n, ast.Return)]
                names = {n.value.id for n in rets if isinstance(n.value, ast.Name)}
                if rets and len(names) == 1 and all(isinstance(n.value, ast.Name) for n in rets):
                    k, why = self._filled_dict(t, names.pop(), idx, depth + 1)
                    return k, (why + f" (built by {t.qualname})" if k == "reg" else why)
                raise Unsupported(f"registry `{reg}` comes from {t.qualname}, which does not return one local dict")
        return self._filled_dict(fi, reg, idx, depth)

    def _filled_dict(self, fi: FunctionInfo, reg: str, idx: int | None, depth: int) -> tuple[str, str]:
        """A dict built locally: the element at position idx of every stored value must be an id."""
        bs = _bindings(fi, reg)
        stores = [n for n in fi.local_nodes() if isinstance(n, ast.Assign) and any(isinstance(t, ast.Subscript) and isinstance(t.value, ast.Name) and t.value.id == reg for t in n.targets)]
        if not stores or not all(isinstance(v, ast.Dict) and not v.keys for _, v, _ in bs if v is not None):
            return "no", f"`{reg}` is neither read from the document nor a locally filled dict"
        for st in stores:
            v = st.value
            if idx is not None:
                if not (isinstance(v, ast.Tuple) and idx < len(v.elts)):
                    return "no", f"`{short(st, 50)}` does not store a tuple with position {idx}"
                v = v.elts[idx]
            k, why = self.id_valued(v, fi, st, None, depth + 1)
            if k == "optid":
                return "optid", f"`{reg}` is filled by `{short(st, 50)}` without a not-None test: {why}"
            if k == "no":
                return "no", f"`{reg}` is filled by `{short(st, 50)}` whose id position is not an id ({why})"
        return "reg", f"found lookup in `{reg}`, filled from the document's id registry"


@rule("C03.R3")
def r3_refid_provenance(corpus: Corpus, rep: Report, tier: str):
    rep.rule("C03.R3", "every refid store takes an id from a found registry lookup / set_id (a document.nameids value only after a not-None test), or every path to it has issued the XREF_MISSING warning; the anchor given to make_refnode is judged the same way")
    n = 0
    for fi in corpus.all_functions():
        if fi.is_lambda or fi.module.name.endswith("._docs"):
            continue
        stores: list[tuple[ast.AST, ast.expr]] = []
        for x in fi.local_nodes():
            if isinstance(x, ast.Assign):
                for t in x.targets:
                    if isinstance(t, ast.Subscript) and isinstance(t.slice, ast.Constant) and t.slice.value == "refid":
                        stores.append((x, x.value))
            elif isinstance(x, ast.Call) and _is_node_type(_ctor_class(fi, x)) and kwarg(x, "refid") is not None:
                stores.append((x, kwarg(x, "refid")))
            elif isinstance(x, ast.Call) and _resolved(fi, x.func) == "sphinx.util.nodes.make_refnode":
                # make_refnode(builder, fromdoc, todoc, targetid, child): targetid becomes the refid / the #anchor
                a = x.args[3] if len(x.args) > 3 and not any(isinstance(y, ast.Starred) for y in x.args[:4]) else kwarg(x, "targetid")
                if a is None:
                    raise Unsupported(f"make_refnode call without a visible targetid argument in {fi.qualname}")
                stores.append((x, a))
        if not stores:
            continue
        rep.saw_function(fi.fq)
        cfg = get_cfg(fi)
        for node, val in stores:
            n += 1
            st = cfg.stmt_of(node)
            site = fi.module.site(node)
            key = f"{fi.fq}|refid = {short(val, 60)}"
            tr = _Refid(corpus, rep)
            if isinstance(val, ast.Constant) and val.value == "":
                rep.ok("C03.R3", key, site, "empty anchor: the link points at the document itself")
                continue
            multi = [b for b in _bindings(fi, val.id) if not isinstance(b[0], ast.AugAssign)] if isinstance(val, ast.Name) and val.id not in fi.params else []
            if len(multi) > 1:
                _judge_per_binding(corpus, rep, tr, fi, cfg, st, key, site, val.id, multi)
                continue
            kind, why = tr.id_valued(val, fi, st, None)
            if kind == "optid":
                rep.violation("C03.R3", key, site, f"{why} and reaches the refid with no not-None test on the way: a link to an ambiguous name gets refid=None, which is no id in the tree, and no 'target not found' warning is issued")
                continue
            if kind == "reg":
                rep.ok("C03.R3", key, site, why)
                for nfi, nst, nwhy in getattr(tr, "_name_sites", []):
                    _judge_name_as_id(nfi, nst, nwhy, rep)
                _judge_in_tree(corpus, rep, tr, fi, cfg, st, val, key, site)
                continue
            start = ("T", cfg.loops[st]) if st in cfg.loops else ENTRY
            exists, used = _path_avoiding_with_facts(corpus, fi, start, st, lambda x: _is_missing_warning(x, corpus, fi))
            blocked = sorted(u[1:] for u in used if u.startswith("?"))
            used = {u for u in used if not u.startswith("?")}
            if exists and blocked:
                rep.error("C03.R3", f"{site} {key}: whether a warning-free path exists depends on the truthiness of {blocked}, which is not provably None-or-docutils-node")
            elif not exists:
                rep.ok("C03.R3", key, site, "not an id from a registry, but every path to the store has issued the XREF_MISSING warning" + (f" (`not {', '.join(sorted(used))}` read as `is None`: docutils nodes are always true)" if used else ""))
            else:
                rep.violation("C03.R3", key, site, f"the link target is not taken from a registry ({why}) and some path reaches the store without a 'target not found' warning: the reference can point at an id that does not exist, silently")
    rep.expect_min("C03.R3", 4, "refid stores in transforms.py (3), myst_refs.py (1), mocking.py (1); make_refnode anchors in myst_refs.py (4)")


def _judge_per_binding(corpus: Corpus, rep: Report, tr, fi: FunctionInfo, cfg, st, key: str, site: str, name: str, bindings) -> None:
    """The value has several bindings: each one is either an id from a registry / the empty anchor, or lies on
    paths that issue the XREF_MISSING warning before the value is used."""
    is_warn = lambda x: _is_missing_warning(x, corpus, fi)
    start = ("T", cfg.loops[st]) if st in cfg.loops else ENTRY
    bstmts = {cfg.stmt_of(b) for b, _, _ in bindings}
    notes, bad = [], None
    for b, v, idx in bindings:
        bst = cfg.stmt_of(b)
        if v is not None and idx is None and isinstance(v, ast.Constant) and v.value == "":
            notes.append("'' (no anchor)")
            continue
        if v is None:
            kind, why = "no", f"`{name}` is bound by `{short(b, 40)}`"
        else:
            kind, why = tr.id_valued(v, fi, bst, idx)
        if kind == "reg":
            notes.append(why)
            continue
        if kind == "optid":
            tested = any(nm == name and f in ("notnone", "truthy") for t, pol in cfg.guards(st) for nm, f in _truth_facts(t, pol))
            if tested:
                notes.append(why + ", tested before use")
                continue
            bad = (b, why + " and is used without a not-None test")
            break
        # not an id from a registry: the warning must lie on every path through this binding
        reaches = cfg.paths_avoiding(bst, st, lambda x: x in bstmts and x is not bst)
        if not reaches:
            continue
        before, _ = _path_avoiding_with_facts(corpus, fi, start, bst, is_warn)
        after = cfg.paths_avoiding(bst, st, lambda x: is_warn(x) or (x in bstmts and x is not bst))
        if before and after and not is_warn(bst):
            bad = (b, f"`{short(b, 60)}` gives it a value that is not an id from a registry ({why}) on a path without a 'target not found' warning")
            break
        notes.append(f"`{short(b, 40)}` only after the XREF_MISSING warning")
    if bad:
        rep.violation("C03.R3", key, fi.module.site(bad[0]), f"{bad[1]}: the link can point at an id that does not exist, silently")
    else:
        rep.ok("C03.R3", key, site, "; ".join(dict.fromkeys(notes))[:300])
        for nfi, nst, nwhy in getattr(tr, "_name_sites", []):
            _judge_name_as_id(nfi, nst, nwhy, rep)
        _judge_in_tree(corpus, rep, tr, fi, cfg, st, ast.Name(id=name, ctx=ast.Load()), key, site)


def _is_tree_id_set(fi: FunctionInfo, e: ast.expr) -> bool:
    """A set/list of the ids of the elements that are in the document now (built by walking the tree)."""
    if isinstance(e, ast.Name):
        v = _single_value(fi, e.id)
        return v is not None and _is_tree_id_set(fi, v)
    if isinstance(e, ast.Call) and dotted(e.func) in ("set", "frozenset", "list") and len(e.args) == 1:
        return _is_tree_id_set(fi, e.args[0])
    if isinstance(e, (ast.SetComp, ast.ListComp, ast.GeneratorExp)) and e.generators:
        walk = unparse(e.generators[0].iter)
        walks_tree = any(w in walk for w in ("findall(", ".traverse(")) and "document" in walk
        takes_ids = any(isinstance(x, ast.Subscript) and isinstance(x.slice, ast.Constant) and x.slice.value == "ids" for g_ in e.generators for x in ast.walk(g_.iter)) or (isinstance(e.elt, ast.Subscript) and unparse(e.elt.slice) == "'ids'")
        return walks_tree and takes_ids
    return False


def _judge_in_tree(corpus: Corpus, rep: Report, tr, fi: FunctionInfo, cfg, st, val: ast.expr, key: str, site: str) -> None:
    """In a transform, an id looked up in the document's registries (names -> ids, heading slugs) is used as a refid only
    after it was confirmed to be the id of an element that is in the tree: the registries also keep elements that a
    directive registered while parsing its content and then dropped."""
    if fi.cls is None or not any("Transform" in b for b in fi.cls.bases):
        return
    looks = [(reg, k, i) for lfi, reg, k, i in getattr(tr, "lookups", []) if lfi.fq == fi.fq]
    if not looks:
        return
    wanted = {unparse(val)}
    for reg, k, i in looks:
        wanted.add(f"{reg}[{k}][{i}]" if i is not None else f"{reg}[{k}]")
    confirmed = any(pol and isinstance(t, ast.Compare) and len(t.ops) == 1 and isinstance(t.ops[0], ast.In) and unparse(t.left) in wanted and _is_tree_id_set(fi, t.comparators[0]) for t, pol in cfg.guards(st))
    k2 = key + "|id is the id of an element in the tree"
    if confirmed:
        rep.ok("C03.R3", k2, site, "looked-up id confirmed against the ids collected from the tree")
    else:
        rep.violation("C03.R3", k2, site, f"the id comes from `{looks[0][0]}` (document registries / slug table) and is not tested against the ids of the elements actually in the tree: the registries keep entries of elements a directive parsed and then dropped (a figure whose caption is rejected), so the link gets a refid that no element has, without a 'target not found' warning")


def _judge_name_as_id(fi: FunctionInfo, st: ast.AST, why: str, rep: Report) -> None:
    """A *name* flows into an id slot.  Tabled: the indirect-target branch copied from Sphinx' StandardDomain.process_doc."""
    cfg = get_cfg(fi)
    facts_ = [(unparse(t), pol) for t, pol in cfg.guards(cfg.stmt_of(st))]
    indirect = any(pol and "isinstance(" in t and "nodes.target" in t for t, pol in facts_) and any(pol and t.replace('"', "'").startswith("'refid' in ") for t, pol in facts_)
    key = f"{fi.fq}|name used as id|{short(st, 70)}"
    if indirect:
        rep.assumed("C03.R3", key, fi.module.site(st), f"{why}; only for a target that still carries both ids and refid (an rST indirect target registered with note_indirect_target), which MyST never creates in the document it renders into (eval-rst parses into a scratch document); mirrors sphinx.domains.std.process_doc")
    else:
        rep.violation("C03.R3", key, fi.module.site(st), f"{why} and flows into a refid: names and ids differ as soon as the name contains a space or upper-case letter")



# ---------------------------------------------------------------------------
# R5 single parent: existing nodes are moved, not shared

SURGERY_MODULES = ("mdit_to_docutils.transforms", "sphinx_ext.myst_refs")
MOVE_HOWS = ("append", "insert", "extend", "+=", "replace", "replace_self")


def _root_name(e: ast.expr) -> str | None:
    while isinstance(e, (ast.Attribute, ast.Subscript)):
        e = e.value
    return e.id if isinstance(e, ast.Name) else None


def _children_of(e: ast.expr) -> ast.expr | None:
    """``X`` if ``e`` is ``X.children`` (the child list of an existing node)."""
    if isinstance(e, ast.Attribute) and e.attr == "children":
        return e.value
    return None


def _is_discard_of(node: ast.AST, name: str, fi: FunctionInfo | None = None) -> bool:
    """``name.replace_self(..)``, ``name.parent.replace(name, ..)``, ``name.parent.remove(name)``
    (the parent may be held in a singly assigned local)."""
    if isinstance(node, ast.Call) and isinstance(node.func, ast.Attribute):
        f = node.func
        if f.attr == "replace_self" and unparse(f.value) == name:
            return True
        recv = f.value
        if isinstance(recv, ast.Name) and fi is not None:
            recv = _single_value(fi, recv.id) or recv
        if f.attr in ("replace", "remove") and unparse(recv) == f"{name}.parent" and node.args and unparse(node.args[0]) == name:
            return True
    return False


class _Moves:
    """Per function: events that move the children of the node held in a local/parameter, and discards of it."""

    def __init__(self, corpus: Corpus):
        self.c = corpus
        self.g = get_callgraph(corpus)
        self.memo: dict[tuple[str, str], list] = {}
        self.dmemo: dict[tuple[str, str], bool] = {}

    def move_events(self, fi: FunctionInfo, name: str, depth: int = 0) -> list[tuple[ast.AST, str]]:
        """Constructs in ``fi`` that re-parent children of (a descendant of) ``name``."""
        k = (fi.fq, name)
        if k in self.memo:
            return self.memo[k]
        self.memo[k] = []
        out = []
        for node, recv, vals, how in _attach_events(fi):
            if how not in MOVE_HOWS:
                continue
            for v in vals:
                owner = _children_of(v)
                if owner is not None and _root_name(owner) == name:
                    out.append((node, f"`{short(node, 60)}`"))
        if depth < 4:
            for n in fi.local_nodes():
                if not isinstance(n, ast.Call):
                    continue
                uses = [a for a in list(n.args) + [kw.value for kw in n.keywords] if isinstance(a, ast.Name) and a.id == name and not _shadowed(a)]
                if not uses:
                    continue
                for t in self.g.resolve_call(n, fi):
                    if not isinstance(t, FunctionInfo):
                        continue
                    for u in uses:
                        pn = _param_of(t, n, u)
                        if pn and self.move_events(t, pn, depth + 1):
                            out.append((n, f"`{short(n, 60)}` ({t.name} moves the children of its `{pn}`)"))
                            break
        self.memo[k] = out
        return out

    def discards_always(self, fi: FunctionInfo, name: str, depth: int = 0) -> bool:
        """Every normal path through ``fi`` discards the node held in parameter ``name``."""
        k = (fi.fq, name)
        if k in self.dmemo:
            return self.dmemo[k]
        self.dmemo[k] = False
        cfg = get_cfg(fi)
        ds = self.discard_stmts(fi, name, depth)
        r = bool(ds) and not cfg.paths_avoiding(ENTRY, EXIT, lambda x: x in ds)
        self.dmemo[k] = r
        return r

    def discard_stmts(self, fi: FunctionInfo, name: str, depth: int = 0) -> set:
        cfg = get_cfg(fi)
        out = set()
        for n in fi.local_nodes():
            if _is_discard_of(n, name, fi):
                out.add(cfg.stmt_of(n))
            elif isinstance(n, ast.Call) and depth < 3:
                uses = [a for a in list(n.args) + [kw.value for kw in n.keywords] if isinstance(a, ast.Name) and a.id == name]
                for t in self.g.resolve_call(n, fi) if uses else []:
                    if isinstance(t, FunctionInfo):
                        pn = _param_of(t, n, uses[0])
                        if pn and self.discards_always(t, pn, depth + 1):
                            out.add(cfg.stmt_of(n))
        return out


def _value_attached_in(fi: FunctionInfo, name: str, depth: int = 0) -> ast.AST | None:
    """An attach event in ``fi`` whose attached value is (a collection containing) local ``name``,
    following plain local aliases / list building (`x = [name]`, `x = [name] + y`, `[name] if name else []`)."""
    if depth > 3:
        return None
    for node, recv, vals, how in _attach_events(fi):
        rb = _single_value(fi, recv.id, ignore_aug=True) if isinstance(recv, ast.Name) else None
        if isinstance(rb, (ast.List, ast.Dict, ast.Set)):
            # building a plain list: the list itself may be attached later
            if any(isinstance(y, ast.Name) and y.id == name for v in vals for y in ast.walk(v)):
                hit = _value_attached_in(fi, recv.id, depth + 1)
                if hit is not None:
                    return hit
            continue
        for v in vals:
            if any(isinstance(y, ast.Name) and y.id == name and not _shadowed(y) for y in ast.walk(v)):
                return node
    for n in fi.local_nodes():
        if isinstance(n, ast.Assign) and len(n.targets) == 1 and isinstance(n.targets[0], ast.Name) and n.targets[0].id != name:
            if any(isinstance(y, ast.Name) and y.id == name for y in ast.walk(n.value)) and not any(isinstance(c, ast.Call) for c in ast.walk(n.value)):
                hit = _value_attached_in(fi, n.targets[0].id, depth + 1)
                if hit is not None:
                    return hit
    return None


def _returned_with(fi: FunctionInfo, name: str) -> ast.Return | None:
    """A return statement whose value contains local ``name`` (directly or through a list-valued alias)."""
    aliases = {name}
    changed = True
    while changed:
        changed = False
        for n in fi.local_nodes():
            if isinstance(n, ast.Assign) and len(n.targets) == 1 and isinstance(n.targets[0], ast.Name) and n.targets[0].id not in aliases:
                if any(isinstance(y, ast.Name) and y.id in aliases for y in ast.walk(n.value)) and not any(isinstance(c, ast.Call) for c in ast.walk(n.value)):
                    aliases.add(n.targets[0].id)
                    changed = True
    for n in fi.local_nodes():
        if isinstance(n, ast.Return) and n.value is not None:
            # names used only as a condition (`[x] if x else []`) still put x into the result through the body
            if any(isinstance(y, ast.Name) and y.id in aliases for y in ast.walk(n.value)):
                return n
    return None


def _is_node_valued(corpus: Corpus, fi: FunctionInfo, v: ast.expr | None) -> bool:
    """Does the expression construct (or obtain from docutils' reporter / create_warning) a fresh node object?"""
    if not isinstance(v, ast.Call):
        return False
    c = _ctor_class(fi, v)
    if c and (c.startswith("docutils.nodes.") or c.startswith("sphinx.addnodes.")) and c.rsplit(".", 1)[1] not in ("fully_normalize_name", "whitespace_normalize_name", "make_id", "unescape"):
        return True
    if _create_warning_call(v):
        return True
    if isinstance(v.func, ast.Attribute) and v.func.attr in ("warning", "error", "info", "severe", "system_message") and "reporter" in unparse(v.func.value):
        return True
    if isinstance(v.func, ast.Attribute) and v.func.attr == "deepcopy" and not v.args:
        return True
    return False


def _is_plain_container(fi: FunctionInfo, recv: ast.expr) -> bool:
    rb = _single_value(fi, recv.id, ignore_aug=True) if isinstance(recv, ast.Name) else None
    return isinstance(rb, (ast.List, ast.Dict, ast.Set)) or (isinstance(rb, ast.Call) and dotted(rb.func) in ("list", "dict", "set"))


def _list_attached_later(fi: FunctionInfo, name: str) -> ast.AST | None:
    """Is the plain list ``name`` later put into a node (`node[:] = name`, `node += name`, `node.extend(name)`)?"""
    for n in fi.local_nodes():
        if isinstance(n, ast.Assign) and isinstance(n.value, ast.Name) and n.value.id == name:
            for t in n.targets:
                if isinstance(t, ast.Subscript) and isinstance(t.slice, ast.Slice) and not _is_plain_container(fi, t.value):
                    return n
    for node, recv, vals, how in _attach_events(fi):
        if how in ("extend", "+=") and not _is_plain_container(fi, recv) and any(isinstance(v, ast.Name) and v.id == name for v in vals):
            return node
    return None


def _loop_attach_events(fi: FunctionInfo) -> list[tuple[ast.AST, str, str]]:
    """(node in fi, attached local name, description) for attaches of a local of ``fi`` that execute inside a loop of
    ``fi`` - directly, into a list that is later put into a node, or inside a nested function called from the loop
    (a closure cannot rebind the enclosing local)."""
    out = []

    def in_loop(n):
        return any(isinstance(a, (ast.For, ast.While)) for a in _ancestors(n))

    def events_of(f: FunctionInfo):
        for node, recv, vals, how in _attach_events(f):
            if how not in ("append", "insert", "extend", "+=", "replace", "replace_self"):
                continue
            if _is_plain_container(f, recv):
                owner = f if _bindings(f, recv.id) else fi
                if not (isinstance(recv, ast.Name) and _list_attached_later(owner, recv.id) is not None):
                    continue
            elif isinstance(recv, ast.Name) and not _bindings(f, recv.id) and f is not fi and _is_plain_container(fi, recv):
                if _list_attached_later(fi, recv.id) is None:
                    continue
            for v in vals:
                if isinstance(v, ast.Name) and not _shadowed(v):
                    yield node, v.id

    for node, name in events_of(fi):
        if in_loop(node) and name not in fi.params and _bindings(fi, name):
            out.append((node, name, f"`{short(node, 60)}`"))
    # nested functions called from a loop of fi
    corpus_mod = fi.module
    for q, g in corpus_mod.functions.items():
        if g.parent_func is not fi or g.is_lambda:
            continue
        inner = [(node, name) for node, name in events_of(g) if name not in g.params and not _bindings(g, name) and _bindings(fi, name)]
        if not inner:
            continue
        if any(isinstance(n, ast.Nonlocal) for n in g.local_nodes()):
            continue  # may rebind: not modelled
        for c in fi.local_nodes():
            if isinstance(c, ast.Call) and isinstance(c.func, ast.Name) and c.func.id == g.name and in_loop(c):
                for node, name in inner:
                    out.append((c, name, f"`{short(c, 30)}` -> `{short(node, 50)}` in the nested function {g.name} (which cannot rebind `{name}`)"))
    return out


def _built_once_attached_in_loop(corpus: Corpus, rep: Report) -> None:
    """A node object built before a loop and attached inside it (without being rebuilt in the loop) is attached
    once per iteration: the same object ends up in several child lists / several times in one."""
    for fi in corpus.all_functions():
        if fi.is_lambda or fi.module.name.endswith("._docs"):
            continue
        seen = set()
        for node, name, desc in _loop_attach_events(fi):
            if (id(node), name) in seen:
                continue
            seen.add((id(node), name))
            allb = [(b, val, idx) for b, val, idx in _bindings(fi, name) if not isinstance(b, ast.AugAssign)]
            if not allb:
                continue
            cfg = get_cfg(fi)
            st = cfg.stmt_of(node)
            rebinds = {cfg.stmt_of(b) for b, _, _ in allb}
            # only the bindings that can reach the attach site matter
            bs = [(b, val) for b, val, idx in allb if cfg.paths_avoiding(cfg.stmt_of(b), st, lambda x, me=cfg.stmt_of(b): x in rebinds and x is not me)]
            # `x = None` is a placeholder ("not built yet"), not the node; it still counts as a rebinding below
            bs = [(b, val) for b, val in bs if not (isinstance(val, ast.Constant) and val.value is None)]
            if not bs or any(idx is not None for b, _, idx in allb if any(b is b2 for b2, _ in bs)) or not all(_is_node_valued(corpus, fi, val) for _, val in bs):
                continue
            again = any(cfg.paths_avoiding(s_, st, lambda x: x in rebinds) for s_ in cfg.succ.get(st, []) if s_ not in rebinds)
            key = f"{fi.fq}|node built once, attached once|{short(node, 70)}"
            site = fi.module.site(node)
            rep.saw_function(fi.fq)
            if again:
                rep.violation("C03.R5", key, site, f"`{name}` is built by `{short(bs[0][1], 50)}` and attached by {desc} on every iteration without being rebuilt in between: the same node object is listed several times / under several parents")
            else:
                rep.ok("C03.R5", key, site, f"`{name}` is rebuilt before every attach")


def _is_token_expr(fi: FunctionInfo, e: ast.expr) -> bool:
    """Is the expression rooted in a parameter annotated as a markdown-it token / syntax tree node?"""
    r = _root_name(e)
    if r is None:
        return False
    f: FunctionInfo | None = fi
    while f is not None:
        a = getattr(f.node, "args", None)
        for x in (a.posonlyargs + a.args + a.kwonlyargs) if a else []:
            if x.arg == r and x.annotation is not None and any(w in unparse(x.annotation) for w in ("SyntaxTreeNode", "Token")):
                return True
        f = f.parent_func
    return False


def _child_list_writes(corpus: Corpus, rep: Report) -> None:
    """docutils keeps `.parent` in step with the child lists only inside Element.append/insert/extend/+=/replace/
    __setitem__: a direct write to `x.children` (or `x.parent`) of a node leaves the two out of step."""
    found = 0
    scanned = 0
    for fi in corpus.all_functions():
        if fi.is_lambda or fi.module.name.endswith(("._docs", ".parse_html")):
            continue
        scanned += 1
        for n in fi.local_nodes():
            hits: list[tuple[ast.AST, str]] = []
            if isinstance(n, (ast.Assign, ast.AugAssign, ast.AnnAssign)):
                tgts = n.targets if isinstance(n, ast.Assign) else [n.target]
                flat = [x for t in tgts for x in ([t] if not isinstance(t, (ast.Tuple, ast.List)) else t.elts)]
                vals = None
                if isinstance(n, ast.Assign) and len(tgts) == 1 and isinstance(tgts[0], (ast.Tuple, ast.List)) and isinstance(n.value, (ast.Tuple, ast.List)) and len(n.value.elts) == len(tgts[0].elts):
                    vals = n.value.elts
                for i, t in enumerate(flat):
                    base = t.value if isinstance(t, ast.Subscript) else t
                    if isinstance(base, ast.Attribute) and base.attr == "children" and not _is_token_expr(fi, base.value) and unparse(base.value) != "self":
                        v = vals[i] if vals is not None else getattr(n, "value", None)
                        if isinstance(t, ast.Attribute) and isinstance(v, (ast.List, ast.Tuple)) and not v.elts:
                            continue  # emptying a child list
                        hits.append((t, f"`{short(n, 60)}` writes the child list of `{unparse(base.value)}` directly"))
                    elif isinstance(t, ast.Attribute) and t.attr == "parent" and unparse(t.value) != "self" and not _is_token_expr(fi, t.value):
                        hits.append((t, f"`{short(n, 60)}` sets `.parent` by hand"))
            elif isinstance(n, ast.Call) and isinstance(n.func, ast.Attribute) and n.func.attr in ("append", "extend", "insert") and isinstance(n.func.value, ast.Attribute) and n.func.value.attr == "children" and not _is_token_expr(fi, n.func.value.value) and unparse(n.func.value.value) != "self":
                hits.append((n, f"`{short(n, 60)}` mutates the child list of `{unparse(n.func.value.value)}` directly"))
            for t, why in hits:
                found += 1
                rep.saw_function(fi.fq)
                rep.violation("C03.R5", f"{fi.fq}|child list changed only through the docutils API|{short(n, 70)}", fi.module.site(n), f"{why}, bypassing Element.append()/setup_child(): the nodes' .parent no longer names the node that lists them")
    if not found:
        rep.ok("C03.R5", "package|child lists and .parent of nodes are changed only through the docutils API", "myst_parser", f"no direct write in {scanned} functions")


NODE_BEARING_LOOKUPS = {
    # docutils lookups returning (object, [system_message, ...]); re-verified against the sibling source
    "docutils.parsers.rst.directives.directive": ("docutils/parsers/rst/directives/__init__.py", "directive"),
    "docutils.parsers.rst.roles.role": ("docutils/parsers/rst/roles.py", "role"),
}


def _lookup_returns_messages(corpus: Corpus, rel: str, fname: str) -> bool:
    def compute():
        m = corpus.sibling(rel)
        f = m.functions.get(fname)
        if f is None:
            return False
        lists = {t.id for n in ast.walk(f.node) if isinstance(n, ast.Assign) and isinstance(n.value, ast.List) for t in n.targets if isinstance(t, ast.Name)}
        fed = {n.func.value.id for n in ast.walk(f.node) if isinstance(n, ast.Call) and isinstance(n.func, ast.Attribute) and n.func.attr == "append" and isinstance(n.func.value, ast.Name) and n.func.value.id in lists and n.args and (isinstance(n.args[0], ast.Call) or isinstance(n.args[0], ast.Name))}
        return any(isinstance(n, ast.Return) and isinstance(n.value, ast.Tuple) and len(n.value.elts) == 2 and isinstance(n.value.elts[1], ast.Name) and n.value.elts[1].id in fed for n in ast.walk(f.node))

    return corpus.cache(("c03-lookup-msgs", rel, fname), compute)


def _cached_node_results(corpus: Corpus, rep: Report) -> None:
    """A node (or a lookup result that carries system_message nodes) kept in an attribute of `self` outlives the
    use it was made for; reading it back and attaching it shares one node object between several places."""
    found = 0
    for fi in corpus.all_functions():
        if fi.is_lambda or fi.module.name.endswith("._docs"):
            continue
        for n in fi.local_nodes():
            if not isinstance(n, (ast.Assign, ast.AnnAssign)) or n.value is None or not isinstance(n.value, ast.Call):
                continue
            tgts = n.targets if isinstance(n, ast.Assign) else [n.target]
            for t in tgts:
                base = t.value if isinstance(t, ast.Subscript) else t
                if not (isinstance(base, ast.Attribute) and unparse(base.value) == "self"):
                    continue
                res = fi.module.resolve(dotted(n.value.func) or "")
                bearing_idx = None
                if res in NODE_BEARING_LOOKUPS:
                    if not _lookup_returns_messages(corpus, *NODE_BEARING_LOOKUPS[res]):
                        continue
                    bearing_idx = 1
                elif not (_is_node_valued(corpus, fi, n.value) and isinstance(t, ast.Subscript)):
                    continue  # a plain `self.x = nodes.y()` is the renderer's own state, not a cache
                attr = base.attr
                found += 1
                _judge_cache_reads(corpus, rep, fi, n, attr, bearing_idx)
    if not found:
        rep.ok("C03.R5", "package|no node-bearing result is kept in a container on self", "myst_parser", "no store of a node / (object, messages) lookup result into an attribute of self")


def _judge_cache_reads(corpus: Corpus, rep: Report, sfi: FunctionInfo, store: ast.AST, attr: str, idx: int | None) -> None:
    g = get_callgraph(corpus)
    key = f"{sfi.fq}|node-bearing result cached in self.{attr}|{short(store, 60)}"
    site = sfi.module.site(store)
    rep.saw_function(sfi.fq)
    bad = None
    for fi in corpus.all_functions():
        if fi.is_lambda or fi.cls is None or sfi.cls is None:
            continue
        if fi.cls.fq != sfi.cls.fq and sfi.cls not in corpus.mro(fi.cls) and fi.cls not in corpus.mro(sfi.cls):
            continue
        for r in fi.local_nodes():
            if not (isinstance(r, ast.Attribute) and r.attr == attr and unparse(r.value) == "self" and isinstance(r.ctx, ast.Load)):
                continue
            e: ast.AST = r
            while isinstance(parent(e), ast.Subscript) and parent(e).value is e and isinstance(parent(e).ctx, ast.Load):
                e = parent(e)
            p_ = parent(e)
            names: list[str] = []
            if isinstance(p_, ast.Assign) and p_.value is e:
                for t in p_.targets:
                    if isinstance(t, ast.Name):
                        names.append(t.id)
                    elif isinstance(t, (ast.Tuple, ast.List)):
                        for i, x in enumerate(t.elts):
                            if isinstance(x, ast.Name) and (idx is None or i == idx):
                                names.append(x.id)
            for nm in list(names):
                for a2 in fi.local_nodes():
                    if isinstance(a2, ast.Assign) and isinstance(a2.value, ast.Name) and a2.value.id == nm:
                        for t2 in a2.targets:
                            if isinstance(t2, (ast.Tuple, ast.List)):
                                names.extend(x.id for i, x in enumerate(t2.elts) if isinstance(x, ast.Name) and (idx is None or i == idx))
            for nm in names:
                # the read must be able to happen without the store having just run (a real cache hit)
                if fi.fq == sfi.fq:
                    cfg = get_cfg(fi)
                    if not cfg.paths_avoiding(ENTRY, cfg.stmt_of(r), lambda x: x is cfg.stmt_of(store)):
                        continue
                hit = _value_attached_in(fi, nm)
                if hit is not None:
                    bad = (fi, r, f"`{short(hit, 50)}` in {fi.qualname}")
                ret = _returned_with(fi, nm)
                if ret is not None and bad is None:
                    for cfi, call in g.callers().get(fi.fq, []):
                        if cfi.is_lambda:
                            continue
                        ev = [x for x in _attach_events(cfi) if any(y is call for v in x[2] for y in ast.walk(v))]
                        pc = parent(call)
                        h2 = ev[0][0] if ev else (_value_attached_in(cfi, pc.targets[0].id) if isinstance(pc, ast.Assign) and len(pc.targets) == 1 and isinstance(pc.targets[0], ast.Name) else None)
                        if h2 is not None:
                            bad = (fi, r, f"`{short(h2, 50)}` in {cfi.qualname} (through the value returned by {fi.qualname})")
    if bad:
        rep.violation("C03.R5", key, site, f"the stored result carries node objects; `{short(parent(bad[1]) if isinstance(parent(bad[1]), ast.Subscript) else bad[1], 40)}` reads it back on a cache hit and the nodes are attached by {bad[2]}: every use after the first inserts the very same node object again")
    else:
        rep.ok("C03.R5", key, site, "the cached nodes are never attached from the cache")


def _collection_source(e: ast.expr, fi: FunctionInfo, depth: int = 0) -> str | None:
    """Canonical text of the node list whose *objects* the expression hands out (copies of the list still hand out
    the same node objects; deep copies and fresh literals do not).  None when it hands out nothing that is shared."""
    if depth > 5:
        return None
    if isinstance(e, ast.Name):
        bs = [b for b in _bindings(fi, e.id) if not isinstance(b[0], ast.AugAssign)]
        if len(bs) == 1 and bs[0][1] is not None and bs[0][2] is None:
            inner = _collection_source(bs[0][1], fi, depth + 1)
            return inner if inner is not None else (e.id if isinstance(bs[0][1], (ast.List, ast.ListComp)) and _appended_nodes(fi, e.id) else None)
        return None
    if isinstance(e, ast.Attribute) and e.attr == "children":
        return unparse(e)
    if isinstance(e, ast.Call) and dotted(e.func) in ("list", "tuple", "sorted", "reversed") and len(e.args) >= 1:
        return _collection_source(e.args[0], fi, depth + 1)
    if isinstance(e, ast.Call) and dotted(e.func) == "filter" and len(e.args) == 2:
        return _collection_source(e.args[1], fi, depth + 1)
    # the descendants of X found by a tree walk lie in the subtrees of X.children
    if isinstance(e, ast.Call) and isinstance(e.func, ast.Attribute) and e.func.attr in ("findall", "traverse") and isinstance(e.func.value, (ast.Name, ast.Attribute)):
        return f"{unparse(e.func.value)}.children"
    if isinstance(e, ast.Call) and isinstance(e.func, ast.Call) and dotted(e.func.func) == "findall" and len(e.func.args) == 1:
        return f"{unparse(e.func.args[0])}.children"
    if isinstance(e, ast.Subscript) and isinstance(e.slice, ast.Slice):
        return _collection_source(e.value, fi, depth + 1)
    if isinstance(e, (ast.ListComp, ast.GeneratorExp)) and len(e.generators) == 1 and unparse(e.elt) == unparse(e.generators[0].target):
        base = _collection_source(e.generators[0].iter, fi, depth + 1)
        gen = e.generators[0]
        if base is not None and gen.ifs and "|if " not in base and isinstance(gen.target, ast.Name):
            import re as _re

            cond = " and ".join(_re.sub(r"\b" + _re.escape(gen.target.id) + r"\b", "_", unparse(c)) for c in gen.ifs)
            return f"{base}|if {cond}"  # a subset of the source
        return base
    return None


def _share_nodes(a: str, b: str) -> bool | None:
    """Do two collection sources hand out common node objects?  (None: cannot tell.)"""
    ba, _, ca = a.partition("|if ")
    bb, _, cb = b.partition("|if ")
    if ba != bb:
        return False
    if not ca or not cb or ca == cb:
        return True
    strip = lambda x: x[1:-1] if x.startswith("(") and x.endswith(")") else x
    if ca in (f"not {cb}", f"not ({cb})") or cb in (f"not {ca}", f"not ({ca})") or strip(ca) == f"not {strip(cb)}":
        return False  # complementary filters partition the source
    return None


def _appended_nodes(fi: FunctionInfo, name: str) -> bool:
    return any(isinstance(recv, ast.Name) and recv.id == name for _, recv, _, _ in _attach_events(fi))


def _detach_loop(fi: FunctionInfo, e: ast.expr) -> ast.For | None:
    """`for m in <e>: m.parent.remove(m)` - every node of the collection held in local ``e`` is taken out of its parent."""
    if not isinstance(e, ast.Name):
        return None
    for lp in fi.local_nodes():
        if isinstance(lp, ast.For) and isinstance(lp.iter, ast.Name) and lp.iter.id == e.id and isinstance(lp.target, ast.Name) and not lp.orelse:
            v = lp.target.id
            # the removal must happen on every iteration: a top-level statement of the body
            if any(isinstance(st, ast.Expr) and isinstance(st.value, ast.Call) and _is_discard_of(st.value, v, fi) and isinstance(st.value.func, ast.Attribute) and st.value.func.attr == "remove" for st in lp.body):
                return lp
    return None


def _detached_before_handed_out(fi: FunctionInfo, ret: ast.Return, a: ast.expr, b: ast.expr) -> bool:
    """Two returned collections draw on the same nodes, but one of them is emptied out of the tree first: the other is
    then disjoint from it if it is the live child list (read at the return) or a copy taken after the removal."""
    cfg = get_cfg(fi)
    rst = cfg.stmt_of(ret)
    for taken, other in ((a, b), (b, a)):
        lp = _detach_loop(fi, taken)
        if lp is None or lp not in cfg.dom().get(rst, set()) or any(ret is y for y in ast.walk(lp)):
            continue
        # the collection must not be refilled / rebound after the loop
        if isinstance(taken, ast.Name) and any(cfg.stmt_of(bd) in cfg.reachable_from(("F", lp)) for bd, _, _ in _bindings(fi, taken.id) if bd is not lp):
            continue
        if isinstance(other, ast.Attribute) and other.attr == "children":
            return True  # read when the function returns: after the removal
        if isinstance(other, ast.Name):
            bs = [(bd, v) for bd, v, i in _bindings(fi, other.id) if not isinstance(bd, ast.AugAssign)]
            if len(bs) != 1 or bs[0][1] is None:
                return False
            bd, v = bs[0]
            if isinstance(v, ast.Attribute) and v.attr == "children":
                return True  # the same list object as the node's child list (no copy)
            bst = cfg.stmt_of(bd)
            return lp in cfg.dom().get(bst, set()) and not any(bd is y for y in ast.walk(lp))  # a copy taken after the removal
    return False


def _returned_collections_disjoint(corpus: Corpus, rep: Report) -> None:
    """A function that hands out several node collections at once (docutils' `(nodes, messages)` convention: the
    caller attaches both) must not put the same node objects into two of them."""
    n = 0
    for fi in corpus.all_functions():
        if fi.is_lambda or fi.module.name.endswith(("._docs", ".parse_html")) or "docutils.nodes" not in set(fi.module.imports.values()):
            continue
        for r in fi.local_nodes():
            if not (isinstance(r, ast.Return) and isinstance(r.value, ast.Tuple) and len(r.value.elts) >= 2):
                continue
            srcs = [(el, _collection_source(el, fi)) for el in r.value.elts]
            srcs = [(el, sname) for el, sname in srcs if sname is not None]
            if not srcs:
                continue
            n += 1
            rep.saw_function(fi.fq)
            key = f"{fi.fq}|returned node collections are disjoint|{short(r, 60)}"
            site = fi.module.site(r)
            dup = None
            unsure = None
            for i, (a, sa) in enumerate(srcs):
                for b, sb in srcs[i + 1:]:
                    sh = _share_nodes(sa, sb)
                    if sh:
                        dup = (a, b, sa.partition("|if ")[0])
                    elif sh is None:
                        unsure = (a, b)
            if dup and _detached_before_handed_out(fi, r, dup[0], dup[1]):
                rep.ok("C03.R5", key, site, f"the nodes collected in `{short(dup[1], 30)}` / `{short(dup[0], 30)}` are removed from their parents before the other collection is read")
                continue
            if unsure and not dup:
                rep.error("C03.R5", f"{site} {key}: cannot tell whether `{short(unsure[0], 40)}` and `{short(unsure[1], 40)}` (two filtered views of one node list) overlap")
            elif dup:
                rep.violation("C03.R5", key, site, f"`{short(dup[0], 40)}` and `{short(dup[1], 40)}` both hand out node objects of `{dup[2]}` (a filtered copy of a list still contains the same objects): a caller that attaches both collections, as docutils directives do with (nodes, messages), inserts those nodes twice")
            else:
                rep.ok("C03.R5", key, site, "the elements hand out disjoint node objects (" + ", ".join(sorted({x for _, x in srcs}))[:120] + ")")
    if n < 1:
        rep.error("C03.R5", "expected at least MockInliner.parse returning (nodes, messages)")


LIB_ATTACHERS = {
    # callee (resolved name, or method name) -> (positional index, keyword) of the node it appends to its result
    "sphinx.util.nodes.make_refnode": (4, "child"),
    ".resolve_any_xref": (5, "contnode"),
    ".resolve_xref": (6, "contnode"),
}


def _lib_attach_args(fi: FunctionInfo, c: ast.Call) -> list[ast.expr]:
    spec = LIB_ATTACHERS.get(_resolved(fi, c.func) or "")
    if spec is None and isinstance(c.func, ast.Attribute):
        spec = LIB_ATTACHERS.get("." + c.func.attr)
    if spec is None or any(isinstance(a, ast.Starred) for a in c.args):
        return []
    out = []
    if len(c.args) > spec[0]:
        out.append(c.args[spec[0]])
    k = kwarg(c, spec[1])
    if k is not None:
        out.append(k)
    return out


def _one_node_one_attach(corpus: Corpus, rep: Report) -> None:
    """One node object held in a local/parameter is given a parent at most once per path: appending it to two nodes, or
    handing it as the content node to two library calls that append it to what they build (make_refnode,
    Domain.resolve_xref / resolve_any_xref), leaves it listed under both with .parent naming only the last."""
    for fi in corpus.all_functions():
        if fi.is_lambda or fi.module.name.endswith(("._docs", ".parse_html")) or "docutils.nodes" not in set(fi.module.imports.values()):
            continue
        events: dict[str, list[tuple[ast.AST, str]]] = {}
        for node, recv, vals, how in _attach_events(fi):
            if how not in MOVE_HOWS or _is_plain_container(fi, recv):
                continue
            for v in vals:
                if isinstance(v, ast.Name) and not _shadowed(v):
                    events.setdefault(v.id, []).append((node, f"`{short(node, 50)}`"))
        lib = False
        for c in fi.local_nodes():
            if isinstance(c, ast.Call):
                for a in _lib_attach_args(fi, c):
                    if isinstance(a, ast.Name) and not _shadowed(a):
                        events.setdefault(a.id, []).append((c, f"`{short(c, 50)}` (appends its content argument to the node it returns)"))
                        lib = True
        for name, evs in events.items():
            if len(evs) < 2 and not lib:
                continue
            if not (len(evs) >= 2 or any(isinstance(a, (ast.For, ast.While)) for n_, _ in evs for a in _ancestors(n_))):
                continue
            cfg = get_cfg(fi)
            rebinds = {cfg.stmt_of(b) for b, _, _ in _bindings(fi, name) if not isinstance(b, ast.AugAssign)}
            discards = {cfg.stmt_of(x) for x in fi.local_nodes() if _is_discard_of(x, name, fi)}
            stop = lambda x: x in rebinds or x in discards
            bad = None
            for a, da in evs:
                sa = cfg.stmt_of(a)
                for b, db in evs:
                    sb = cfg.stmt_of(b)
                    if a is b and not any(isinstance(l, (ast.For, ast.While)) for l in _ancestors(a)):
                        continue
                    if a is not b and sa is sb:
                        bad = (da, db)
                    elif any(cfg.paths_avoiding(s_, sb, stop) for s_ in cfg.succ.get(sa, []) if not stop(s_)):
                        bad = (da, db)
            key = f"{fi.fq}|`{name}` gets one parent per path"
            site = fi.module.site(evs[0][0])
            rep.saw_function(fi.fq)
            if bad:
                same = bad[0] == bad[1]
                rep.violation("C03.R5", key, site, (f"{bad[0]} runs once per loop iteration with the same node `{name}`" if same else f"{bad[0]} and {bad[1]} both give the node `{name}` a parent on one path") + ": it is then listed under several parents while .parent names only the last (hand each one its own `.deepcopy()`)")
            else:
                rep.ok("C03.R5", key, site, f"{len(evs)} attach site(s), never two on one path")


def _none_test(t: ast.expr, pname: str) -> bool | None:
    """Truth of test ``t`` when parameter ``pname`` holds None (None = not decidable from the shape)."""
    if isinstance(t, ast.UnaryOp) and isinstance(t.op, ast.Not):
        r = _none_test(t.operand, pname)
        return None if r is None else not r
    if isinstance(t, ast.Name) and t.id == pname:
        return False
    if isinstance(t, ast.Compare) and len(t.ops) == 1 and isinstance(t.left, ast.Name) and t.left.id == pname and isinstance(t.comparators[0], ast.Constant) and t.comparators[0].value is None:
        if isinstance(t.ops[0], (ast.Is, ast.Eq)):
            return True
        if isinstance(t.ops[0], (ast.IsNot, ast.NotEq)):
            return False
    return None


def _value_when_none(e: ast.expr | None, pname: str, depth: int = 0) -> tuple[str, ast.expr | None]:
    """What expression ``e`` evaluates to when parameter ``pname`` is None: ("none", None) - it stays None;
    ("attach", X) - some other receiver X takes its place; ("unknown", e) - shape not understood."""
    if e is None or (isinstance(e, ast.Constant) and e.value is None) or (isinstance(e, ast.Name) and e.id == pname):
        return ("none", None)
    if depth > 4:
        return ("unknown", e)
    if isinstance(e, ast.IfExp):
        r = _none_test(e.test, pname)
        if r is None:
            return ("unknown", e)
        return _value_when_none(e.body if r else e.orelse, pname, depth + 1)
    if isinstance(e, ast.BoolOp) and len(e.values) == 2 and isinstance(e.values[0], ast.Name) and e.values[0].id == pname:
        if isinstance(e.op, ast.And):
            return ("none", None)
        return _value_when_none(e.values[1], pname, depth + 1)
    if any(isinstance(y, ast.Name) and y.id == pname for y in ast.walk(e)):
        return ("unknown", e)
    if isinstance(e, (ast.Attribute, ast.Name, ast.Subscript)):
        return ("attach", e)
    return ("unknown", e)


def _warning_wrappers(corpus: Corpus) -> dict[str, tuple[FunctionInfo, str, ast.expr | None]]:
    """The forwarding wrappers `def create_warning(..., append_to=None): return create_warning(..., append_to=E)`:
    fq -> (wrapper, status, X) where status says what receiver the message node gets when the caller gives none."""
    def compute():
        out = {}
        for fi in corpus.all_functions():
            if fi.is_lambda or fi.name != "create_warning" or "append_to" not in fi.params:
                continue
            fwd = [c for c in fi.local_nodes() if isinstance(c, ast.Call) and _create_warning_call(c) and isinstance(parent(c), ast.Return)]
            if not fwd:
                continue
            res: tuple[str, ast.expr | None] = ("none", None)
            if any(not isinstance(b, ast.arg) for b, _, _ in _bindings(fi, "append_to")):
                res = ("unknown", None)
            for c in fwd:
                if any(k.arg is None for k in c.keywords):
                    r = ("unknown", c)
                else:
                    r = _value_when_none(kwarg(c, "append_to"), "append_to")
                if r[0] != "none" and res[0] != "unknown":
                    res = r
            out[fi.fq] = (fi, res[0], res[1])
        return out
    return corpus.cache("c03.warning_wrappers", compute)


def _result_attached_by_callers(g, fi: FunctionInfo, depth: int = 0, seen: frozenset = frozenset()) -> list[str]:
    """Attach sites, in the callers of ``fi`` (and, where a caller just hands the result on, in theirs), of the value ``fi`` returns."""
    out: list[str] = []
    if depth > 3 or fi.fq in seen:
        return out
    seen = seen | {fi.fq}
    for cfi, call in g.callers().get(fi.fq, []):
        if cfi.is_lambda:
            continue
        pc = parent(call)
        ev = [e for e in _attach_events(cfi) if any(y is call for v in e[2] for y in ast.walk(v))]
        if ev:
            out.append(f"`{short(ev[0][0], 50)}` in {cfi.qualname}")
        elif isinstance(pc, ast.Assign) and len(pc.targets) == 1 and isinstance(pc.targets[0], ast.Name):
            h2 = _value_attached_in(cfi, pc.targets[0].id)
            if h2 is not None:
                out.append(f"`{short(h2, 50)}` in {cfi.qualname}")
            elif _returned_with(cfi, pc.targets[0].id) is not None:
                out.extend(_result_attached_by_callers(g, cfi, depth + 1, seen))
        elif isinstance(pc, ast.Return):
            out.extend(_result_attached_by_callers(g, cfi, depth + 1, seen))
    return out


def _attach_and_return(corpus: Corpus, rep: Report) -> None:
    """create_warning(..., append_to=X) attaches the message node to X *and* returns it: a result obtained
    that way must not be attached again (directly, or by a caller that attaches the returned collection)."""
    g = get_callgraph(corpus)
    n_used = 0
    wrappers = _warning_wrappers(corpus)
    for wfi, status, wx in wrappers.values():
        wkey = f"{wfi.fq}|a warning created without append_to is attached nowhere by the wrapper"
        if status == "none":
            rep.ok("C03.R5", wkey, wfi.site(), "append_to is forwarded as given (None stays None)")
        elif status == "attach":
            rep.listed("C03.R5", wkey, wfi.site(), f"without append_to the wrapper attaches the message node to `{unparse(wx)}`: every call is judged as create_warning(append_to={unparse(wx)})")

    def effective_append_to(fi: FunctionInfo, c: ast.Call) -> ast.expr | None:
        """The receiver the message node is attached to by the call itself (None: nowhere)."""
        a = kwarg(c, "append_to")
        if a is not None and not (isinstance(a, ast.Constant) and a.value is None):
            return a
        if not isinstance(c.func, ast.Attribute):
            return None  # the module-level function: attaches only to a given append_to (C14.R5 reads its body)
        tgts = [t for t in g.flat_targets(g.resolve_call(c, fi)) if t.fq in wrappers]
        cands = [wrappers[t.fq] for t in tgts] or [w for w in wrappers.values() if w[0].cls is not None]
        for wfi, status, wx in cands:
            if status == "unknown":
                raise Unsupported(f"{wfi.site()} {wfi.qualname}: what `append_to` becomes when the caller gives none is not understood; result of `{short(c, 50)}` in {fi.qualname} cannot be judged")
        for wfi, status, wx in cands:
            if status == "attach":
                return wx
        return None

    for fi in corpus.all_functions():
        if fi.is_lambda:
            continue
        for c in fi.local_nodes():
            if not (isinstance(c, ast.Call) and _create_warning_call(c)):
                continue
            p = parent(c)
            if isinstance(p, ast.Expr):
                continue  # result discarded
            if isinstance(p, ast.Lambda):
                continue  # warning callback handed to merge_file_level: every call of it discards the value (C14.R5)
            if isinstance(p, ast.Return) and fi.name == "create_warning":
                continue  # the forwarding wrapper: its callers are the instances
            # collected directly: `msgs = [create_warning(...) for w in ...]`, `[create_warning(...)]`, `x if x else []`
            hops = 0
            while isinstance(p, (ast.ListComp, ast.List, ast.Tuple, ast.IfExp, ast.GeneratorExp, ast.Starred)) and hops < 4:
                p, hops = parent(p), hops + 1
            if hops and isinstance(p, ast.Call) and dotted(p.func) in ("list", "tuple"):
                p = parent(p)
            if not (isinstance(p, ast.Assign) and len(p.targets) == 1 and isinstance(p.targets[0], ast.Name)):
                if isinstance(p, ast.Return):
                    if hops and effective_append_to(fi, c) is None:
                        continue  # returned in a fresh list, attached nowhere else here
                    if not hops:
                        continue  # a wrapper returning the node; C14.R5 judges such wrappers
                raise Unsupported(f"result of `{short(c, 50)}` used in `{short(p, 50)}` in {fi.qualname}")
            n_used += 1
            var = p.targets[0].id
            a = effective_append_to(fi, c)
            attached_by_api = a is not None
            key = f"{fi.fq}|warning node attached once|{short(c, 60)}"
            site = fi.module.site(c)
            rep.saw_function(fi.fq)
            # where does the node go afterwards?
            again: list[str] = []
            hit = _value_attached_in(fi, var)
            if hit is not None:
                again.append(f"`{short(hit, 50)}` in {fi.qualname}")
            ret = _returned_with(fi, var)
            if ret is not None:
                again.extend(_result_attached_by_callers(g, fi))
            if attached_by_api and again:
                rep.violation("C03.R5", key, site, f"create_warning(append_to={unparse(a)}) already appends the message node and returns the same object, which is then attached again by {again[0]}: the system_message occurs twice in the tree")
            elif attached_by_api:
                rep.ok("C03.R5", key, site, "attached by create_warning; the returned node is not attached again")
            elif len(again) > 1 and hit is not None:
                rep.violation("C03.R5", key, site, f"the message node is attached by {again[0]} and again by {again[1]}")
            else:
                rep.ok("C03.R5", key, site, "no append_to: attached (at most) by the receiver of the returned/collected node" + (f", {again[0]}" if again else ""))
    if n_used < 1:
        rep.error("C03.R5", "expected create_warning results that are handed on (html_to_nodes, run_directive)")


@rule("C03.R5")
def r5_single_parent(corpus: Corpus, rep: Report, tier: str):
    rep.rule("C03.R5", "an existing node is re-attached only after being detached, exactly once; children are moved out of a node at most once per path and the old owner is discarded on every path; a node already attached by create_warning(append_to=) is not attached again; a node built outside a loop is not attached inside it without being rebuilt; child lists are changed only through the docutils API; node-bearing results cached on self are not attached from the cache; node collections returned together are disjoint")
    mv = _Moves(corpus)
    n_inst = 0
    for modname in SURGERY_MODULES:
        m = corpus.mod(modname)
        for fi in m.functions.values():
            if fi.is_lambda:
                continue
            cfg = None
            # (a) detach ... re-attach of a loop variable (an existing node of the tree)
            loopvars: dict[str, list[ast.For]] = {}
            for st in fi.local_nodes():
                if isinstance(st, ast.For):
                    for x in ast.walk(st.target):
                        if isinstance(x, ast.Name):
                            loopvars.setdefault(x.id, []).append(st)
            for node, recv, vals, how in _attach_events(fi):
                if how not in MOVE_HOWS:
                    continue
                for v in vals:
                    if not (isinstance(v, ast.Name) and v.id in loopvars):
                        continue
                    lps = [l for l in loopvars[v.id] if any(node is y for y in ast.walk(l))]
                    if not lps:
                        continue
                    lp = min(lps, key=lambda l: l.end_lineno - l.lineno)
                    rb = _single_value(fi, recv.id) if isinstance(recv, ast.Name) else None
                    if isinstance(rb, (ast.List, ast.Dict, ast.Set)) or (isinstance(rb, ast.Call) and dotted(rb.func) in ("list", "dict", "set")):
                        continue  # a plain Python container, not a node
                    cfg = cfg or get_cfg(fi)
                    n_inst += 1
                    rep.saw_function(fi.fq)
                    st = cfg.stmt_of(node)
                    detach = {cfg.stmt_of(x) for x in ast.walk(lp) if _is_discard_of(x, v.id, fi) and isinstance(x, ast.Call) and x.func.attr == "remove"}
                    key = f"{fi.fq}|re-attach of existing node `{v.id}`|{short(node, 60)}"
                    site = fi.module.site(node)
                    if not detach or cfg.paths_avoiding(("T", lp), st, lambda x: x in detach):
                        rep.violation("C03.R5", key, site, f"`{v.id}` iterates over nodes that are already in the tree; it is attached to `{unparse(recv)}` on a path that has not removed it from its old parent: the node is then listed under two parents")
                        continue
                    attaches = {cfg.stmt_of(a) for a, r2, vs, h in _attach_events(fi) if h in MOVE_HOWS and any(isinstance(y, ast.Name) and y.id == v.id for y in vs) and a in list(ast.walk(lp))}
                    cnt = cfg.counts(("T", lp), [lp, EXIT], lambda x: 1 if x in attaches else 0)
                    after = set().union(*cnt.values()) if cnt else set()
                    if 2 in after:
                        rep.violation("C03.R5", key, site, f"`{v.id}` can be attached twice in one iteration")
                    else:
                        rep.ok("C03.R5", key, site, "removed from its old parent first; attached at most once per iteration")
            # (b) children moved out of a node
            roots = set()
            for node, recv, vals, how in _attach_events(fi):
                for v in vals:
                    o = _children_of(v)
                    if o is not None and _root_name(o):
                        roots.add(_root_name(o))
            for n in fi.local_nodes():
                if isinstance(n, ast.Call):
                    for a in list(n.args) + [kw.value for kw in n.keywords]:
                        if isinstance(a, ast.Name):
                            roots.add(a.id)
            for root in sorted(roots):
                evs = mv.move_events(fi, root)
                if not evs:
                    continue
                cfg = cfg or get_cfg(fi)
                n_inst += 1
                rep.saw_function(fi.fq)
                ev_stmts: dict = {}
                for node, desc in evs:
                    ev_stmts.setdefault(cfg.stmt_of(node), []).append(desc)
                lps = [l for l in loopvars.get(root, []) if all(any(n_ is y for y in ast.walk(l)) for n_, _ in evs)]
                if root in loopvars and not lps:
                    rep.error("C03.R5", f"{fi.site()} {fi.qualname}: moves of `{root}`'s children are not inside one loop over `{root}`: not modelled")
                    continue
                lp = min(lps, key=lambda l: l.end_lineno - l.lineno) if lps else None
                start = ("T", lp) if lp is not None else ENTRY
                stops = [EXIT] + ([lp] if lp is not None else [])
                # a rebinding of root between two events would make them different owners
                if root not in loopvars and _bindings(fi, root):
                    rep.error("C03.R5", f"{fi.site()} {fi.qualname}: `{root}` whose children are moved is reassigned: not modelled")
                    continue
                cnt = cfg.counts(start, stops, lambda x: len(ev_stmts.get(x, [])))
                worst = set().union(*cnt.values()) if cnt else set()
                key = f"{fi.fq}|children of `{root}` moved at most once per path"
                site = fi.module.site(evs[0][0])
                if 2 in worst:
                    names = "; ".join(d for ds in ev_stmts.values() for d in ds)
                    rep.violation("C03.R5", key, site, f"one path executes more than one move of the same child nodes ({names}): docutils' append/extend re-parents without detaching, so the first new parent still lists children whose .parent is the second")
                else:
                    rep.ok("C03.R5", key, site, f"{len(evs)} move site(s), at most one per path")
                # the old owner must leave the tree (only judged where the owner is acquired: not a parameter)
                if root in fi.params:
                    rep.listed("C03.R5", f"{fi.fq}|owner `{root}` is a parameter: discard judged at the callers", site)
                    continue
                ds = mv.discard_stmts(fi, root)
                key = f"{fi.fq}|old owner `{root}` is discarded after its children moved"
                bad = None
                for st_ in ev_stmts:
                    if st_ in ds:
                        continue
                    for stop in stops:
                        if cfg.paths_avoiding(st_, stop, lambda x: x in ds):
                            bad = st_
                if bad is not None:
                    rep.violation("C03.R5", key, fi.module.site(bad), f"after `{short(bad, 60)}` some path leaves `{root}` in the tree: its former children are listed under two parents")
                else:
                    rep.ok("C03.R5", key, site, "every path after the move replaces/removes the old owner")
    _attach_and_return(corpus, rep)
    _built_once_attached_in_loop(corpus, rep)
    _child_list_writes(corpus, rep)
    _cached_node_results(corpus, rep)
    _returned_collections_disjoint(corpus, rep)
    _one_node_one_attach(corpus, rep)
    rep.expect_min("C03.R5", 3, "CollectFootnotes re-attach; children moves in ResolveAnchorIds.apply (2) and the Sphinx resolver (9 judged instances on the pinned tree)")



# ---------------------------------------------------------------------------
# R7 ids are moved, not copied


def _ids_transfers(fi: FunctionInfo) -> list[tuple[ast.AST, str, str, str]]:
    """(node, donor name, receiver text, how) for every construct that hands the ids of one node to another."""
    out = []

    def attr_is_ids(e: ast.expr, at: ast.AST) -> bool:
        if isinstance(e, ast.Constant):
            return e.value == "ids"
        if isinstance(e, ast.Name):
            for a in _ancestors(at):
                if isinstance(a, ast.For) and isinstance(a.target, ast.Name) and a.target.id == e.id:
                    c = _literal_container(a.iter)
                    if c is None:
                        try:
                            c = fi.module.eval_const(a.iter)
                        except Exception:
                            return False  # keys computed at run time (a dict-to-dict copy): not the ids of a node
                    try:
                        return "ids" in c
                    except TypeError:
                        return False
        return False

    for n in fi.local_nodes():
        if isinstance(n, ast.Assign) and isinstance(n.value, ast.Subscript) and isinstance(n.value.value, ast.Name):
            for t in n.targets:
                if isinstance(t, ast.Subscript) and unparse(t.slice) == unparse(n.value.slice) and unparse(t.value) != n.value.value.id and attr_is_ids(t.slice, n):
                    out.append((n, n.value.value.id, unparse(t.value), f"`{short(n, 50)}`"))
        elif isinstance(n, ast.Call) and isinstance(n.func, ast.Attribute):
            a = n.func.attr
            if a in ("update_basic_atts", "update_all_atts", "update_all_atts_concatenating", "update_all_atts_coercion", "update_all_atts_convert") and n.args and isinstance(n.args[0], ast.Name):
                out.append((n, n.args[0].id, unparse(n.func.value), f"`{short(n, 50)}` (copies ids, names, classes, dupnames)"))
            elif a == "extend" and isinstance(n.func.value, ast.Subscript) and isinstance(n.func.value.slice, ast.Constant) and n.func.value.slice.value == "ids" and n.args and isinstance(n.args[0], ast.Subscript) and isinstance(n.args[0].value, ast.Name) and isinstance(n.args[0].slice, ast.Constant) and n.args[0].slice.value == "ids":
                out.append((n, n.args[0].value.id, unparse(n.func.value.value), f"`{short(n, 50)}`"))
            kw = kwarg(n, "ids")
            if kw is not None and isinstance(kw, ast.Subscript) and isinstance(kw.value, ast.Name) and isinstance(kw.slice, ast.Constant) and kw.slice.value == "ids" and _is_node_type(_ctor_class(fi, n)):
                p_ = parent(n)
                tgt = unparse(p_.targets[0]) if isinstance(p_, ast.Assign) else short(n, 30)
                out.append((n, kw.value.id, tgt, f"`ids={unparse(kw)}`"))
    return out


def _contents_topic_selection(corpus: Corpus, rep: Report, t_) -> None:
    """docutils' contents directive gives its topic the class 'contents' *among others* (`:local:` appends 'local',
    `:class:` appends more; read from the docutils source): the transform must treat every topic that has the class,
    so its selection is the plain membership test - an equality with a fixed class list, or an extra condition that
    skips some of them, leaves copies with ids in the tree."""
    d = corpus.sibling("docutils/parsers/rst/directives/parts.py")
    rep.saw_sibling(d.rel)
    f = d.functions.get("Contents.run")
    grows = f is not None and any(
        (isinstance(n, ast.AugAssign) and isinstance(n.target, ast.Subscript) and unparse(n.target.slice) == "'classes'")
        or (isinstance(n, ast.Call) and isinstance(n.func, ast.Attribute) and n.func.attr in ("append", "extend") and isinstance(n.func.value, ast.Subscript) and unparse(n.func.value.slice) == "'classes'")
        for n in ast.walk(f.node)
    )
    ap = t_.methods["apply"]
    key = f"{ap.fq}|every topic that has the class 'contents' is cleaned"
    site = ap.site()
    if not grows:
        rep.ok("C03.R7", key, site, "the installed docutils gives contents topics exactly one class: any selection on it is complete")
        return
    tests = [n for n in ap.local_nodes() if isinstance(n, ast.If) and any(isinstance(c, ast.Constant) and c.value == "contents" for c in ast.walk(n.test))]
    if len(tests) != 1:
        rep.error("C03.R7", f"{site} {key}: expected one test selecting the contents topics, found {len(tests)}")
        return
    iff = tests[0]
    skip_form = bool(iff.body) and isinstance(iff.body[-1], (ast.Continue, ast.Return)) and len(iff.body) == 1

    def member(x: ast.expr):
        """'in' / 'not in' when x is `"contents" (not) in <something>["classes"]`-like, 'eq' for a comparison with a fixed list."""
        if isinstance(x, ast.Compare) and len(x.ops) == 1:
            l, r = x.left, x.comparators[0]
            is_cls = lambda y: "classes" in unparse(y)
            if isinstance(l, ast.Constant) and l.value == "contents" and is_cls(r) and isinstance(x.ops[0], (ast.In, ast.NotIn)):
                return "in" if isinstance(x.ops[0], ast.In) else "notin"
            if isinstance(x.ops[0], (ast.Eq, ast.NotEq)) and ((is_cls(l) and isinstance(r, (ast.List, ast.Tuple))) or (is_cls(r) and isinstance(l, (ast.List, ast.Tuple)))):
                return "eq"
        return None

    t = iff.test
    while isinstance(t, ast.UnaryOp) and isinstance(t.op, ast.Not):
        t = t.operand
    parts = t.values if isinstance(t, ast.BoolOp) else [t]
    kinds = [member(x) for x in parts]
    if "eq" in kinds:
        rep.violation("C03.R7", key, ap.module.site(iff), f"`{short(iff.test, 60)}` selects only topics whose class list equals a fixed list: docutils appends 'local' (`:local:`) and the `:class:` values to ['contents'], so such a table of contents keeps the ids copied from the headings (duplicate ids)")
        return
    want = "notin" if skip_form else "in"
    if want not in kinds:
        rep.error("C03.R7", f"{ap.module.site(iff)} {key}: selection `{short(iff.test, 60)}` is not a membership test of 'contents' in the topic's classes")
        return
    extra = [x for x, k in zip(parts, kinds) if k is None]
    narrows = extra and ((skip_form and isinstance(t, ast.BoolOp) and isinstance(t.op, ast.Or)) or (not skip_form and isinstance(t, ast.BoolOp) and isinstance(t.op, ast.And)))
    if narrows:
        rep.violation("C03.R7", key, ap.module.site(iff), f"`{short(iff.test, 70)}` leaves out contents topics for which `{short(extra[0], 40)}` holds: their entries keep the ids copied from the headings (duplicate ids)")
    else:
        rep.ok("C03.R7", key, ap.module.site(iff), f"selected by `{short(iff.test, 50)}`")


def _contents_copies_lose_ids(corpus: Corpus, rep: Report) -> None:
    """docutils' `contents` directive builds its entries from deep copies of the section titles (transforms/parts.py,
    Contents) and strips only what rST can put into a title.  MyST can put an id on any inline element of a heading
    (copy_attributes with the "id" key in inline render methods), so a transform ordered after Contents must take the
    ids off the copies, in both front ends."""
    base = corpus.mod("mdit_to_docutils.base")
    premise = any(
        isinstance(c, ast.Call) and isinstance(c.func, ast.Attribute) and c.func.attr == "copy_attributes" and any(isinstance(a, (ast.Tuple, ast.List)) and "id" in (_literal_container(a) or []) for a in list(c.args) + [k.value for k in c.keywords])
        for q, f in base.functions.items() if f.name in ("render_span", "render_code_inline", "render_image", "render_link_url", "render_link") for c in f.local_nodes()
    )
    if not premise:
        rep.listed("C03.R7", "package|no inline render method copies an id attribute", "myst_parser", "nothing to strip from contents copies")
        return
    parts = corpus.sibling("docutils/transforms/parts.py")
    rep.saw_sibling(parts.rel)
    ci = parts.classes.get("Contents")
    prio = None
    if ci is not None:
        for st in ci.node.body:
            if isinstance(st, ast.Assign) and unparse(st.targets[0]) == "default_priority" and isinstance(st.value, ast.Constant):
                prio = st.value.value
    copies = ci is not None and any(isinstance(c, ast.Call) and isinstance(c.func, ast.Attribute) and c.func.attr in ("deepcopy", "walkabout", "get_tree_copy") for c in ast.walk(parts.tree))
    if prio is None or not copies:
        rep.error("C03.R7", "docutils transforms/parts.py: Contents no longer has a constant default_priority / copies titles (sibling changed)")
        return
    # candidate transforms of the package: write x["ids"] for elements below a topic of class "contents", after Contents
    cands = []
    for ci_ in corpus.all_classes():
        ap = ci_.methods.get("apply")
        if ap is None:
            continue
        txt = unparse(ap.node)
        writes_ids = any(isinstance(n, (ast.Assign, ast.Delete)) and any(isinstance(t, ast.Subscript) and isinstance(t.slice, ast.Constant) and t.slice.value == "ids" for tt in (n.targets if hasattr(n, "targets") else []) for t in ([tt] if not isinstance(tt, (ast.Tuple, ast.List)) else tt.elts)) for n in ap.local_nodes())
        if not (writes_ids and "contents" in txt and "topic" in txt):
            continue
        p_ = None
        for st in ci_.node.body:
            if isinstance(st, ast.Assign) and unparse(st.targets[0]) == "default_priority":
                try:
                    p_ = ci_.module.eval_const(st.value)
                except Exception:
                    p_ = None
        cands.append((ci_, p_))
    key0 = "package|ids on inline heading content are taken off the copies docutils' contents directive makes"
    good = [c for c, p_ in cands if isinstance(p_, int) and p_ > prio]
    if not good:
        rep.violation("C03.R7", key0, base.rel, f"no transform ordered after docutils' Contents (priority {prio}) clears the ids of the elements inside the contents topic: an inline element of a heading that carries an id ({{#id}} with attrs_inline) appears twice in the document with the same id" + (f" (found {cands[0][0].name} with priority {cands[0][1]}: not after Contents)" if cands else ""))
        return
    t_ = good[0]
    rep.ok("C03.R7", key0, t_.module.site(t_.node), f"{t_.name} (priority > {prio})")
    _contents_topic_selection(corpus, rep, t_)
    for modname, q in (("parsers.docutils_", "Parser.get_transforms"), ("parsers.sphinx_", "MystParser.get_transforms")):
        f = corpus.func(f"{modname}:{q}")
        listed = any(isinstance(n, ast.Name) and n.id == t_.name and f.module.resolve(n.id).endswith("." + t_.name) for n in f.local_nodes())
        key = f"{f.fq}|registers the transform that strips ids from contents copies"
        if listed:
            rep.ok("C03.R7", key, f.site(), t_.name)
        else:
            rep.violation("C03.R7", key, f.site(), f"{t_.name} is not among the transforms of this front end: with a `contents` directive the ids of inline heading content are duplicated in the table of contents")


PLACEHOLDER_CLASSES = ("sphinx.addnodes.pending_xref", "docutils.nodes.pending")


def _children_only_readers(corpus: Corpus) -> list[str]:
    """Resolver functions that rebuild a reference from the *children* of a pending_xref's content node
    (`x.extend(c.deepcopy() for c in node[0].children)`): the content node's own ids/names do not survive them."""

    def compute():
        out = []
        m = corpus.mod("sphinx_ext.myst_refs")
        for q, f in m.functions.items():
            if f.is_lambda:
                continue
            for n in f.local_nodes():
                if isinstance(n, ast.Attribute) and n.attr == "children" and isinstance(n.value, ast.Subscript) and isinstance(n.value.slice, ast.Constant) and n.value.slice.value == 0:
                    p_ = parent(n)
                    if isinstance(p_, ast.comprehension) or (isinstance(p_, ast.Call) and n in p_.args):
                        out.append(f.qualname)
                        break
        return out

    return corpus.cache("c03-children-only-readers", compute)


def _ids_reach_the_replacement(corpus: Corpus, rep: Report, fi: FunctionInfo, cfg, donor: str, evs) -> None:
    """When the donor is replaced by a placeholder that a later pass resolves (pending_xref / pending), its ids have to
    be handed to the placeholder itself - `replace_self` carries the placeholder's own basic attributes over to what
    the resolver builds, while the resolvers keep only the children of the nodes inside it - and on every path."""
    reps = []
    for n in fi.local_nodes():
        if isinstance(n, ast.Call) and isinstance(n.func, ast.Attribute):
            if n.func.attr == "replace" and len(n.args) == 2 and unparse(n.args[0]) == donor and unparse(n.func.value) == f"{donor}.parent":
                reps.append((n, n.args[1], False))
            elif n.func.attr == "replace_self" and unparse(n.func.value) == donor and n.args:
                reps.append((n, n.args[0], True))
    for call, new, carries in reps:
        cls_ = _local_ctor(fi, new) if isinstance(new, ast.Name) else None
        # (`addnodes` may be imported inside the function: then only the dotted tail is known)
        if cls_ is None or not (cls_ in PLACEHOLDER_CLASSES or cls_.endswith((".pending_xref", "nodes.pending"))):
            continue
        readers = _children_only_readers(corpus)
        site = fi.module.site(call)
        key = f"{fi.fq}|ids of `{donor}` go to the placeholder that replaces it"
        wrong = [(nd, r) for nd, r, h in evs if r != new.id]
        if wrong and readers:
            rep.violation("C03.R7", key, fi.module.site(wrong[0][0]), f"the ids of `{donor}` are handed to `{wrong[0][1]}`, a node inside the {(_local_ctor(fi, new) or '').rsplit('.', 1)[-1]} `{new.id}` that replaces it: the resolvers ({', '.join(readers[:3])}) rebuild the reference from the children of that content node only, so the ids are lost and links to them point at nothing, without a warning")
        else:
            rep.ok("C03.R7", key, site, f"handed to `{new.id}` itself" + ("" if readers else " (no resolver drops the content node)"))
        if carries:
            continue  # replace_self carries the basic attributes over by itself
        key2 = f"{fi.fq}|ids of `{donor}` are handed on before every `{short(call, 40)}`"
        st = cfg.stmt_of(call)
        handers = set()
        for nd, r, h in evs:
            if r != new.id:
                continue
            hs = cfg.stmt_of(nd)
            handers.add(hs)
            for a in _ancestors(nd):
                if isinstance(a, ast.For) and _literal_container(a.iter):
                    handers.add(a)  # a loop over a non-empty literal executes its body
        dom = cfg.dom().get(st, set())
        if handers & dom:
            rep.ok("C03.R7", key2, site, "the hand-over dominates the replacement")
        else:
            rep.violation("C03.R7", key2, site, f"`{short(call, 50)}` puts `{new.id}` in the place of `{donor}` (Element.replace does not copy attributes) on a path on which the ids of `{donor}` were not handed to `{new.id}`: an id given to the link ({{#id}}) disappears from the tree and links to it dangle")


@rule("C03.R7")
def r7_ids_moved_not_copied(corpus: Corpus, rep: Report, tier: str):
    rep.rule("C03.R7", "the ids of a node are handed to at most one other node per path, and the donor then leaves the tree (identifiers stay unique)")
    mv = _Moves(corpus)
    n = 0
    for fi in corpus.all_functions():
        if fi.is_lambda or fi.module.name.endswith("._docs"):
            continue
        tr = _ids_transfers(fi)
        if not tr:
            continue
        rep.saw_function(fi.fq)
        cfg = get_cfg(fi)
        for donor in sorted({d for _, d, _, _ in tr}):
            evs = [(nd, r, h) for nd, d, r, h in tr if d == donor]
            n += 1
            site = fi.module.site(evs[0][0])
            binder = [st for st in fi.local_nodes() if isinstance(st, ast.For) and any(isinstance(x, ast.Name) and x.id == donor for x in ast.walk(st.target)) and all(any(nd is y for y in ast.walk(st)) for nd, _, _ in evs)]
            lp = min(binder, key=lambda l: l.end_lineno - l.lineno) if binder else None
            key = f"{fi.fq}|ids of `{donor}` go to one node"
            bad = None
            for a, ra, ha in evs:
                for b, rb_, hb in evs:
                    if a is b or ra == rb_:
                        continue
                    sa, sb = cfg.stmt_of(a), cfg.stmt_of(b)
                    if sa is sb or cfg.paths_avoiding(sa, sb, lambda x: x is lp):
                        bad = (ha, ra, hb, rb_)
            if bad:
                rep.violation("C03.R7", key, site, f"{bad[0]} and {bad[2]} both hand the ids of `{donor}` on, to `{bad[1]}` and to `{bad[3]}`, on one path: two nodes of the tree carry the same ids")
            else:
                rep.ok("C03.R7", key, site, f"received by `{evs[0][1]}` only")
            _ids_reach_the_replacement(corpus, rep, fi, cfg, donor, evs)
            # the donor must not stay in the tree with the same ids
            key = f"{fi.fq}|donor `{donor}` of the ids leaves the tree"
            if donor in fi.params:
                callers = get_callgraph(corpus).callers().get(fi.fq, [])
                if mv.discards_always(fi, donor):
                    rep.ok("C03.R7", key, site, "the helper replaces/removes its parameter on every path")
                elif callers and all(_caller_discards(mv, cfi, call, fi, donor) for cfi, call in callers):
                    rep.ok("C03.R7", key, site, "every caller replaces/removes the node after the call")
                else:
                    rep.violation("C03.R7", key, site, f"`{donor}` keeps its ids after handing them on and neither this helper nor every caller removes it from the tree")
                continue
            ds = mv.discard_stmts(fi, donor)
            stops = [EXIT] + ([lp] if lp is not None else [])
            leak = None
            for nd, _, _ in evs:
                st = cfg.stmt_of(nd)
                if st in ds:
                    continue
                for stop in stops:
                    if cfg.paths_avoiding(st, stop, lambda x: x in ds):
                        leak = st
            if leak is not None:
                rep.violation("C03.R7", key, fi.module.site(leak), f"after `{short(leak, 60)}` some path leaves `{donor}` in the tree together with the node that received its ids: duplicate identifiers")
            else:
                rep.ok("C03.R7", key, site, "replaced/removed on every path after the transfer")
    _contents_copies_lose_ids(corpus, rep)
    rep.expect_min("C03.R7", 1, "the ids/names/dupnames hand-over to the pending_xref's inline in ResolveAnchorIds")


def _caller_discards(mv, cfi: FunctionInfo, call: ast.Call, callee: FunctionInfo, pname: str) -> bool:
    arg = _arg_for(callee, call, pname)
    if not isinstance(arg, ast.Name):
        return False
    cfg = get_cfg(cfi)
    ds = mv.discard_stmts(cfi, arg.id)
    st = cfg.stmt_of(call)
    if st in ds:
        return True
    loops = [a for a in _ancestors(call) if isinstance(a, ast.For) and any(isinstance(x, ast.Name) and x.id == arg.id for x in ast.walk(a.target))]
    stops = [EXIT] + loops[:1]
    return not any(cfg.paths_avoiding(st, stop, lambda x: x in ds) for stop in stops)



# ---------------------------------------------------------------------------
# R8 nothing is rendered into a throw-away node

TEXT_READERS = {"clean_astext", "astext", "add_line_and_source_path", "add_line_and_source_path_r", "copy_attributes", "isinstance", "len", "str", "repr"}


def _registers_with_document(corpus: Corpus, fi: FunctionInfo, call: ast.Call) -> bool:
    """Can the call register names/ids with the document (run a directive or role, or reach a note_*_target /
    set_id / note_*footnote call in the package)?"""
    g = get_callgraph(corpus)

    def direct(f: FunctionInfo) -> bool:
        for c in f.local_nodes() if not f.is_lambda else []:
            if isinstance(c, ast.Call) and isinstance(c.func, ast.Attribute) and (c.func.attr in REGISTERING_CALLS or c.func.attr.startswith("note_")):
                return True
        return False

    tgs = [t for t in g.resolve_call(call, fi) if isinstance(t, FunctionInfo)]
    if any(t.name in ("run_directive", "nested_render_text", "render_children") for t in tgs):
        return True  # third-party directives / render methods register what they create
    cache = corpus.cache("c03-registering-funcs", lambda: {})
    for t in tgs:
        if t.fq not in cache:
            cache[t.fq] = any(direct(corpus.func(q)) if corpus.has_func(q) else False for q in g.reachable([t]))
        if cache[t.fq]:
            return True
    return False


def _collected_nodes_not_dropped(corpus: Corpus, rep: Report) -> None:
    """A function that collects, in a local list, the nodes returned by calls that register names/ids with the
    document must hand that list out on every path that follows such a call: a `return` without the list drops
    nodes whose ids/names stay registered - links to them get a refid that is not in the tree, and no warning."""
    for fi in corpus.all_functions():
        if fi.is_lambda or fi.module.name.endswith(("._docs", ".parse_html")) or "docutils.nodes" not in set(fi.module.imports.values()):
            continue
        collectors: dict[str, list[ast.AST]] = {}
        for node, recv, vals, how in _attach_events(fi):
            if how in ("extend", "append", "+=") and isinstance(recv, ast.Name) and _is_plain_container(fi, recv):
                for v in vals:
                    if isinstance(v, ast.Call) and _registers_with_document(corpus, fi, v):
                        collectors.setdefault(recv.id, []).append(node)
        for name, adds in collectors.items():
            rets = [r for r in fi.local_nodes() if isinstance(r, ast.Return)]
            if not any(r.value is not None and any(isinstance(x, ast.Name) and x.id == name for x in ast.walk(r.value)) for r in rets):
                continue  # the list is not the function's result (it is attached here or used otherwise)
            cfg = get_cfg(fi)
            rep.saw_function(fi.fq)
            add_stmts = {cfg.stmt_of(a) for a in adds}
            bad = []
            for r in rets:
                if r.value is not None and any(isinstance(x, ast.Name) and x.id == name for x in ast.walk(r.value)):
                    continue
                if any(r in cfg.reachable_from(a) for a in add_stmts):
                    bad.append(r)
            key0 = f"{fi.fq}|nodes collected in `{name}` are handed out on every path"
            if not bad:
                rep.ok("C03.R8", key0, fi.module.site(adds[0]), f"{len(rets)} return(s), every one that can follow `{short(adds[0], 40)}` carries `{name}`")
            for r in bad:
                rep.violation("C03.R8", f"{key0}|{short(r, 60)}", fi.module.site(r), f"`{short(r, 50)}` can follow `{short(adds[0], 50)}` (an earlier loop iteration) and returns without `{name}`: nodes already created are dropped while the names/ids they registered stay in the document, so a link to them gets a refid that is not in the tree and no 'target not found' warning")


def _nested_parse_containers_kept(corpus: Corpus, rep: Report) -> None:
    """A node built locally and filled by a nested parse (`state.nested_parse(lines, offset, node)`) holds content that
    is already registered with the document (targets, footnote references, ids): every return that can follow the
    parse must hand on the container or something derived from its children - not only an error message."""
    for fi in corpus.all_functions():
        if fi.is_lambda or fi.module.name.endswith("._docs"):
            continue
        for c in fi.local_nodes():
            if not (isinstance(c, ast.Call) and isinstance(c.func, ast.Attribute) and c.func.attr == "nested_parse"):
                continue
            a = c.args[2] if len(c.args) > 2 else kwarg(c, "node")
            if not isinstance(a, ast.Name) or a.id in fi.params:
                continue
            bs = [v for b, v, i in _bindings(fi, a.id) if not isinstance(b, ast.AugAssign)]
            if not bs or not all(v is not None and isinstance(v, ast.Call) and _is_node_type(_ctor_class(fi, v)) for v in bs):
                continue
            cfg = get_cfg(fi)
            rep.saw_function(fi.fq)
            # everything that carries (part of) the parsed content
            derived = {a.id}
            changed = True
            while changed:
                changed = False
                for n in fi.local_nodes():
                    tg: list[str] = []
                    src: ast.AST | None = None
                    if isinstance(n, ast.Assign):
                        src = n.value
                        for t in n.targets:
                            tg += [x.id for x in ast.walk(t) if isinstance(x, ast.Name) and isinstance(x.ctx, ast.Store)]
                    elif isinstance(n, ast.AugAssign) and isinstance(n.target, ast.Name):
                        src, tg = n.value, [n.target.id]
                    elif isinstance(n, ast.Call) and isinstance(n.func, ast.Attribute) and n.func.attr in ("append", "extend", "insert") and isinstance(n.func.value, ast.Name):
                        src, tg = ast.Tuple(elts=list(n.args), ctx=ast.Load()), [n.func.value.id]
                    if src is None or not tg:
                        continue
                    if any(isinstance(x, ast.Name) and x.id in derived for x in ast.walk(src)):
                        for t in tg:
                            if t not in derived:
                                derived.add(t)
                                changed = True
            # attached here to something that is not itself derived: the content is in the tree
            attached = any(how in MOVE_HOWS and not (isinstance(recv, ast.Name) and recv.id in derived) and not _is_plain_container(fi, recv) and any(isinstance(x, ast.Name) and x.id in derived for v in vals for x in ast.walk(v)) for _, recv, vals, how in _attach_events(fi))
            key0 = f"{fi.fq}|content parsed into `{a.id}` is handed on by every return"
            site = fi.module.site(c)
            st = cfg.stmt_of(c)
            reach = cfg.reachable_from(st)
            rets = [r for r in fi.local_nodes() if isinstance(r, ast.Return) and r in reach]
            if attached or not rets:
                rep.ok("C03.R8", key0, site, "the container is attached to the tree in this function" if attached else "no return follows the nested parse")
                continue
            bad = [r for r in rets if r.value is None or not any(isinstance(x, ast.Name) and x.id in derived for x in ast.walk(r.value))]
            if not bad:
                rep.ok("C03.R8", key0, site, f"{len(rets)} return(s) after the parse, each carries the container or nodes taken from it")
            for r in bad:
                rep.violation("C03.R8", f"{key0}|{short(r, 60)}", fi.module.site(r), f"`{short(r, 50)}` follows `{short(c, 50)}` and returns nothing of the parsed content: what the nested parse registered with the document (explicit targets, footnote references, ids) stays registered while the elements are dropped, so links and footnote back-links point at ids that are not in the tree")


@rule("C03.R8")
def r8_no_throwaway_render_root(corpus: Corpus, rep: Report, tier: str):
    rep.rule("C03.R8", "a fresh node that is made the current node for rendering is attached / handed on, not merely read as text; nodes collected from registering calls are returned on every path (rendering registers ids, footnote references and targets with the document)")
    n = 0
    for fi in corpus.all_functions():
        if fi.is_lambda or fi.module.name.endswith("._docs"):
            continue
        for c in fi.local_nodes():
            if not (isinstance(c, ast.Call) and isinstance(c.func, ast.Attribute) and c.func.attr == "current_node_context" and c.args and isinstance(c.args[0], ast.Name)):
                continue
            a = kwarg(c, "append") or (c.args[1] if len(c.args) > 1 else None)
            if isinstance(a, ast.Constant) and a.value is True:
                continue  # attached by the context manager itself
            var = c.args[0].id
            if var in fi.params or _shadowed(c.args[0]):
                continue
            bs = [(st, v) for st, v, idx in _bindings(fi, var) if not isinstance(st, ast.AugAssign)]
            if not bs or not all(v is not None and _is_node_type(_ctor_class(fi, v)) and isinstance(v, ast.Call) for _, v in bs):
                continue  # not a node constructed here
            n += 1
            rep.saw_function(fi.fq)
            key = f"{fi.fq}|render root `{short(bs[0][1], 40)}` is kept|{short(c, 50)}"
            site = fi.module.site(c)
            kept = None
            for u in fi.local_nodes():
                if not (isinstance(u, ast.Name) and u.id == var and isinstance(u.ctx, ast.Load)) or u is c.args[0] or _shadowed(u):
                    continue
                p_ = parent(u)
                if isinstance(p_, ast.Attribute) and p_.value is u:
                    if p_.attr == "children" or (isinstance(parent(p_), ast.Call) and parent(p_).func is p_ and p_.attr not in TEXT_READERS and p_.attr in ("deepcopy", "pop", "traverse", "findall")):
                        kept = kept or f"its children are used (`{short(parent(p_), 40)}`)"
                    continue  # attribute read/write, x.append(...) (x as receiver), x.astext()
                if isinstance(p_, ast.Subscript) and p_.value is u:
                    continue
                if isinstance(p_, (ast.Call, ast.keyword)):
                    call = p_ if isinstance(p_, ast.Call) else parent(p_)
                    fname = (dotted(call.func) or unparse(call.func)).rsplit(".", 1)[-1]
                    if fname in TEXT_READERS or fname in REGISTRY_CALLS:
                        continue
                    if fname == "current_node_context":
                        aa = kwarg(call, "append") or (call.args[1] if len(call.args) > 1 else None)
                        if isinstance(aa, ast.Constant) and aa.value is True:
                            kept = kept or "attached by current_node_context(append=True)"
                        continue
                    kept = kept or f"handed to `{short(call, 40)}`"
                    continue
                kept = kept or f"used in `{short(p_, 40)}`"
            if kept:
                rep.ok("C03.R8", key, site, kept)
            else:
                rep.violation("C03.R8", key, site, f"`{var}` is built here, made the current node while children are rendered into it, and afterwards only read as text / for attributes: whatever the render methods registered with the document (footnote references, targets, ids) now refers to nodes that are not in the tree")
    _collected_nodes_not_dropped(corpus, rep)
    _nested_parse_containers_kept(corpus, rep)
    rep.expect_min("C03.R8", 8, "render roots built locally and entered without append=True (title, thead/tbody, definition-list and field-list parts, link nodes)")





# ---------------------------------------------------------------------------
# R9 ids are allocated through the document's registry

ID_TAKING_CALLS = {
    # library call -> (sibling source, function, parameter): when that parameter is given, the library uses the id
    # as it is and does NOT register it with the document (re-verified against the sibling source)
    "sphinx.domains.std.make_glossary_term": ("sphinx/domains/std/__init__.py", "make_glossary_term", "node_id", 5),
}
REGISTERING_CALLS = ("note_explicit_target", "note_implicit_target", "set_id")


def _given_id_skips_registration(corpus: Corpus, rel: str, fname: str, pname: str) -> bool | None:
    """In the library function: the branch taken when ``pname`` is truthy does not register the node, the other does."""

    def compute():
        m = corpus.sibling(rel)
        f = m.functions.get(fname)
        if f is None:
            return None
        for n in ast.walk(f.node):
            if isinstance(n, ast.If) and unparse(n.test) in (pname, f"{pname} is not None"):
                reg = lambda body: any(isinstance(c, ast.Call) and isinstance(c.func, ast.Attribute) and c.func.attr in REGISTERING_CALLS for st in body for c in ast.walk(st))
                return (not reg(n.body)) and reg(n.orelse)
        return None

    return corpus.cache(("c03-id-taking", rel, fname), compute)


def _registered_after(fi: FunctionInfo, cfg, st, var: str | None) -> bool:
    """Every path from ``st`` to the exit passes document.note_*_target(var, ...) / set_id(var)."""
    regs = set()
    for c in fi.local_nodes():
        if isinstance(c, ast.Call) and isinstance(c.func, ast.Attribute) and c.func.attr in REGISTERING_CALLS and c.args and (var is None or unparse(c.args[0]) == var):
            regs.add(cfg.stmt_of(c))
    if st in regs:
        return True
    return bool(regs) and not cfg.paths_avoiding(st, EXIT, lambda x: x in regs)


DOC_FACTORIES = ("docutils.utils.new_document", "docutils.nodes.document")
ID_REGISTRIES = ("ids",)
FOOTNOTE_REGS = ("autofootnotes", "footnotes", "symbol_footnotes", "autofootnote_refs", "footnote_refs")


def _is_doc_factory(corpus: Corpus, fi: FunctionInfo, v: ast.expr | None, depth: int = 0) -> bool:
    if not isinstance(v, ast.Call) or depth > 2:
        return False
    if _resolved(fi, v.func) in DOC_FACTORIES:
        return True
    for t in get_callgraph(corpus).resolve_call(v, fi):
        if isinstance(t, FunctionInfo) and not t.is_lambda:
            rets = [r for r in t.local_nodes() if isinstance(r, ast.Return) and r.value is not None]
            if rets and all(_is_doc_factory(corpus, t, r.value, depth + 1) for r in rets):
                return True
    return False


def _scratch_document_children(corpus: Corpus, rep: Report) -> None:
    """Nodes parsed into a document created on the side get their ids from *that* document's id registry and their
    footnotes are entered in *its* footnote registries.  Moving its children into the real tree without carrying
    those registries over (sharing them beforehand or merging them afterwards) leaves ids the real document does not
    know - the next id it allocates can be the same - and footnotes that docutils' Footnotes transform never labels."""
    for fi in corpus.all_functions():
        if fi.is_lambda or fi.module.name.endswith("._docs"):
            continue
        docs = {}
        for n in fi.local_nodes():
            if isinstance(n, ast.Assign) and len(n.targets) == 1 and isinstance(n.targets[0], ast.Name) and _is_doc_factory(corpus, fi, n.value):
                docs[n.targets[0].id] = n
        for dname, made in docs.items():
            moves = [node for node, recv, vals, how in _attach_events(fi) if how in MOVE_HOWS and any((_children_of(v) is not None and unparse(_children_of(v)) == dname) for v in vals)]
            moves += [node for node, recv, vals, how in _attach_events(fi) if how in ("extend", "+=") and any(isinstance(v, ast.Name) and v.id == dname for v in vals)]
            if not moves:
                continue
            rep.saw_function(fi.fq)

            def carried(regs) -> bool:
                for x in fi.local_nodes():
                    # dname.reg = <real>.reg   (share)      /   <real>.reg.update|extend(dname.reg)   (merge)
                    if isinstance(x, ast.Assign) and any(isinstance(t, ast.Attribute) and t.attr in regs and unparse(t.value) == dname for t in x.targets) and isinstance(x.value, ast.Attribute) and x.value.attr in regs and "document" in unparse(x.value.value):
                        return True
                    if isinstance(x, ast.Call) and isinstance(x.func, ast.Attribute) and x.func.attr in ("update", "extend") and isinstance(x.func.value, ast.Attribute) and x.func.value.attr in regs and "document" in unparse(x.func.value.value) and x.args and isinstance(x.args[0], ast.Attribute) and x.args[0].attr in regs and unparse(x.args[0].value) == dname:
                        return True
                return False

            key = f"{fi.fq}|children of the scratch document `{dname}` keep their ids and footnotes registered"
            site = fi.module.site(moves[0])
            missing = [what for what, regs in (("id registry (ids)", ID_REGISTRIES), ("footnote registries (autofootnotes/footnotes/...)", FOOTNOTE_REGS)) if not carried(regs)]
            if not missing:
                rep.ok("C03.R9", key, site, "the scratch document shares / merges its id and footnote registries with the real document")
            else:
                rep.violation("C03.R9", key, site, f"`{short(moves[0], 50)}` moves nodes parsed into `{dname}` (created by `{short(made.value, 30)}`) into the real tree, but its {' and '.join(missing)} are neither shared with nor merged into the real document: ids allocated there can be allocated again (duplicate ids), and footnotes registered there are never numbered/labelled by docutils' Footnotes transform")


def _preset_id_only_reported(corpus: Corpus) -> bool:
    """docutils: document.set_id reports 'Duplicate ID' for a node that arrives with ids, without changing them."""

    def compute():
        m = corpus.sibling("docutils/nodes.py")
        f = m.functions.get("document.set_id")
        if f is None:
            return False
        return any(isinstance(c, ast.Call) and isinstance(c.func, ast.Attribute) and c.func.attr in ("severe", "error") and c.args and "Duplicate ID" in unparse(c.args[0]) for c in ast.walk(f.node))

    return corpus.cache("c03-preset-id", compute)


def _fresh_id_edges(fi: FunctionInfo, cfg, e_txt: str) -> set:
    """Branch edges on which `<e> in <document>.ids` is known to be false."""
    out = set()
    for n in fi.local_nodes():
        if isinstance(n, (ast.If, ast.While)):
            for edge, pol in ((("T", n), True), (("F", n), False)):
                for t, p_ in _truth_compare_facts(n.test, pol):
                    if unparse(t.left) == e_txt and isinstance(t.comparators[0], ast.Attribute) and t.comparators[0].attr == "ids" and "document" in unparse(t.comparators[0].value):
                        if (isinstance(t.ops[0], ast.In) and not p_) or (isinstance(t.ops[0], ast.NotIn) and p_):
                            out.add(edge)
    return out


def _truth_compare_facts(test: ast.expr, pol: bool):
    from ..flow import facts

    return [(t, p_) for t, p_ in facts(test, pol) if isinstance(t, ast.Compare) and len(t.ops) == 1 and isinstance(t.ops[0], (ast.In, ast.NotIn))]


def _preset_ids_tested(fi: FunctionInfo, cfg, ctor: ast.Call, kw: ast.expr) -> tuple[bool | None, str]:
    st = cfg.stmt_of(ctor)
    if isinstance(kw, (ast.List, ast.Tuple)):
        sources = [(None, kw)]
    elif isinstance(kw, ast.Name):
        bs = [(b, v) for b, v, i in _bindings(fi, kw.id) if not isinstance(b, ast.AugAssign)]
        if not bs or any(v is None or not isinstance(v, (ast.List, ast.Tuple)) for _, v in bs):
            return None, f"`ids={kw.id}`: bindings of `{kw.id}` are not list literals"
        sources = bs
    else:
        return None, f"`ids={short(kw, 30)}` is neither a list literal nor a local bound to list literals"
    all_b = {cfg.stmt_of(b) for b, _ in sources if b is not None}
    for b, lst in sources:
        for e in lst.elts:
            edges = _fresh_id_edges(fi, cfg, unparse(e))
            if b is None:
                ok = any(d in edges for d in cfg.dom().get(st, set()))
            else:
                bst = cfg.stmt_of(b)
                ok = bool(edges) and not cfg.paths_avoiding(bst, st, lambda x: x in edges or (x in all_b and x is not bst))
            if not ok:
                return False, f"the preset id `{unparse(e)}` reaches `{short(ctor, 40)}` without a `{unparse(e)} not in document.ids` test"
    return True, "every preset id is used only where it is known not to be in document.ids"


@rule("C03.R9")
def r9_ids_registered(corpus: Corpus, rep: Report, tier: str):
    rep.rule("C03.R9", "every id MyST gives to a node itself is registered with the document (note_*_target / set_id), so that the next id cannot collide with it; children of a scratch document are moved into the tree only with its id and footnote registries shared/merged")
    n = 0
    for fi in corpus.all_functions():
        if fi.is_lambda or fi.module.name.endswith(("._docs", ".parse_html")):
            continue
        cfg = None
        for c in fi.local_nodes():
            site = fi.module.site(c)
            # (a) a node constructed with ids=[...]
            if isinstance(c, ast.Call) and _is_node_type(_ctor_class(fi, c)) and kwarg(c, "ids") is not None:
                kw = kwarg(c, "ids")
                if isinstance(kw, (ast.List, ast.Tuple)) and not kw.elts:
                    continue
                if isinstance(kw, ast.Subscript) and isinstance(kw.slice, ast.Constant) and kw.slice.value == "ids":
                    continue  # handed over from another node: R7
                n += 1
                cfg = cfg or get_cfg(fi)
                p_ = parent(c)
                var = unparse(p_.targets[0]) if isinstance(p_, ast.Assign) and len(p_.targets) == 1 else None
                key = f"{fi.fq}|node built with ids= is registered|{short(c, 60)}"
                rep.saw_function(fi.fq)
                if var is not None and _registered_after(fi, cfg, cfg.stmt_of(c), var):
                    rep.ok("C03.R9", key, site, f"`{var}` is registered with the document on every path")
                    # a preset id is only *reported* by docutils when it is taken already: it must be tested first
                    if _preset_id_only_reported(corpus):
                        fresh, why = _preset_ids_tested(fi, cfg, c, kw)
                        k2 = f"{fi.fq}|preset id is tested against document.ids|{short(c, 60)}"
                        if fresh is None:
                            rep.error("C03.R9", f"{site} {k2}: {why}")
                        elif fresh:
                            rep.ok("C03.R9", k2, site, why)
                        else:
                            rep.violation("C03.R9", k2, site, f"{why}: docutils' set_id keeps a preset id and only reports 'Duplicate ID' when another element has it already, so two elements end up with the same id")
                else:
                    rep.violation("C03.R9", key, site, f"the node gets `ids={short(kw, 30)}` but is not registered with the document (note_explicit_target / set_id) on every path: document.ids does not know the id, so a later node can be given the same one")
            # (b) library calls that take a ready-made id and then skip the registration
            elif isinstance(c, ast.Call) and _resolved(fi, c.func) in ID_TAKING_CALLS:
                rel, fname, pname, pos = ID_TAKING_CALLS[_resolved(fi, c.func)]
                n += 1
                rep.saw_function(fi.fq)
                rep.saw_sibling(rel)
                cfg = cfg or get_cfg(fi)
                a = kwarg(c, pname) or (c.args[pos] if len(c.args) > pos else None)
                key = f"{fi.fq}|{fname}({pname}=...) lets the library allocate and register the id|{short(c, 40)}"
                fact = _given_id_skips_registration(corpus, rel, fname, pname)
                if a is None or (isinstance(a, ast.Constant) and a.value is None):
                    rep.ok("C03.R9", key, site, f"{pname}=None: the library makes a unique id and registers it")
                elif fact is None:
                    rep.error("C03.R9", f"{site} {key}: {fname} in the installed library no longer has the `if {pname}:` shape (sibling changed)")
                elif fact is False:
                    rep.ok("C03.R9", key, site, "the installed library registers a given id as well")
                else:
                    p_ = parent(c)
                    var = unparse(p_.targets[0]) if isinstance(p_, ast.Assign) and len(p_.targets) == 1 else None
                    if var is not None and _registered_after(fi, cfg, cfg.stmt_of(c), var):
                        rep.ok("C03.R9", key, site, "id supplied by MyST, node registered by MyST afterwards")
                    else:
                        rep.violation("C03.R9", key, site, f"`{pname}={short(a, 40)}` is supplied: {fname} then uses the id as it is and skips document.note_explicit_target, and MyST does not register the node either: the id is not in document.ids and the next equal term gets the same id")
            # (c) direct writes to x["ids"]
            elif isinstance(c, ast.Call) and isinstance(c.func, ast.Attribute) and c.func.attr in ("append", "extend", "insert") and isinstance(c.func.value, ast.Subscript) and isinstance(c.func.value.slice, ast.Constant) and c.func.value.slice.value == "ids":
                if c.args and isinstance(c.args[-1], ast.Subscript) and isinstance(c.args[-1].slice, ast.Constant) and c.args[-1].slice.value == "ids":
                    continue  # hand-over: R7
                n += 1
                cfg = cfg or get_cfg(fi)
                var = unparse(c.func.value.value)
                key = f"{fi.fq}|id written into {var}['ids'] is registered|{short(c, 60)}"
                rep.saw_function(fi.fq)
                if _registered_after(fi, cfg, cfg.stmt_of(c), var):
                    rep.ok("C03.R9", key, site)
                else:
                    rep.violation("C03.R9", key, site, f"`{short(c, 50)}` gives the node an id without registering it with the document: a later node can be given the same id")
    _scratch_document_children(corpus, rep)
    rep.expect_min("C03.R9", 2, "the equation target built with ids= (sphinx_.py) and the make_glossary_term call (render_dl)")




RULES = [r1_structural_guard, r2_table_width, r3_refid_provenance, r4_footnote_shape, r5_single_parent, r6_section_title_first, r7_ids_moved_not_copied, r8_no_throwaway_render_root, r9_ids_registered]


# ---------------------------------------------------------------------------
# mutants of the current tree


def _stmt_text(m, st) -> str:
    return ast.get_source_segment(m.src, st) or ""


def _indent(m, st) -> str:
    line = m.lines[st.lineno - 1]
    return line[: len(line) - len(line.lstrip())]


def _splice_many(src: str, edits: list[tuple[ast.AST, str]]) -> str:
    """Apply several node replacements to one source (bottom-up, so offsets stay valid)."""
    for node, text in sorted(edits, key=lambda e: (e[0].lineno, e[0].col_offset), reverse=True):
        src = splice(src, node, text)
    return src


def _lazy_once_mutant(m, asg: ast.Assign, outer: ast.For, var: str) -> str:
    """`x = build()` inside the loop becomes `if x is None: x = build()`, with `x = None` in front of the loop."""
    ind_a, ind_o = _indent(m, asg), _indent(m, outer)
    src = splice(m.src, asg, f"if {var} is None:\n{ind_a}    " + (ast.get_source_segment(m.src, asg) or ""))
    start = sum(len(l.encode("utf8")) for l in src.splitlines(keepends=True)[: outer.lineno - 1]) + outer.col_offset
    b = src.encode("utf8")
    return (b[:start] + f"{var} = None\n{ind_o}".encode("utf8") + b[start:]).decode("utf8")


def _closure_mutant(m, lp: ast.For, iff: ast.If, helper_def: str) -> str:
    """The loop's close-the-segment block becomes a call of a nested helper defined before the loop."""
    src = splice(m.src, iff, "_close_segment()")  # iff lies inside lp: do it first (later offsets only)
    tree_lp_text = ast.get_source_segment(src, lp)  # offsets of lp's start are unchanged by the inner edit
    start = sum(len(l.encode("utf8")) for l in src.splitlines(keepends=True)[: lp.lineno - 1]) + lp.col_offset
    b = src.encode("utf8")
    return (b[:start] + helper_def.encode("utf8") + b[start:]).decode("utf8")


def mutants(corpus: Corpus):
    out: list = []
    base = corpus.mod("mdit_to_docutils.base")
    tf = corpus.mod("mdit_to_docutils.transforms")
    refs = corpus.mod("sphinx_ext.myst_refs")

    def add(mid, rule_id, m, node, text, expect, canary=False):
        if node is None:
            out.append((mid, "anchor construct not found on this tree"))
        else:
            out.append(Mutant(mid, rule_id, m.rel, splice(m.src, node, text), expect=expect, canary=canary))

    # ---- R1
    f = base.func("DocutilsRenderer.render_myst_block_break")
    c = find_node(f, lambda n: isinstance(n, ast.Call) and unparse(n.func) == "nodes.comment")
    add("c03-block-break-emits-transition", "C03.R1", base, c, "nodes.transition()", "render_myst_block_break", canary=True)
    f = base.func("DocutilsRenderer.nested_render_text._restore")
    st = find_node(f, lambda n: isinstance(n, ast.Assign) and unparse(n.targets[0]).endswith("md_env['temp_root_node']") and unparse(n.value) == "temp_root_node")
    if st is not None:
        add("c03-levelmap-rooted-at-temp-root", "C03.R1", base, st, _stmt_text(base, st) + "\n" + _indent(base, st) + "self._level_to_section = {0: temp_root_node}", "store into _level_to_section")
    else:
        out.append(("c03-levelmap-rooted-at-temp-root", "temp_root_node store not found"))
    if st is not None:
        for mid, val in (("c03-levelmap-fromkeys-temp-root", "dict.fromkeys(self._level_to_section, temp_root_node)"), ("c03-levelmap-comprehension-temp-root", "{lvl: temp_root_node for lvl in self._level_to_section}")):
            add(mid, "C03.R1", base, st, _stmt_text(base, st) + "\n" + _indent(base, st) + "self._level_to_section = " + val, "store into _level_to_section")
    f = tf.func("CollectFootnotes.apply")
    st = find_node(f, lambda n: isinstance(n, ast.AugAssign) and unparse(n.target) == "self.document" and unparse(n.value) == "transition")
    add("c03-footnote-transition-next-to-first-footnote", "C03.R1", tf, st.target if st is not None else None, "footnotes[0][1].parent", "CollectFootnotes")
    f = base.func("DocutilsRenderer.update_section_level_state")
    c = find_node(f, lambda n: isinstance(n, ast.Call) and unparse(n) == "parent.append(section)")
    add("c03-section-appended-to-current-node", "C03.R1", base, c, "self.current_node.append(section)", "update_section_level_state")
    # ---- R2
    f = base.func("DocutilsRenderer.render_table_row")
    lp = find_node(f, lambda n: isinstance(n, ast.For) and "children" in unparse(n.iter))
    if lp is not None:
        first = lp.body[0]
        ind = _indent(base, first)
        add("c03-row-skips-empty-cells", "C03.R2", base, first, "if not child.children:\n" + ind + "    continue\n" + ind + _stmt_text(base, first), "one entry per cell", canary=True)
    else:
        out.append(("c03-row-skips-empty-cells", "cell loop not found"))
    mk = corpus.mod("mocking")
    f = mk.func("MockState.build_table_row")
    rt_ = find_node(f, lambda n: isinstance(n, ast.Return) and "build_table_row" in unparse(n))
    if rt_ is not None and len(f.params) == 3:
        ind = _indent(mk, rt_)
        rd, tl = f.params[1], f.params[2]
        head = f"row = nodes.row()\n{ind}for cell in {rd}:\n{ind}    if cell is None:\n{ind}        continue\n{ind}    morerows, morecols, offset, cellblock = cell\n"
        attrs = f"{ind}    entry = nodes.entry(**{{k: v for k, v in (('morerows', morerows), ('morecols', morecols)) if v}})\n"
        v1 = head + f"{ind}    if not ''.join(cellblock):\n{ind}        continue\n" + attrs + f"{ind}    row += entry\n{ind}    self.nested_parse(cellblock, {tl} + offset, entry)\n{ind}return row"
        v2 = head + f"{ind}    if ''.join(cellblock):\n    " + attrs + f"{ind}        row += entry\n{ind}        self.nested_parse(cellblock, {tl} + offset, entry)\n{ind}return row"
        add("c03-mock-table-row-skips-empty-cells", "C03.R2", mk, rt_, v1, "build_table_row")
        add("c03-mock-table-row-entry-only-with-content", "C03.R2", mk, rt_, v2, "build_table_row")
    else:
        out.append(("c03-mock-table-row-skips-empty-cells", "MockState.build_table_row no longer delegates with a single return"))
    f = base.func("DocutilsRenderer.render_table")
    c = find_node(f, lambda n: isinstance(n, ast.Assign) and unparse(n.value) == "len(header_row.children)")
    add("c03-cols-from-thead-children", "C03.R2", base, c.value if c is not None else None, "len(header.children)", "tgroup cols")
    lp = find_node(f, lambda n: isinstance(n, ast.For) and unparse(n.iter) == "colwidths")
    add("c03-colspec-loop-off-by-one", "C03.R2", base, lp.iter if lp is not None else None, "colwidths[1:]", "colspec")
    # ---- R3
    f = tf.func("ResolveAnchorIds.apply")
    st = find_node(f, lambda n: isinstance(n, ast.Expr) and isinstance(n.value, ast.Call) and unparse(n.value.func) == "create_warning" and "XREF_MISSING" in unparse(n.value))
    add("c03-docutils-missing-warning-dropped", "C03.R3", tf, st, "pass", "normalizeLink", canary=True)
    st = find_node(f, lambda n: isinstance(n, ast.Assign) and unparse(n.targets[0]) == "refnode['refid']" and unparse(n.value) == "sect_id")
    add("c03-slug-refid-from-raw-target", "C03.R3", tf, st.value if st is not None else None, "target", "refid = target")
    f = refs.func("MystReferenceResolver.run")
    st = find_node(f, lambda n: isinstance(n, ast.Expr) and isinstance(n.value, ast.Call) and unparse(n.value.func) == "self.log_warning" and "XREF_MISSING" in unparse(n.value))
    add("c03-sphinx-missing-warning-dropped", "C03.R3", refs, st, "pass", "normalizeLink")
    # ---- R4
    f = base.func("DocutilsRenderer.render_footnote_reference")
    st = find_node(f, lambda n: isinstance(n, ast.AugAssign) and "nodes.label" in unparse(n.value))
    add("c03-footnote-label-dropped", "C03.R4", base, st, "pass", "footnote", canary=True)
    iff = find_node(f, lambda n: isinstance(n, ast.If) and isinstance(n.body[-1], ast.Return) and "names" in unparse(n.test))
    st2 = find_node(f, lambda n: isinstance(n, ast.Assign) and unparse(n.targets[0]) == "footnote['auto']")
    add("c03-footnote-label-on-auto-branch-too", "C03.R4", base, st2, (_stmt_text(base, st) if st is not None else "pass") + "\n" + (_indent(base, st2) if st2 is not None else "") + (_stmt_text(base, st2) if st2 is not None else ""), "label xor auto")
    # ---- R5
    f = tf.func("CollectFootnotes.apply")
    st = find_node(f, lambda n: isinstance(n, ast.Expr) and unparse(n.value) == "footnote.parent.remove(footnote)")
    add("c03-footnote-moved-without-detach", "C03.R5", tf, st, "pass", "re-attach of existing node")
    f = tf.func("ResolveAnchorIds.apply")
    c = find_node(f, lambda n: isinstance(n, ast.Call) and unparse(n) == "refnode.parent.replace(refnode, pending)")
    add("c03-anchor-owner-kept-after-children-moved", "C03.R5", tf, c, "refnode.parent.append(pending)", "old owner `refnode`")
    def deep_gen(fn):
        return find_node(fn, lambda n: isinstance(n, ast.GeneratorExp) and unparse(n.elt).endswith(".deepcopy()") and unparse(n.generators[0].iter).endswith(".children"))

    f = refs.func("MystReferenceResolver.resolve_myst_ref_doc")
    c = find_node(f, lambda n: isinstance(n, ast.Call) and unparse(n) == "node.replace_self(ref_node)")
    ge = deep_gen(f)
    if c is not None and ge is not None:
        out.append(Mutant("c03-docref-owner-kept-after-children-moved", "C03.R5", refs.rel, _splice_many(refs.src, [(ge, "(" + unparse(ge.generators[0].iter) + ")"), (c, "node.parent.append(ref_node)")]), expect="old owner `node`"))
    else:
        out.append(("c03-docref-owner-kept-after-children-moved", "deepcopy generator / replace_self not found"))
    # revert of 49823c4: the link text is moved (not copied) into both candidate nodes
    g1, g2 = deep_gen(refs.func("MystReferenceResolver._resolve_ref_nested")), deep_gen(refs.func("MystReferenceResolver._resolve_doc_nested"))
    if g1 is not None and g2 is not None:
        out.append(Mutant("c03-revert-49823c4-link-children-moved-twice", "C03.R5", refs.rel, _splice_many(refs.src, [(g1, "(" + unparse(g1.generators[0].iter) + ")"), (g2, "(" + unparse(g2.generators[0].iter) + ")")]), expect="moved at most once"))
    else:
        out.append(("c03-revert-49823c4-link-children-moved-twice", "deepcopy generators not found"))
    # attach-and-return: the warning node is appended by create_warning and again by the caller
    h2n = corpus.mod("mdit_to_docutils.html_to_nodes")
    f = h2n.func("html_to_nodes")
    c = find_node(f, lambda n: isinstance(n, ast.Call) and _create_warning_call(n) and kwarg(n, "append_to") is None)
    add("c03-html-warning-attached-twice", "C03.R5", h2n, c.keywords[-1].value if c is not None and c.keywords else None, (unparse(c.keywords[-1].value) + ", append_to=renderer.current_node") if c is not None and c.keywords else "", "warning node attached once")
    f = h2n.functions.get("_html_to_nodes")
    c = find_node(f, lambda n: isinstance(n, ast.Call) and _create_warning_call(n) and kwarg(n, "append_to") is None) if f is not None else None
    add("c03-html-warning-attached-twice-two-callers-up", "C03.R5", h2n, c.keywords[-1].value if c is not None and c.keywords else None, (unparse(c.keywords[-1].value) + ", append_to=renderer.current_node") if c is not None and c.keywords else "", "_html_to_nodes|warning node attached once")
    # the renderer's wrapper starts to attach by default while consumers of its result still attach the node themselves
    f = base.func("DocutilsRenderer.create_warning")
    c = find_node(f, lambda n: isinstance(n, ast.Call) and _create_warning_call(n) and isinstance(parent(n), ast.Return))
    kwv = kwarg(c, "append_to") if c is not None else None
    add("c03-wrapper-attaches-to-current-node-by-default", "C03.R5", base, kwv, "self.current_node if append_to is None else append_to", "warning node attached once")
    add("c03-wrapper-attaches-by-default-or-form", "C03.R5", base, kwv, "append_to or self.current_node", "warning node attached once")
    f = base.func("DocutilsRenderer.run_directive")
    c = find_node(f, lambda n: isinstance(n, ast.Call) and _create_warning_call(n) and kwarg(n, "append_to") is None and isinstance(parent(n), ast.Assign))
    add("c03-unknown-directive-warning-attached-twice", "C03.R5", base, c.keywords[-1].value if c is not None and c.keywords else None, (unparse(c.keywords[-1].value) + ", append_to=self.current_node") if c is not None and c.keywords else "", "warning node attached once")
    # built once, attached in a loop
    for modname, q, mid in (("parsers.docutils_", "Parser.parse", "c03-raw-warning-hoisted-docutils"), ("parsers.sphinx_", "MystParser.parse", "c03-raw-warning-hoisted-sphinx")):
        pm = corpus.mod(modname)
        f = pm.func(q)
        lp = find_node(f, lambda n: isinstance(n, ast.For) and any(isinstance(x, ast.Assign) and "reporter.warning" in unparse(x.value) for x in n.body))
        if lp is not None:
            asg = next(x for x in lp.body if isinstance(x, ast.Assign) and "reporter.warning" in unparse(x.value))
            ind = _indent(pm, lp)
            rest = "".join("\n" + ind + "    " + _stmt_text(pm, x) for x in lp.body if x is not asg)
            add(mid, "C03.R5", pm, lp, _stmt_text(pm, asg) + "\n" + ind + f"for {unparse(lp.target)} in {unparse(lp.iter)}:" + rest, "node built once")
        else:
            out.append((mid, "raw-replacement loop not found"))
    for modname, q, mid in (("parsers.docutils_", "Parser.parse", "c03-raw-warning-built-lazily-once-docutils"), ("parsers.sphinx_", "MystParser.parse", "c03-raw-warning-built-lazily-once-sphinx")):
        pm = corpus.mod(modname)
        f = pm.func(q)
        asg = find_node(f, lambda n: isinstance(n, ast.Assign) and "reporter.warning" in unparse(n.value) and any(isinstance(a, ast.For) for a in _ancestors(n)))
        outer = None
        if asg is not None:
            loops_ = [a for a in _ancestors(asg) if isinstance(a, ast.For)]
            outer = loops_[-1] if loops_ else None
        if asg is not None and outer is not None and isinstance(asg.targets[0], ast.Name):
            v_ = asg.targets[0].id
            ind_a, ind_o = _indent(pm, asg), _indent(pm, outer)
            out.append(Mutant(mid, "C03.R5", pm.rel, _lazy_once_mutant(pm, asg, outer, v_), expect="node built once"))
        else:
            out.append((mid, "raw-replacement loop not found"))
    f = base.func("DocutilsRenderer.render_table")
    lp = find_node(f, lambda n: isinstance(n, ast.For) and any(isinstance(x, ast.Assign) and "nodes.colspec" in unparse(x.value) for x in n.body))
    if lp is not None and isinstance(lp.target, ast.Name):
        asg = next(x for x in lp.body if isinstance(x, ast.Assign) and "nodes.colspec" in unparse(x.value))
        ind = _indent(base, lp)
        rest = "".join("\n" + ind + "    " + _stmt_text(base, x) for x in lp.body if x is not asg)
        import re as _re

        first = _re.sub(r"\b" + _re.escape(lp.target.id) + r"\b(?!\s*=)", f"{unparse(lp.iter)}[0]", unparse(asg))
        add("c03-colspec-built-once-for-all-columns", "C03.R5", base, lp, first + "\n" + ind + f"for {unparse(lp.target)} in {unparse(lp.iter)}:" + rest, "node built once")
    else:
        out.append(("c03-colspec-built-once-for-all-columns", "colspec loop not found"))
    # ---- R5 (round 6): collectors/closures, direct child-list writes, cached node-bearing lookups
    mk = corpus.mod("mocking")
    f = mk.func("MockState._nest_line_block_segment")
    lp = find_node(f, lambda n: isinstance(n, ast.For))
    reset = find_node(f, lambda n: isinstance(n, ast.Assign) and unparse(n.value) == "nodes.line_block()" and any(isinstance(a, ast.For) for a in _ancestors(n)))
    add("c03-line-block-segment-not-reset", "C03.R5", mk, reset, "pass", "node built once")
    iff = find_node(f, lambda n: isinstance(n, ast.If) and unparse(n.test) == "len(new_block)" and any(isinstance(a, ast.For) for a in _ancestors(n)))
    if lp is not None and iff is not None and reset is not None:
        ind = _indent(mk, lp)
        body = "".join(f"\n{ind}        " + _stmt_text(mk, x) for x in iff.body if x is not reset)
        helper_def = f"def _close_segment():\n{ind}    if {unparse(iff.test)}:{body}\n{ind}"
        out.append(Mutant("c03-line-block-close-moved-into-closure", "C03.R5", mk.rel, _closure_mutant(mk, lp, iff, helper_def), expect="nested function"))
    else:
        out.append(("c03-line-block-close-moved-into-closure", "line-block segment loop not found"))
    f = tf.func("ResolveAnchorIds.apply")
    st = find_node(f, lambda n: isinstance(n, ast.AugAssign) and unparse(n.value) == "refnode.children")
    add("c03-link-text-child-list-assigned", "C03.R5", tf, st, f"{unparse(st.target)}.children = refnode.children" if st is not None else "", "child list changed only through the docutils API")
    f = tf.func("CollectFootnotes.apply")
    st = find_node(f, lambda n: isinstance(n, ast.AugAssign) and unparse(n.target) == "self.document" and unparse(n.value) == "footnote")
    add("c03-footnote-appended-to-children-list", "C03.R5", tf, st, "self.document.children.append(footnote)", "child list changed only through the docutils API")
    f = base.func("DocutilsRenderer.run_directive")
    st = find_node(f, lambda n: isinstance(n, (ast.Assign, ast.AnnAssign)) and isinstance(n.value, ast.Call) and unparse(n.value.func) == "directives.directive")
    if st is not None:
        ind = _indent(base, st)
        tgt = unparse(st.target if isinstance(st, ast.AnnAssign) else st.targets[0])
        call = _stmt_text(base, st.value)
        add("c03-directive-lookup-result-cached", "C03.R5", base, st, f"cache = self.__dict__.setdefault('_directive_cache', {{}})\n{ind}if name not in cache:\n{ind}    self._directive_cache[name] = {call}\n{ind}{tgt} = self._directive_cache[name]", "node-bearing result cached")
    else:
        out.append(("c03-directive-lookup-result-cached", "directives.directive lookup not found"))
    f = base.func("DocutilsRenderer.render_myst_role")
    st = find_node(f, lambda n: isinstance(n, ast.Assign) and isinstance(n.value, ast.Call) and unparse(n.value.func) == "roles.role")
    if st is not None:
        ind = _indent(base, st)
        add("c03-role-lookup-result-cached", "C03.R5", base, st, f"if name not in self.__dict__.setdefault('_role_cache', {{}}):\n{ind}    self._role_cache[name] = {_stmt_text(base, st.value)}\n{ind}{unparse(st.targets[0])} = self._role_cache[name]", "node-bearing result cached")
    else:
        out.append(("c03-role-lookup-result-cached", "roles.role lookup not found"))
    # ---- round 8: anchors given to make_refnode, ids not registered, overlapping returned collections
    f = refs.func("MystReferenceResolver.resolve_myst_ref_doc")
    st = find_node(f, lambda n: isinstance(n, ast.Expr) and isinstance(n.value, ast.Call) and unparse(n.value.func) == "self.log_warning" and "local id not found" in unparse(n.value))
    add("c03-docref-missing-anchor-warning-dropped", "C03.R3", refs, st, "pass", "resolve_myst_ref_doc")
    f = refs.func("MystReferenceResolver._resolve_ref_nested")
    c = find_node(f, lambda n: isinstance(n, ast.Call) and unparse(n.func) == "make_refnode" and len(n.args) > 3)
    add("c03-ref-anchor-is-the-raw-target", "C03.R3", refs, c.args[3] if c is not None else None, "node['reftarget']", "_resolve_ref_nested")
    f = base.func("DocutilsRenderer.render_dl")
    c = find_node(f, lambda n: isinstance(n, ast.Call) and unparse(n.func) == "make_glossary_term" and kwarg(n, "node_id") is not None)
    add("c03-glossary-term-id-supplied-by-myst", "C03.R9", base, kwarg(c, "node_id") if c is not None else None, "nodes.make_id('term-' + term.astext())", "make_glossary_term")
    sx = corpus.mod("mdit_to_docutils.sphinx_")
    f = sx.func("SphinxRenderer.add_math_target")
    st = find_node(f, lambda n: isinstance(n, ast.Expr) and unparse(n.value) == "self.document.note_explicit_target(target)")
    add("c03-equation-target-not-registered", "C03.R9", sx, st, "pass", "add_math_target")
    f = base.func("DocutilsRenderer.render_math_block_label")
    st = find_node(f, lambda n: isinstance(n, ast.Expr) and isinstance(n.value, ast.Call) and unparse(n.value.func) == "self.document.note_explicit_target" and n.value.args and unparse(n.value.args[0]) == "node")
    add("c03-math-label-id-written-directly", "C03.R9", base, st, "node['ids'].append(nodes.make_id(name))", "render_math_block_label")
    f = mk.func("MockInliner.parse")
    dl = find_node(f, lambda n: isinstance(n, ast.For) and any("parent.remove" in unparse(x) for x in n.body))
    r0 = find_node(f, lambda n: isinstance(n, ast.Return) and isinstance(n.value, ast.Tuple) and len(n.value.elts) == 2)
    if dl is not None and r0 is not None:
        add("c03-inline-messages-reported-but-left-in-the-text", "C03.R5", mk, dl, "pass", "returned node collections")
        first = r0.value.elts[0]
        msgs = find_node(f, lambda n: isinstance(n, ast.Assign) and isinstance(n.targets[0], ast.Name) and n.targets[0].id == unparse(r0.value.elts[1]))
        if msgs is not None:
            out.append(Mutant("c03-inline-text-snapshot-taken-before-messages-are-removed", "C03.R5", mk.rel, _splice_many(mk.src, [(first, "textnodes"), (msgs, f"textnodes = list({unparse(first)})\n" + _indent(mk, msgs) + _stmt_text(mk, msgs))]), expect="returned node collections"))
        add("c03-inline-messages-removed-only-when-top-level", "C03.R5", mk, dl.body[0], f"if {unparse(dl.target)}.parent is container:\n" + _indent(mk, dl.body[0]) + "    " + _stmt_text(mk, dl.body[0]), "returned node collections")
    else:
        out.append(("c03-inline-messages-reported-but-left-in-the-text", "message removal loop of MockInliner.parse not found"))
    r_ = find_node(f, lambda n: isinstance(n, ast.Return) and isinstance(n.value, ast.Tuple) and len(n.value.elts) == 2 and unparse(n.value.elts[0]).endswith(".children"))
    if r_ is not None:
        ch = unparse(r_.value.elts[0])
        add("c03-inline-messages-returned-in-both-lists", "C03.R5", mk, r_.value.elts[1], f"[n for n in {ch} if isinstance(n, nodes.system_message)]", "returned node collections")
        add("c03-inline-messages-filtered-into-second-list", "C03.R5", mk, r_.value.elts[1], f"list(filter(lambda n: isinstance(n, nodes.system_message), {ch}))", "returned node collections")
    else:
        out.append(("c03-inline-messages-returned-in-both-lists", "MockInliner.parse no longer returns (container.children, ...)"))
    # ---- round 9: collected results dropped by an early return; scratch-document registries
    h2n = corpus.mod("mdit_to_docutils.html_to_nodes")
    f = next((x for x in h2n.functions.values() if not x.is_lambda and sum(1 for n in x.local_nodes() if isinstance(n, ast.Expr) and isinstance(n.value, ast.Call) and unparse(n.value.func) == "nodes_list.extend" and "run_directive" in unparse(n.value)) >= 2), h2n.func("html_to_nodes"))
    ext = [n for n in f.local_nodes() if isinstance(n, ast.Expr) and isinstance(n.value, ast.Call) and unparse(n.value.func) == "nodes_list.extend" and "run_directive" in unparse(n.value)]
    ext.sort(key=lambda n: n.lineno)
    if len(ext) >= 2:
        st = ext[-1]
        ind = _indent(h2n, st)
        add("c03-html-empty-admonition-returns-raw-html", "C03.R8", h2n, st, f"if not content:\n{ind}    return default_html(text, renderer.document['source'], line_number)\n{ind}" + _stmt_text(h2n, st), "handed out on every path")
        st = ext[0]
        ind = _indent(h2n, st)
        add("c03-html-image-without-alt-returns-nothing", "C03.R8", h2n, st, f"if 'alt' not in child.attrs:\n{ind}    return []\n{ind}" + _stmt_text(h2n, st), "handed out on every path")
    else:
        out.append(("c03-html-empty-admonition-returns-raw-html", "html_to_nodes no longer collects two run_directive results"))
    f = base.func("DocutilsRenderer.render_restructuredtext")
    shared = find_node(f, lambda n: isinstance(n, ast.Assign) and isinstance(n.targets[0], ast.Attribute) and n.targets[0].attr == "ids" and isinstance(n.value, ast.Attribute) and n.value.attr == "ids")
    if shared is not None:  # only once the scratch document shares its registries (revert of that repair)
        add("c03-eval-rst-id-registry-not-shared", "C03.R9", base, shared, "pass", "scratch document")
    # ---- round 10: reverts of the repairs landed for live C03 defects
    sx = corpus.mod("mdit_to_docutils.sphinx_")
    f = sx.func("SphinxRenderer.add_math_target")
    c = find_node(f, lambda n: isinstance(n, ast.Call) and _ctor_class(f, n) == "docutils.nodes.target" and kwarg(n, "ids") is not None)
    pre = find_node(f, lambda n: isinstance(n, ast.Assign) and isinstance(n.value, ast.List) and len(n.value.elts) == 1 and isinstance(n.targets[0], ast.Name) and c is not None and unparse(kwarg(c, "ids")) == n.targets[0].id)
    add("c03-revert-436cf81-equation-id-preset-untested", "C03.R9", sx, kwarg(c, "ids") if c is not None and pre is not None else None, unparse(pre.value) if pre is not None else "", "preset id")
    f = refs.func("MystReferenceResolver.resolve_myst_ref_any")
    dcs = [n for n in f.local_nodes() if isinstance(n, ast.Call) and unparse(n) == "contnode.deepcopy()"]
    if len(dcs) >= 2:
        out.append(Mutant("c03-revert-a39f4dc-one-content-node-for-all-candidates", "C03.R5", refs.rel, _splice_many(refs.src, [(d, "contnode") for d in dcs]), expect="gets one parent per path"))
    else:
        out.append(("c03-revert-a39f4dc-one-content-node-for-all-candidates", "contnode.deepcopy() arguments not found"))
    dm = corpus.mod("sphinx_ext.directives")
    f = dm.func("FigureMarkdown.run")
    rets = [n for n in f.local_nodes() if isinstance(n, ast.Return) and isinstance(n.value, ast.List) and any(isinstance(e, ast.Starred) for e in n.value.elts)]
    if rets:
        out.append(Mutant("c03-revert-1e0e9f4-figure-md-error-drops-content", "C03.R8", dm.rel, _splice_many(dm.src, [(r.value, "[" + ", ".join(_stmt_text(dm, e) for e in r.value.elts if not isinstance(e, ast.Starred)) + "]") for r in rets]), expect="content parsed into"))
    else:
        out.append(("c03-revert-1e0e9f4-figure-md-error-drops-content", "error returns carrying *node.children not found"))
    for modname, q, mid in (("parsers.sphinx_", "MystParser.get_transforms", "c03-revert-eca02f3-contents-ids-transform-unregistered-sphinx"), ("parsers.docutils_", "Parser.get_transforms", "c03-revert-eca02f3-contents-ids-transform-unregistered-docutils")):
        pm = corpus.mod(modname)
        f = pm.func(q)
        nm = find_node(f, lambda n: isinstance(n, ast.Name) and n.id == "UniqueContentsIds")
        add(mid, "C03.R7", pm, nm, "HideNestedTransitions", "registers the transform")
    ucls = tf.classes.get("UniqueContentsIds")
    pr = next((st_ for st_ in ucls.node.body if isinstance(st_, ast.Assign) and unparse(st_.targets[0]) == "default_priority"), None) if ucls is not None else None
    add("c03-contents-ids-transform-runs-before-contents", "C03.R7", tf, pr.value if pr is not None else None, "719", "contents directive")
    ucls = tf.classes.get("UniqueContentsIds")
    if ucls is not None and "apply" in ucls.methods:
        uap = ucls.methods["apply"]
        sel = find_node(uap, lambda n: isinstance(n, ast.If) and any(isinstance(c, ast.Constant) and c.value == "contents" for c in ast.walk(n.test)))
        if sel is not None and isinstance(sel.test, ast.Compare):
            cls_expr = unparse(sel.test.comparators[0])
            add("c03-contents-topics-selected-by-exact-class-list", "C03.R7", tf, sel.test, f"{cls_expr} != ['contents']", "every topic that has the class")
            add("c03-local-contents-topics-skipped", "C03.R7", tf, sel.test, f"{unparse(sel.test)} or 'local' in {cls_expr}", "every topic that has the class")
        else:
            out.append(("c03-contents-topics-selected-by-exact-class-list", "selection test of UniqueContentsIds not found"))
    f = base.func("DocutilsRenderer.nested_render_text._restore") if corpus.has_func("myst_parser.mdit_to_docutils.base:DocutilsRenderer.nested_render_text._restore") else None
    if f is not None:
        dc = find_node(f, lambda n: isinstance(n, ast.DictComp) and unparse(n.value) == "temp_root_node")
        add("c03-levelmap-open-sections-rerooted-only", "C03.R1", base, dc, "{level: temp_root_node if isinstance(node, nodes.section) else node for level, node in self._level_to_section.items()}" if dc is not None else "", "store into _level_to_section")
    f = tf.func("ResolveAnchorIds.apply")
    tests = [n for n in f.local_nodes() if isinstance(n, ast.BoolOp) and isinstance(n.op, ast.And) and len(n.values) == 2 and unparse(n.values[1]).endswith(" in tree_ids")]
    if len(tests) >= 2:
        tests.sort(key=lambda n: n.lineno)
        add("c03-revert-6e5f09e-explicit-id-not-confirmed-in-tree", "C03.R3", tf, tests[0], unparse(tests[0].values[0]), "element in the tree")
        add("c03-revert-6e5f09e-slug-id-not-confirmed-in-tree", "C03.R3", tf, tests[1], unparse(tests[1].values[0]), "element in the tree")
    else:
        out.append(("c03-revert-6e5f09e-explicit-id-not-confirmed-in-tree", "`... in tree_ids` tests not found"))
    # ---- R8: rendering into a node that is only read as text / never attached
    f = base.func("DocutilsRenderer.render_image")
    st = find_node(f, lambda n: isinstance(n, ast.Assign) and isinstance(n.value, ast.Call) and unparse(n.value.func) == "self.renderInlineAsText")
    if st is not None:
        ind = _indent(base, st)
        add("c03-image-alt-rendered-into-scratch-node", "C03.R8", base, st, f"alt_node = nodes.inline()\n{ind}with self.current_node_context(alt_node):\n{ind}    self.render_children(token)\n{ind}{unparse(st.targets[0])} = alt_node.astext()", "render_image")
    else:
        out.append(("c03-image-alt-rendered-into-scratch-node", "renderInlineAsText assignment not found in render_image"))
    f = base.func("DocutilsRenderer.render_field_list")
    st = find_node(f, lambda n: isinstance(n, ast.AugAssign) and unparse(n.value) == "field_name")
    add("c03-field-name-rendered-but-not-attached", "C03.R8", base, st, "pass", "render_field_list")
    # ---- R7: ids handed to two nodes / donor kept
    f = tf.func("ResolveAnchorIds.apply")
    st = find_node(f, lambda n: isinstance(n, ast.Assign) and isinstance(n.targets[0], ast.Name) and n.targets[0].id == "inner_node")
    if st is not None:
        # a second receiver next to the placeholder: the content node also takes the link's basic attributes
        add("c03-content-node-also-takes-link-ids", "C03.R7", tf, st, _stmt_text(tf, st) + "\n" + _indent(tf, st) + "inner_node.update_basic_atts(refnode)", "ids of `refnode`")
    else:
        out.append(("c03-content-node-also-takes-link-ids", "inner_node construction not found"))
    hand = find_node(f, lambda n: isinstance(n, ast.For) and _literal_container(n.iter) and "ids" in (_literal_container(n.iter) or []) and any(isinstance(x, ast.Assign) and isinstance(x.targets[0], ast.Subscript) and unparse(x.targets[0].value) == "pending" for x in n.body))
    if hand is not None:
        asg = hand.body[0]
        ind = _indent(tf, hand)
        add("c03-revert-de1ee76-link-ids-on-the-inner-content-node", "C03.R7", tf, asg.targets[0].value, "inner_node", "placeholder that replaces it")
        add("c03-link-ids-on-content-node-names-on-placeholder", "C03.R7", tf, hand, f"inner_node['ids'] = refnode['ids']\n{ind}for attr in ('names', 'dupnames'):\n{ind}    pending[attr] = refnode[attr]", "placeholder that replaces it")
        add("c03-link-ids-handed-on-only-for-named-links", "C03.R7", tf, hand, f"if refnode['names']:\n{ind}    " + _stmt_text(tf, hand).replace("\n", "\n    "), "handed on before every")
    else:
        out.append(("c03-revert-de1ee76-link-ids-on-the-inner-content-node", "ids hand-over loop to `pending` not found"))
    c = st.value if st is not None and isinstance(st.value, ast.Call) else None
    add("c03-content-node-built-with-link-ids", "C03.R7", tf, c.keywords[-1].value if c is not None and c.keywords else None, (unparse(c.keywords[-1].value) + ', ids=refnode["ids"]') if c is not None and c.keywords else "", "ids of `refnode`")
    c = find_node(f, lambda n: isinstance(n, ast.Call) and unparse(n) == "refnode.parent.replace(refnode, pending)")
    add("c03-ids-donor-kept-in-tree", "C03.R7", tf, c, "refnode.parent.insert(refnode.parent.index(refnode), pending)", "donor `refnode`")
    # ---- R3: document.nameids values may be None
    f = tf.func("ResolveAnchorIds.apply")
    tests = [n for n in f.local_nodes() if isinstance(n, ast.If) and unparse(n.test) == "labelid is None"]
    if tests:
        out.append(Mutant("c03-nameids-none-guard-dropped", "C03.R3", tf.rel, _splice_many(tf.src, [(t.test, "False") for t in tests]), expect="refid = ref_id"))
    else:
        out.append(("c03-nameids-none-guard-dropped", "`labelid is None` test not found"))
    st = find_node(f, lambda n: isinstance(n, ast.Expr) and isinstance(n.value, ast.Call) and unparse(n.value.func) == "create_warning" and "XREF_MISSING" in unparse(n.value))
    if st is not None:
        ind = _indent(tf, st)
        add("c03-nameids-fallback-without-none-guard", "C03.R3", tf, st, "if target in self.document.nameids:\n" + ind + "    refnode[\"refid\"] = self.document.nameids[target]\n" + ind + "    continue\n" + ind + _stmt_text(tf, st), "nameids[target]")
    else:
        out.append(("c03-nameids-fallback-without-none-guard", "missing-target warning not found"))
    # ---- R4: footnote registries
    f = base.func("DocutilsRenderer.render_footnote_reference")
    it = find_node(f, lambda n: isinstance(n, ast.BinOp) and isinstance(n.op, ast.Add) and unparse(n.right).endswith(".autofootnotes") and unparse(n.left).endswith(".footnotes"))
    f = base.func("DocutilsRenderer.render_footnote_reference")
    f = tf.func("CollectFootnotes.apply")
    glp = find_node(f, lambda n: isinstance(n, ast.For) and all(r_ in unparse(n.iter) for r_ in FOOTNOTE_REGISTRIES))
    if glp is not None:
        add("c03-footnotes-gathered-by-walking-the-tree", "C03.R4", tf, glp.iter, "list(findall(self.document)(nodes.footnote))", "gathered from all footnote registries")
        add("c03-symbol-footnotes-not-gathered", "C03.R4", tf, glp.iter, "self.document.footnotes + self.document.autofootnotes", "gathered from all footnote registries")
        add("c03-auto-footnotes-not-gathered", "C03.R4", tf, glp.iter, "self.document.symbol_footnotes + self.document.footnotes", "gathered from all footnote registries")
    else:
        out.append(("c03-footnotes-gathered-by-walking-the-tree", "registry loop of CollectFootnotes.apply not found"))
    f = tf.func("SortFootnotes.apply")
    st = find_node(f, lambda n: isinstance(n, ast.Expr) and isinstance(n.value, ast.Call) and unparse(n.value.func).endswith(".autofootnotes.sort"))
    if st is not None:
        reg = unparse(st.value.func.value)
        kw = ", ".join(f"{k.arg}={unparse(k.value)}" for k in st.value.keywords)
        add("c03-sort-drops-nameless-footnotes", "C03.R4", tf, st, f"{reg}[:] = [n for n in sorted({reg}, {kw}) if n['names']]", "registry keeps every member")
        add("c03-sort-keeps-only-referenced-footnotes", "C03.R4", tf, st, f"{reg} = sorted({reg}, {kw})[: len(ref_order)]", "registry keeps every member")
    else:
        out.append(("c03-sort-drops-nameless-footnotes", "autofootnotes.sort not found"))
    # ---- R6
    f = base.func("DocutilsRenderer.update_section_level_state")
    kw = find_node(f, lambda n: isinstance(n, ast.keyword) and n.arg == "append_to" and unparse(n.value) == "self.current_node")
    add("c03-level-warning-appended-to-section", "C03.R6", base, kw.value if kw is not None else None, "section", "update_section_level_state")
    f = base.func("DocutilsRenderer.render_heading")
    st = find_node(f, lambda n: isinstance(n, ast.Expr) and unparse(n.value) == "new_section.append(title_node)")
    cp = find_node(f, lambda n: isinstance(n, ast.Expr) and isinstance(n.value, ast.Call) and unparse(n.value.func) == "self.copy_attributes" and len(n.value.args) > 1 and unparse(n.value.args[1]) == "new_section")
    ca = base.func("DocutilsRenderer.copy_attributes")
    ms = find_node(ca, lambda n: isinstance(n, ast.Assign) and isinstance(n.value, ast.IfExp) and isinstance(n.targets[0], ast.Name) and unparse(n.value.body) == "node")
    if st is not None and cp is not None and cp.lineno > st.lineno and ms is not None:
        # the same revert, with the message-node choice moved into a helper that may hand the node back
        ind_d = _indent(base, ca.node)
        helper_def = f"def _message_node_of(self, node):\n{ind_d}    return {unparse(ms.value)}\n\n{ind_d}"
        src2 = _splice_many(base.src, [(cp, "pass"), (st, _stmt_text(base, cp) + "\n" + _indent(base, st) + _stmt_text(base, st)), (ms.value, "self._message_node_of(node)")])
        start = sum(len(l.encode("utf8")) for l in src2.splitlines(keepends=True)[: ca.node.lineno - 1]) + ca.node.col_offset
        b2 = src2.encode("utf8")
        out.append(Mutant("c03-attributes-before-title-message-node-from-helper", "C03.R6", base.rel, (b2[:start] + helper_def.encode("utf8") + b2[start:]).decode("utf8"), expect="copy_attributes"))
    if st is not None and cp is not None and cp.lineno > st.lineno:
        out.append(Mutant("c03-revert-0f7e2b3-attributes-copied-before-title", "C03.R6", base.rel, _splice_many(base.src, [(cp, "pass"), (st, _stmt_text(base, cp) + "\n" + _indent(base, st) + _stmt_text(base, st))]), expect="copy_attributes"))
    else:
        out.append(("c03-revert-0f7e2b3-attributes-copied-before-title", "copy_attributes after the title append not found"))
    if st is not None:
        add("c03-implicit-target-noted-before-title", "C03.R6", base, st, "self.document.note_implicit_target(new_section, new_section)\n" + _indent(base, st) + _stmt_text(base, st), "note_implicit_target")
    else:
        out.append(("c03-implicit-target-noted-before-title", "title append not found"))
    return out
