"""C19 - inventory filtering implements exactly the documented wildcard semantics."""

from __future__ import annotations

import ast
import itertools

try:  # Python >= 3.11
    import re._parser as sre_parse
    import re._constants as sre_constants
except ImportError:  # pragma: no cover
    import sre_constants
    import sre_parse

from ..callgraph import get_callgraph
from ..corpus import (
    AnchorMissing,
    Corpus,
    FunctionInfo,
    Unsupported,
    ancestors,
    dotted,
    kwarg,
    parent,
    short,
    splice,
    unparse,
    walk_local,
)
from ..flow import ENTRY, EXIT, facts, get_cfg
from ..mutant import Mutant
from ..report import Report
from .common import find_node, rule

PROP = "C19"
READY = False
TECHNIQUE = "finite-transducer extraction from the pattern translator compared with the documented machine; kind (role) inference over the filter loops; abstract match-count evaluation of the inv: link paths"

META = {
    "explanation": (
        "R1 (translator = documented machine): the body of inventory._create_regex is evaluated over the finite abstract domain "
        "(flag valuations x character classes {'*', backslash, any other character, plus every other constant the code compares the "
        "character with}) into a sequential transducer whose outputs are regex fragments classified with re._parser (LIT(c) only "
        "through re.escape, the wildcard as MAX_REPEAT(0, inf, ANY)); its complete output, including the end-of-pattern flush, on every "
        "abstract pattern up to length 2*|states|+1 must equal the documented two-state machine ('*' -> any run, backslash-star -> "
        "literal star, every other character itself, a backslash not followed by '*' is itself). The compile flags must not fold case "
        "and the ANY fragment must match every character (DOTALL). A rewrite of the raw pattern in front of the character scan "
        "(re.sub / str.replace with constant arguments) is applied to every abstract pattern and the composed translation must still "
        "equal the documented machine up to ANY* ANY* = ANY* (an escape-unaware collapse of '**' fails on backslash-star-star); "
        "case/whitespace-changing string methods on the pattern are rejected. Constant text wrapped around the accumulator at "
        "re.compile (`regex + '$'`) is part of the translation; an end anchor after everything is zero-width under fullmatch, an "
        "anchor anywhere else is a mismatch. When the translator collects the literal pieces between the wildcards in a list "
        "(`parts[-1] += ...`, `parts.append('')`) and assembles the regex afterwards, the assembly statements (loops over slices of "
        "the parts, f-string templates, `len(parts)` tests) are evaluated for every abstract pattern; `(?=(?P<g>.*?X))(?P=g)` is "
        "read as an atomic 'up to the first occurrence of X' wildcard, which equals ANY* X exactly when X is literal, the lazy form "
        "is used and something elastic (another such wildcard or a plain ANY*) follows - otherwise it is a mismatch. The translator may be split into helpers of the module: a scan helper "
        "that returns the list of parts (as plain text when the caller maps re.escape over them), and an assembly helper "
        "`_join(parts)` - scan, escape step and assembly are composed for every abstract pattern. Every "
        "translated pattern may contain at most one backtracking ANY* (a failed fullmatch over k independent `.*` is exponential). "
        "R2 (API): a return expression is taken apart into its outcomes first (`return A or B` with A a comparison = `if A: return True` "
        "then `return B`; a conditional expression = its two branches), then: "
        "match_with_wildcard returns True exactly under `pattern is None`, otherwise fullmatch (or match of an "
        "expression the translator ends in \\Z - not `$`, which also matches before a final line feed) of the unmodified name against "
        "the regex built from the unmodified pattern; at every call of match_with_wildcard in the package the pattern is never "
        "tested for truthiness / emptiness next to the match (only None means 'no filter'; '' matches exactly the empty value); a pattern the "
        "package compiles with _create_regex itself is applied with fullmatch, never match/search; a "
        "regex-free shortcut return (`name.startswith(e)`, `endswith`, `==`, `in`) is model-checked: for every abstract pattern up to "
        "length 4 that takes it (its guards evaluated with pure str/int operations on the concretised pattern) the string test must "
        "accept the same names as the documented translation; the cached translator has the pattern as its only parameter, reads no mutable "
        "global, and every call passes the whole pattern. "
        "R3 (the two filter functions): a role inference over the nested loops (inventory key / domain / object type / name, item "
        "fields; the Sphinx `domain:type` key cut at the same colon as from_sphinx and the native loader cut it; the item as a "
        "4-tuple or, through a helper that returns project_name/project_version/uri/display_name in tuple order, as Sphinx's item "
        "class; a local list of a mapping's keys minus the keys without ':') shows that the flat Sphinx keys are walked grouped by "
        "domain in order of first occurrence (a stable sort on list.index of the domain, or on a {domain: index} dict in which the "
        "first occurrence wins, e.g. filled with rank.setdefault(domain, len(rank)) - a dict comprehension over enumerate keeps the last and is rejected -, or a {domain: [keys]} dict "
        "filled key by key and walked with itertools.chain.from_iterable(d.values())) - the order in which the native nesting lists them - and that each coordinate is tested against its own filter - through "
        "match_with_wildcard or through _create_regex(<filter>).fullmatch, never Pattern.match/search and never on the joined "
        "domain:type key -, that all four tests dominate every yield (an `f is None or ...` disjunct is accepted; a boolean flag variable is judged "
        "by every value it can have been given; a plain string test - startswith, ==, in - of a coordinate as a fast path is "
        "rejected unless the function looks at the escape character, then ANALYSIS-ERROR), generator helpers of the module "
        "that the loops iterate are followed (roles from what they yield; their loops, skips and key split are judged too) and "
        "one-expression helpers are inlined before expressions are compared, that the InvMatch "
        "fields are filled from the same roles in both representations (the '-' text normalisation agrees with from_sphinx), that "
        "iteration keeps the mappings' own order, that every loop visits every entry of its level (the iterable is never narrowed by "
        "using a filter as a literal key unless that alternative is chosen only under `'*' not in <filter>`), that no break/return cuts "
        "the enumeration short and that entries are skipped only after a failed wildcard test. "
        "R4 (callers and the inv: link): the destination is taken apart literally (`href.partition(':')[2].partition('#')`, not "
        "urlparse, which drops a `?query`; the `#` cut behind the path string and behind the name pattern handed to the lookup - in the function or in the helper that returns the parts - is `partition('#')`, the FIRST '#': entry names contain '#', `rpartition` is understood by the role trace and reported as a violation, any other cut is an analysis error), after normalizeLinkText plus the `%25` -> `%` step, and the path is split with "
        "maxsplit 2 so that the object type is the remainder (types contain ':'); a part that is left empty is handed on as None "
        "(`part or None`), i.e. as an omitted filter - where the destination is taken apart or, failing that, in every "
        "implementation of get_inventory_matches (the Sphinx renderer overrides it); a parts list padded in place "
        "(`parts += [''] * k`) and unpacked through `(part or None for part in parts)` is understood; the destination is the token's href, which markdown-it's normalizeLink has "
        "re-formatted with mdurl.parse/format unless the package replaces that hook (re-read from the installed markdown_it source; "
        "reported under a known finding); callers hand every filter on under its own role (keyword pass-through in both "
        "get_inventory_matches, the resolver, the CLI options; href parts inv:<invs>:<domains>:<otypes>#<target>); both "
        "get_inventory_matches implementations return the filter results without re-ordering; an abstract execution of "
        "render_link_inventory per number of path parts (1, 2, 3; IndexError under suppress/except, tuple assignments evaluated as a "
        "whole, length guards, None padding) shows every given part bound to its filter at the lookup; the inventory stored for a "
        "configuration key is fetched with that entry's base URL and is not memoised under a key lacking it (several stores and "
        "memo fills are judged one by one); every method that installs a new md_config drops the lazily loaded inventories "
        "unconditionally or under a comparison of the whole inventories setting (not of its keys); no store into self._inventories is control-dependent on the link's own filters, so "
        "the inventories are registered in configuration order; inside myst_parser.inventory every function that receives `base_url` hands it on "
        "unchanged to each package callee that takes one and puts it into the InventoryType it builds (fetch_inventory -> load -> "
        "_load_v1/_load_v2); on the CFG, evaluated "
        "under the abstract match count (0, 1, 2, 3+; star-unpacking of the match list understood; the size of a collection derived from the matches - set / comprehension "
        "with or without filter - is an interval, so a test such as len({... for m in matches}) > 1 is followed on both edges; an emission extracted into a helper "
        "that emits exactly once is followed one level), the link path emits IREF_MISSING exactly once and no reference for 0 matches, "
        "nothing but one reference for 1, IREF_AMBIGUOUS exactly once plus one reference for >1; the handler of a try around the href "
        "parse is its own outcome class (exactly one warning, no lookup, no reference); the first match is used; refuri is "
        "posixpath.join(base_url, loc) if base_url else loc (urljoin is rejected: RFC-relative resolution drops the base's last segment), "
        "match.loc for Sphinx inventories; properties of InvMatch and one-expression package functions (`match.uri`, "
        "`resolve_location(base, loc)`) are expanded before the expression is judged. Code moved into private helpers is followed one level: the href decomposition "
        "returned as a tuple / NamedTuple / dataclass (role tracing and the per-part execution continue inside the helper, "
        "selected by field or index), warnings and the reference construction produced by a helper a fixed number of times, "
        "the href parse behind a helper call, the refuri store in the helper that receives the selected match."
    ),
    "not_decided": (
        "matching results as values for concrete (pattern, name) pairs beyond what the extracted transducer implies; run-time bounds of "
        "the regex engine beyond the structural 'at most one backtracking wildcard'; what markdown-it's normalizeLink / normalizeLinkText "
        "encode and decode besides the tabled '%25' fact; the behaviour of "
        "re and posixpath.join themselves; contents of loaded inventories; hrefs with more than three path parts; behaviour of the "
        "filters when rewritten with comprehensions or extracted generator helpers (answered ANALYSIS-ERROR, not decided)"
    ),
    "trusted_base": [
        "CPython ast",
        "CPython re._parser (regex fragment classification)",
        "the role tables in this module (mapping layout of InventoryType / Sphinx named_inventory, item tuple (project, version, uri, dispname), config layout key -> (base uri, path))",
    ],
    "assumptions": [
        "re.escape(x) yields a regex matching exactly the string x",
        "fullmatch of a concatenation of LIT / ANY* fragments compiled with DOTALL is the documented matching relation",
        "a pattern without '*' consists of literal characters only (used to accept a guarded literal-key shortcut)",
        "greedy-earliest lemma: in part0 ANY* part1 ... ANY* partk with literal parts, committing every wildcard but the last to the first occurrence of the part that follows it loses no match",
        "markdown-it encodes a bare '%' of a destination as '%25' and normalizeLinkText leaves '%25' encoded",
        "the statements of a try body other than the href parse do not raise the handled exception",
        "a constant regex / replacement applied to the raw pattern treats every character it does not mention alike (regexes with classes, categories or '.' are answered ANALYSIS-ERROR)",
    ],
}

INV = "myst_parser.inventory"
STAR, BSL, OTHER = "*", "\\", "<c>"


# ---------------------------------------------------------------------------
# small helpers


def _defs_of(fi: FunctionInfo, name: str) -> list[ast.expr]:
    """Value expressions assigned to local ``name`` (tuple-to-tuple assignments element-wise)."""
    out: list[ast.expr] = []
    for n in fi.local_nodes():
        if isinstance(n, ast.Assign):
            for t in n.targets:
                if isinstance(t, ast.Name) and t.id == name:
                    out.append(n.value)
                elif isinstance(t, (ast.Tuple, ast.List)):
                    for i, e in enumerate(t.elts):
                        if isinstance(e, ast.Name) and e.id == name:
                            if any(isinstance(x, ast.Starred) for x in t.elts[:i]):
                                raise Unsupported(f"{fi.qualname}: {name} is bound after a star-target in `{short(n, 50)}`")
                            out.append(_elem_source(n.value, i))
        elif isinstance(n, ast.AnnAssign) and isinstance(n.target, ast.Name) and n.target.id == name and n.value is not None:
            out.append(n.value)
        elif isinstance(n, (ast.AugAssign,)) and isinstance(n.target, ast.Name) and n.target.id == name:
            if isinstance(n.op, ast.Add) and _is_none_padding(n.value):
                continue  # `parts += [""] * k`: padding behind the elements, which keep their positions
            raise Unsupported(f"{fi.qualname}: augmented assignment to {name}")
        elif isinstance(n, (ast.For, ast.comprehension)) and any(isinstance(x, ast.Name) and x.id == name for x in ast.walk(n.target)):
            raise Unsupported(f"{fi.qualname}: {name} is a loop variable")
        elif isinstance(n, ast.NamedExpr) and n.target.id == name:
            raise Unsupported(f"{fi.qualname}: walrus assignment to {name}")
    return out


def _is_none_padding(e: ast.expr) -> bool:
    """`[None] * k`, `k * [None]`, `[None, None]`, `(None,) * k`, likewise with '': a sequence of "nothing given" of some length."""
    if isinstance(e, (ast.List, ast.Tuple)):
        return bool(e.elts) and all(isinstance(x, ast.Constant) and (x.value is None or x.value == "") for x in e.elts)
    if isinstance(e, ast.BinOp) and isinstance(e.op, ast.Mult):
        return _is_none_padding(e.left) or _is_none_padding(e.right)
    return False


def _elem_source(seq: ast.expr, i: int) -> ast.expr:
    """Where element ``i`` of the sequence expression ``seq`` comes from (or None when the sequence is shorter).

    Understood: literals, `P + <None padding>`, prefix slices `X[:k]`, list(X)/tuple(X); otherwise `seq[i]`."""
    if isinstance(seq, (ast.Tuple, ast.List)) and not any(isinstance(x, ast.Starred) for x in seq.elts) and i < len(seq.elts):
        return seq.elts[i]
    if isinstance(seq, ast.BinOp) and isinstance(seq.op, ast.Add) and _is_none_padding(seq.right):
        return _elem_source(seq.left, i)  # element i of the left operand if present, else None
    if isinstance(seq, (ast.Tuple, ast.List)) and seq.elts and isinstance(seq.elts[0], ast.Starred) and all(isinstance(x, ast.Constant) and x.value is None for x in seq.elts[1:]):
        return _elem_source(seq.elts[0].value, i)  # [*X, None, None]: X padded with None
    if isinstance(seq, ast.Subscript) and isinstance(seq.slice, ast.Slice) and seq.slice.step is None and (seq.slice.lower is None or (isinstance(seq.slice.lower, ast.Constant) and seq.slice.lower.value == 0)):
        up = seq.slice.upper
        if up is None or (isinstance(up, ast.Constant) and type(up.value) is int and i < up.value):
            return _elem_source(seq.value, i)
    if isinstance(seq, ast.Call) and isinstance(seq.func, ast.Name) and seq.func.id in ("list", "tuple") and len(seq.args) == 1 and not seq.keywords:
        return _elem_source(seq.args[0], i)
    if isinstance(seq, (ast.GeneratorExp, ast.ListComp)) and len(seq.generators) == 1:
        # (f(x) for x in (a, b, c)) unpacked: element i is f(<i-th item>)
        gen = seq.generators[0]
        src_i = _elem_source(gen.iter, i) if (not gen.ifs and not gen.is_async and isinstance(gen.target, ast.Name)) else None
        if src_i is not None and (isinstance(gen.iter, ast.Name) or not (isinstance(src_i, ast.Subscript) and src_i.value is gen.iter)):
            var, item = gen.target.id, ast.unparse(src_i)

            class Sub(ast.NodeTransformer):
                def visit_Name(self, node):
                    return ast.parse(item, mode="eval").body if node.id == var else node

            new = Sub().visit(ast.parse(ast.unparse(seq.elt), mode="eval").body)
            ast.fix_missing_locations(new)
            return new
    return ast.Subscript(value=seq, slice=ast.Constant(i), ctx=ast.Load())


def _alias_of_param(e: ast.expr, fi: FunctionInfo, depth: int = 0) -> str | None:
    """Parameter name that ``e`` is an unmodified copy of (through single-assignment locals)."""
    if not isinstance(e, ast.Name) or depth > 4:
        return None
    defs = _defs_of(fi, e.id)
    if e.id in fi.params:
        return e.id if not defs else None
    if len(defs) == 1:
        return _alias_of_param(defs[0], fi, depth + 1)
    return None


def _is_none_test(t: ast.expr, name: str) -> bool | None:
    """True for `name is None`/`name == None`, False for `name is not None`, None otherwise."""
    if isinstance(t, ast.Compare) and len(t.ops) == 1 and isinstance(t.left, ast.Name) and t.left.id == name:
        c = t.comparators[0]
        if isinstance(c, ast.Constant) and c.value is None:
            if isinstance(t.ops[0], (ast.Is, ast.Eq)):
                return True
            if isinstance(t.ops[0], (ast.IsNot, ast.NotEq)):
                return False
    return None


# ---------------------------------------------------------------------------
# R1: transducer extraction (DESIGN E10)


class Transducer:
    """`_create_regex` as a decision table over (flag valuation x character class)."""

    def __init__(self, fi: FunctionInfo, scan_only: bool = False, text_mode: bool = False):
        self.fi = fi
        self.mod = fi.module
        if len(fi.params) != 1:
            raise Unsupported(f"{fi.qualname} has parameters {fi.params}; the translator is understood with exactly one (the pattern)")
        self.pat = fi.params[0]
        self.acc: str | None = None
        self.flags0: dict[str, bool] = {}
        self.loop: ast.For | None = None
        self.post: list[ast.stmt] = []
        self.ret: ast.Return | None = None
        self.scan_only, self.text_mode = scan_only, text_mode
        self.scan_post: list[ast.stmt] | None = None
        self.scan_acc: str | None = None
        self.escape_map = False
        self.asm_fn: FunctionInfo | None = None
        if not scan_only and self._pipeline():
            return
        self._split_body()
        self.char = self.loop.target.id
        self.classes = self._classes()
        self.table: dict[tuple, tuple] = {}
        self.end: dict[tuple, list] = {}
        self._build()

    # -- the translator split into helpers: scan -> (re.escape over the parts) -> assembly -----------------
    def _pipeline(self) -> bool:
        """`parts = [re.escape(p) for p in _split(pat)]` (or `parts = _split(pat)`) ... `return re.compile(<assembly>, flags)`:
        the character scan lives in a helper that returns the list of parts; the assembly is inline or in a helper `_join(parts)`."""
        body = [st for st in self.fi.node.body if not (isinstance(st, ast.Expr) and isinstance(st.value, ast.Constant))]
        if len(body) < 2 or not isinstance(body[-1], ast.Return):
            return False
        st = body[0]
        if not (isinstance(st, ast.Assign) and len(st.targets) == 1 and isinstance(st.targets[0], ast.Name)):
            return False
        v = st.value
        escape = False
        if isinstance(v, ast.ListComp) and len(v.generators) == 1 and not v.generators[0].ifs and isinstance(v.generators[0].target, ast.Name):
            g_ = v.generators[0]
            if isinstance(v.elt, ast.Call) and self.mod.resolve(dotted(v.elt.func) or "") == "re.escape" and len(v.elt.args) == 1 and isinstance(v.elt.args[0], ast.Name) and v.elt.args[0].id == g_.target.id:
                escape, v = True, g_.iter
            elif isinstance(v.elt, ast.Name) and v.elt.id == g_.target.id:
                v = g_.iter
            else:
                return False
        if not (isinstance(v, ast.Call) and isinstance(v.func, ast.Name) and v.func.id in self.mod.functions and len(v.args) == 1 and not v.keywords and isinstance(v.args[0], ast.Name) and v.args[0].id == self.pat):
            return False
        h = self.mod.functions[v.func.id]
        if h.is_lambda or len(h.params) != 1 or h.fq == self.fi.fq:
            return False
        inner = Transducer(h, scan_only=True, text_mode=escape)
        if not inner.acc_list:
            raise Unsupported(f"{h.qualname} does not collect a list of parts")
        self.inner = inner
        self.acc, self.acc_list = st.targets[0].id, True
        self.flags0, self.loop, self.char, self.classes = inner.flags0, inner.loop, inner.char, inner.classes
        self.table, self.init, self.states = inner.table, inner.init, inner.states
        self.holders, self.rewrites = inner.holders, inner.rewrites
        self.end = {s_: [] for s_ in inner.states}
        self.prefix, self.end_anchor, self.seen_anys = [], None, []
        self.scan_post, self.scan_acc, self.escape_map = inner.post, inner.acc, escape
        self.post, self.ret = body[1:-1], body[-1]
        rv = self.ret.value
        if not (isinstance(rv, ast.Call) and self.mod.resolve(dotted(rv.func) or "") == "re.compile" and rv.args):
            raise Unsupported(f"{self.fi.qualname} does not return re.compile(...)")
        a0 = rv.args[0]
        if isinstance(a0, ast.Call) and isinstance(a0.func, ast.Name) and a0.func.id in self.mod.functions and len(a0.args) == 1 and not a0.keywords and isinstance(a0.args[0], ast.Name) and a0.args[0].id == self.acc:
            j = self.mod.functions[a0.func.id]
            if j.is_lambda or len(j.params) != 1:
                raise Unsupported(f"{j.qualname}: assembly helper signature")
            self.asm_fn = j
        return True

    # -- function shape -------------------------------------------------------
    LOSSY = {"lower", "upper", "casefold", "title", "capitalize", "swapcase", "strip", "lstrip", "rstrip"}

    def _rewrite_of(self, val: ast.expr):
        """(holder name, rewrite description | None) when ``val`` is a (rewritten) copy of the pattern."""
        if isinstance(val, ast.Name) and val.id in self.holders:
            return val.id, None
        if isinstance(val, ast.Call) and not val.keywords:
            if self.mod.resolve(dotted(val.func) or "") == "re.sub" and len(val.args) == 3 and isinstance(val.args[2], ast.Name) and val.args[2].id in self.holders:
                try:
                    p_, r_ = self.mod.eval_const(val.args[0]), self.mod.eval_const(val.args[1])
                except Unsupported:
                    return None
                if isinstance(p_, str) and isinstance(r_, str):
                    return val.args[2].id, ("sub", p_, r_, val)
            if isinstance(val.func, ast.Attribute) and isinstance(val.func.value, ast.Name) and val.func.value.id in self.holders:
                if val.func.attr == "replace" and len(val.args) == 2:
                    try:
                        a_, b_ = self.mod.eval_const(val.args[0]), self.mod.eval_const(val.args[1])
                    except Unsupported:
                        return None
                    if isinstance(a_, str) and isinstance(b_, str):
                        return val.func.value.id, ("replace", a_, b_, val)
                if val.func.attr in self.LOSSY:
                    return val.func.value.id, ("lossy", val.func.attr, None, val)
        return None

    def _split_body(self) -> None:
        phase = "pre"
        self.acc_list = False
        self.holders: dict[str, list] = {self.pat: []}  # names holding the (possibly rewritten) pattern
        self.rewrites: list = []
        for st in self.fi.node.body:
            if isinstance(st, ast.Expr) and isinstance(st.value, ast.Constant):
                continue  # docstring
            if self.ret is not None:
                raise Unsupported(f"statement after return in {self.fi.qualname}")
            if phase == "pre":
                tgt, val = None, None
                if isinstance(st, ast.Assign) and len(st.targets) == 1 and isinstance(st.targets[0], ast.Name):
                    tgt, val = st.targets[0].id, st.value
                elif isinstance(st, ast.AnnAssign) and isinstance(st.target, ast.Name) and st.value is not None:
                    tgt, val = st.target.id, st.value
                if tgt is not None and self.acc is None and isinstance(val, ast.List) and len(val.elts) == 1 and isinstance(val.elts[0], ast.Constant) and val.elts[0].value == "":
                    # parts = [""]: the literal pieces between the wildcards are collected, the regex is assembled afterwards
                    self.acc = tgt
                    self.acc_list = True
                    continue
                if tgt is not None and isinstance(val, ast.Constant):
                    if val.value == "" and self.acc is None:
                        self.acc = tgt
                        continue
                    if isinstance(val.value, bool):
                        self.flags0[tgt] = val.value
                        continue
                if tgt is not None:
                    rw = self._rewrite_of(val)
                    if rw is not None:
                        self.holders[tgt] = self.holders[rw[0]] + ([rw[1]] if rw[1] is not None else [])
                        continue
                if isinstance(st, ast.For):
                    if not (isinstance(st.iter, ast.Name) and st.iter.id in self.holders):
                        raise Unsupported(f"the translator loop iterates `{short(st.iter, 40)}`, not the pattern parameter (or an understood rewrite of it)")
                    self.rewrites = self.holders[st.iter.id]
                    if not isinstance(st.target, ast.Name) or st.orelse:
                        raise Unsupported("translator loop target/else not understood")
                    self.loop = st
                    phase = "post"
                    continue
                raise Unsupported(f"statement before the translator loop not understood: `{short(st, 60)}`")
            else:
                if isinstance(st, ast.Return):
                    if self.scan_only and not (isinstance(st.value, ast.Name) and st.value.id == self.acc):
                        raise Unsupported(f"{self.fi.qualname} does not return its list of parts")
                    self.ret = st
                else:
                    self.post.append(st)
        if self.loop is None or self.acc is None or self.ret is None:
            raise Unsupported(f"{self.fi.qualname}: accumulator / character loop / return not found (rewritten in an unknown idiom)")
        for n in ast.walk(self.fi.node):
            if isinstance(n, (ast.FunctionDef, ast.Lambda, ast.While, ast.Try, ast.With)) and n is not self.fi.node:
                raise Unsupported(f"{type(n).__name__} inside the translator")
            if isinstance(n, ast.For) and n is not self.loop and not (self.acc_list and n in self.post):
                raise Unsupported("second loop inside the translator")

    def _classes(self) -> list[str]:
        cls = [STAR, BSL]
        for n in ast.walk(self.fi.node):
            if isinstance(n, ast.Compare) and any(isinstance(x, ast.Name) and x.id == self.char for x in [n.left, *n.comparators]):
                for x in [n.left, *n.comparators]:
                    try:
                        v = self._const(x)
                    except Unsupported:
                        continue
                    items = list(v) if isinstance(v, (str, tuple, list, set, frozenset)) else []
                    for it in items:
                        if isinstance(it, str) and len(it) == 1 and it not in cls:
                            cls.append(it)
        for rw in self.rewrites:
            lits = set()
            if rw[0] == "sub":
                lits |= _regex_literals(rw[1]) | set(rw[2])
            elif rw[0] == "replace":
                lits |= set(rw[1]) | set(rw[2])
            for ch in sorted(lits):
                if ch not in cls:
                    cls.append(ch)
        return cls + [OTHER]

    REP = "\x01"  # stands for "any other character" when a rewrite is applied to an abstract pattern

    def rewrite(self, seq):
        """The class sequence the loop sees for the abstract pattern ``seq`` (stdlib re.sub / str.replace on constants of the source)."""
        if not self.rewrites:
            return seq
        import re as _re

        text = "".join(self.REP if c == OTHER else c for c in seq)
        for rw in self.rewrites:
            if rw[0] == "sub":
                try:
                    text = _re.sub(rw[1], rw[2], text)
                except Exception as e:
                    raise Unsupported(f"re.sub({rw[1]!r}, {rw[2]!r}, ...) fails on an abstract pattern: {e}") from None
            elif rw[0] == "replace":
                text = text.replace(rw[1], rw[2])
        out = []
        for ch in text:
            if ch == self.REP:
                out.append(OTHER)
            elif ch in self.classes:
                out.append(ch)
            else:
                raise Unsupported(f"pattern rewrite produces character {ch!r} outside the modelled classes")
        return tuple(out)

    def _const(self, e: ast.expr):
        if isinstance(e, ast.Name) and (e.id in (self.char, self.acc, self.pat) or e.id in self.holders) or (isinstance(e, ast.Name) and e.id in self.flags0):
            raise Unsupported("not a constant")
        return self.mod.eval_const(e)

    # -- abstract evaluation ----------------------------------------------------
    def _ev(self, t: ast.expr, flags: dict[str, bool], cls: str | None) -> bool:
        if isinstance(t, ast.Constant) and isinstance(t.value, bool):
            return t.value
        if isinstance(t, ast.Name) and t.id in flags:
            return flags[t.id]
        if isinstance(t, ast.UnaryOp) and isinstance(t.op, ast.Not):
            return not self._ev(t.operand, flags, cls)
        if isinstance(t, ast.BoolOp):
            vals = [self._ev(v, flags, cls) for v in t.values]
            return all(vals) if isinstance(t.op, ast.And) else any(vals)
        if isinstance(t, ast.Compare) and len(t.ops) == 1:
            l, r, op = t.left, t.comparators[0], t.ops[0]
            if cls is None:
                raise Unsupported(f"character test `{short(t, 40)}` outside the loop")
            if isinstance(r, ast.Name) and r.id == self.char and isinstance(op, (ast.Eq, ast.NotEq)):
                l, r = r, l
            if isinstance(l, ast.Name) and l.id == self.char:
                v = self._const(r)
                if isinstance(op, (ast.Eq, ast.NotEq)) and isinstance(v, str):
                    res = cls != OTHER and v == cls
                    return res if isinstance(op, ast.Eq) else not res
                if isinstance(op, (ast.In, ast.NotIn)) and isinstance(v, (str, tuple, list, set, frozenset)):
                    res = cls != OTHER and cls in list(v)
                    return res if isinstance(op, ast.In) else not res
        raise Unsupported(f"branch condition `{short(t, 60)}` in {self.fi.qualname} is outside the understood subset (flag / char == CONST combinations)")

    def _str_items(self, e: ast.expr, cls: str | None) -> list[tuple[str, str]]:
        """String expression -> [("const", text) | ("char", class)]."""
        if isinstance(e, ast.Name) and e.id == self.char:
            if cls is None:
                raise Unsupported("loop character used after the loop")
            return [("char", cls)]
        if isinstance(e, ast.BinOp) and isinstance(e.op, ast.Add):
            return self._str_items(e.left, cls) + self._str_items(e.right, cls)
        if isinstance(e, ast.JoinedStr):
            out = []
            for v in e.values:
                if isinstance(v, ast.Constant):
                    out.append(("const", v.value))
                elif isinstance(v, ast.FormattedValue) and v.conversion == -1 and v.format_spec is None:
                    out += self._str_items(v.value, cls)
                else:
                    raise Unsupported("formatted value in the translator")
            return out
        v = self._const(e)
        if isinstance(v, str):
            return [("const", v)]
        raise Unsupported(f"string expression `{short(e, 40)}` not understood")

    def _frags(self, e: ast.expr, cls: str | None) -> list[tuple]:
        """Regex text appended to the accumulator -> fragment kinds."""
        if isinstance(e, ast.BinOp) and isinstance(e.op, ast.Add):
            return self._frags(e.left, cls) + self._frags(e.right, cls)
        if self.text_mode:
            # the parts are plain text here (the caller maps re.escape over them): every appended character is itself
            if isinstance(e, ast.Call):
                raise Unsupported(f"call `{short(e, 40)}` appended to a text part that is escaped later")
            return [f for kind, x in self._str_items(e, cls) for f in ([("RAW", x)] if kind == "char" else [("RAW", ch) for ch in x])]
        if isinstance(e, ast.Call) and self.mod.resolve(dotted(e.func) or "") == "re.escape" and len(e.args) == 1 and not e.keywords:
            out = []
            for kind, x in self._str_items(e.args[0], cls):
                if kind == "char":
                    out.append(("LIT", x))
                else:
                    out += [("LIT", ch) for ch in x]
            return out
        if isinstance(e, ast.Call):
            raise Unsupported(f"call `{short(e, 40)}` appended to the regex")
        out = []
        for kind, x in self._str_items(e, cls):
            if kind == "char":
                out.append(("RAW", x))
            else:
                try:
                    out += classify_regex_text(x)
                except Unsupported as ex:
                    if "does not parse on its own" not in str(ex):
                        raise
                    out += [("RAW", ch) for ch in x]  # e.g. a lone backslash appended as regex text: not an escaped literal
        return out

    def _run(self, stmts, flags: dict[str, bool], out: list, cls: str | None) -> str:
        for st in stmts:
            if isinstance(st, ast.Pass) or (isinstance(st, ast.Expr) and isinstance(st.value, ast.Constant)):
                continue
            if isinstance(st, ast.If):
                r = self._run(st.body if self._ev(st.test, flags, cls) else st.orelse, flags, out, cls)
                if r != "fall":
                    return r
                continue
            if isinstance(st, ast.Continue):
                if cls is None:
                    raise Unsupported("continue outside the loop")
                return "continue"
            if not self.acc_list and isinstance(st, ast.AugAssign) and isinstance(st.target, ast.Name) and st.target.id == self.acc and isinstance(st.op, ast.Add):
                out += self._frags(st.value, cls)
                continue
            if self.acc_list and isinstance(st, ast.AugAssign) and isinstance(st.op, ast.Add) and self._is_last_part(st.target):
                out += self._frags(st.value, cls)  # parts[-1] += ...
                continue
            if self.acc_list and isinstance(st, ast.Expr) and isinstance(st.value, ast.Call) and isinstance(st.value.func, ast.Attribute) and st.value.func.attr == "append" and isinstance(st.value.func.value, ast.Name) and st.value.func.value.id == self.acc and len(st.value.args) == 1 and not st.value.keywords:
                out.append(("SEP",))  # parts.append(""): a wildcard boundary
                out += self._frags(st.value.args[0], cls)
                continue
            if isinstance(st, ast.Assign) and len(st.targets) == 1 and isinstance(st.targets[0], ast.Name) and not (self.acc_list and st.targets[0].id == self.acc):
                name = st.targets[0].id
                if name in flags:
                    flags[name] = self._ev(st.value, flags, cls)
                    continue
                if name == self.acc and isinstance(st.value, ast.BinOp) and isinstance(st.value.op, ast.Add) and isinstance(st.value.left, ast.Name) and st.value.left.id == self.acc:
                    out += self._frags(st.value.right, cls)
                    continue
            raise Unsupported(f"statement `{short(st, 60)}` in {self.fi.qualname} is outside the understood subset")
        return "fall"

    def _is_last_part(self, t: ast.expr, acc: str | None = None) -> bool:
        return isinstance(t, ast.Subscript) and isinstance(t.value, ast.Name) and t.value.id == (acc or self.acc) and (
            (isinstance(t.slice, ast.UnaryOp) and isinstance(t.slice.op, ast.USub) and isinstance(t.slice.operand, ast.Constant) and t.slice.operand.value == 1)
            or (isinstance(t.slice, ast.Constant) and t.slice.value == -1)
        )

    # -- list mode: the statements after the scan (flush of the pending flag, assembly of the regex from the parts)
    def _assemble(self, flags: dict[str, bool], flat: list) -> tuple[list, list]:
        """(final regex fragments, the parts after the flush) for the scan output ``flat`` (fragments with SEP markers)."""
        parts: list[list] = [[]]
        for f in flat:
            if f == ("SEP",):
                parts.append([])
            else:
                parts[-1].append(f)
        env: dict[str, object] = {}
        flushed: list | None = None
        accname = self.scan_acc if self.scan_post is not None else self.acc  # the name the parts go by in the statements being run
        fragfn = self.inner._frags if self.scan_post is not None else self._frags  # (the scan helper may collect plain text)

        def const_int(e):
            if isinstance(e, ast.Constant) and type(e.value) is int:
                return e.value
            if isinstance(e, ast.UnaryOp) and isinstance(e.op, ast.USub) and isinstance(e.operand, ast.Constant) and type(e.operand.value) is int:
                return -e.operand.value
            return None

        def ev(e):
            if isinstance(e, ast.Subscript) and isinstance(e.value, ast.Name) and e.value.id == accname:
                if isinstance(e.slice, ast.Slice):
                    lo = None if e.slice.lower is None else const_int(e.slice.lower)
                    hi = None if e.slice.upper is None else const_int(e.slice.upper)
                    if e.slice.step is not None or (e.slice.lower is not None and lo is None) or (e.slice.upper is not None and hi is None):
                        raise Unsupported(f"slice `{short(e, 30)}` of the parts")
                    return ("PARTS", [list(p_) for p_ in parts[lo:hi]])
                i = const_int(e.slice)
                if i is None or not (-len(parts) <= i < len(parts)):
                    raise Unsupported(f"index `{short(e, 30)}` into the parts")
                return list(parts[i])
            if isinstance(e, ast.Name) and e.id in env:
                v = env[e.id]
                return list(v) if isinstance(v, list) else v
            if isinstance(e, ast.Name) and e.id == accname:
                return ("PARTS", [list(p_) for p_ in parts])
            if isinstance(e, ast.BinOp) and isinstance(e.op, ast.Add):
                a, b = ev(e.left), ev(e.right)
                if isinstance(a, list) and isinstance(b, list):
                    return a + b
                raise Unsupported(f"`{short(e, 40)}` in the regex assembly")
            if isinstance(e, ast.JoinedStr):
                return self._template(e, env, ev)
            if isinstance(e, ast.Constant) and isinstance(e.value, str):
                return classify_regex_text(e.value) if e.value else []
            if isinstance(e, ast.Call) and self.mod.resolve(dotted(e.func) or "") == "re.escape":
                return self._frags(e, None)
            raise Unsupported(f"expression `{short(e, 40)}` in the regex assembly of {self.fi.qualname}")

        def test(t):
            try:
                return self._ev(t, flags, None)
            except Unsupported:
                pass
            if isinstance(t, ast.Compare) and len(t.ops) == 1 and isinstance(t.left, ast.Call) and isinstance(t.left.func, ast.Name) and t.left.func.id == "len" and len(t.left.args) == 1 and isinstance(t.left.args[0], ast.Name) and t.left.args[0].id == accname and const_int(t.comparators[0]) is not None:
                a, b = len(parts), const_int(t.comparators[0])
                for cls_, fn in ((ast.Gt, a > b), (ast.GtE, a >= b), (ast.Lt, a < b), (ast.LtE, a <= b), (ast.Eq, a == b), (ast.NotEq, a != b)):
                    if isinstance(t.ops[0], cls_):
                        return fn
            raise Unsupported(f"test `{short(t, 40)}` in the regex assembly of {self.fi.qualname}")

        def run(stmts):
            nonlocal flushed
            for st in stmts:
                if isinstance(st, ast.Pass) or (isinstance(st, ast.Expr) and isinstance(st.value, ast.Constant)):
                    continue
                if isinstance(st, ast.If):
                    run(st.body if test(st.test) else st.orelse)
                elif isinstance(st, ast.AugAssign) and isinstance(st.op, ast.Add) and self._is_last_part(st.target, accname):
                    if flushed is not None:
                        raise Unsupported("a part is extended after the assembly has started")
                    parts[-1] += fragfn(st.value, None)
                elif isinstance(st, ast.AugAssign) and isinstance(st.op, ast.Add) and isinstance(st.target, ast.Name) and st.target.id in env and isinstance(env[st.target.id], list):
                    v = ev(st.value)
                    if not isinstance(v, list):
                        raise Unsupported(f"`{short(st, 50)}` in the regex assembly")
                    env[st.target.id] = env[st.target.id] + v
                elif isinstance(st, ast.Assign) and len(st.targets) == 1 and isinstance(st.targets[0], ast.Name) and st.targets[0].id != accname and st.targets[0].id not in flags:
                    if flushed is None:
                        flushed = [list(p_) for p_ in parts]
                    env[st.targets[0].id] = ev(st.value)
                elif isinstance(st, ast.For) and not st.orelse:
                    if flushed is None:
                        flushed = [list(p_) for p_ in parts]
                    it = st.iter
                    enum = isinstance(it, ast.Call) and isinstance(it.func, ast.Name) and it.func.id == "enumerate" and len(it.args) == 1 and not it.keywords
                    seqv = ev(it.args[0] if enum else it)
                    if not (isinstance(seqv, tuple) and seqv[0] == "PARTS"):
                        raise Unsupported(f"assembly loop over `{short(st.iter, 40)}`")
                    for i, part in enumerate(seqv[1]):
                        if enum:
                            if not (isinstance(st.target, ast.Tuple) and len(st.target.elts) == 2 and all(isinstance(x, ast.Name) for x in st.target.elts)):
                                raise Unsupported("enumerate loop target")
                            env[st.target.elts[0].id] = i
                            env[st.target.elts[1].id] = part
                        elif isinstance(st.target, ast.Name):
                            env[st.target.id] = part
                        else:
                            raise Unsupported("assembly loop target")
                        run(st.body)
                else:
                    raise Unsupported(f"statement `{short(st, 60)}` in the regex assembly of {self.fi.qualname}")

        if self.scan_post is not None:
            # the scan lives in a helper: its flush first, then what the caller does to the parts, then the assembly
            run(self.scan_post)
            if flushed is not None:
                raise Unsupported("the scan helper assembles as well")
            if self.escape_map:
                parts[:] = [[("LIT", f[1]) if f[0] == "RAW" else f for f in p_] for p_ in parts]
            flushed = [list(p_) for p_ in parts]
            fragfn = self._frags
        v = self.ret.value
        if not (isinstance(v, ast.Call) and self.mod.resolve(dotted(v.func) or "") == "re.compile" and v.args):
            raise Unsupported(f"{self.fi.qualname} does not return re.compile(...)")
        if self.asm_fn is not None:
            accname = self.acc
            run(self.post)  # (statements between the parts and the compile call in the translator itself: normally none)
            accname = self.asm_fn.params[0]
            jb = [st for st in self.asm_fn.node.body if not (isinstance(st, ast.Expr) and isinstance(st.value, ast.Constant))]
            if not jb or not isinstance(jb[-1], ast.Return) or jb[-1].value is None:
                raise Unsupported(f"{self.asm_fn.qualname}: assembly helper does not end in a return")
            run(jb[:-1])
            final = ev(jb[-1].value)
        else:
            accname = self.acc
            run(self.post)
            final = ev(v.args[0])
        if not isinstance(final, list):
            raise Unsupported(f"{self.fi.qualname}: re.compile argument not understood")
        return _check_atomic(final), (flushed if flushed is not None else parts)

    def _template(self, e: ast.JoinedStr, env: dict, ev=None) -> list:
        """An f-string of regex text with parts / integers interpolated -> fragments."""
        text = ""
        sent: dict[str, list] = {}
        for v in e.values:
            if isinstance(v, ast.Constant):
                text += v.value
            elif isinstance(v, ast.FormattedValue) and v.conversion == -1 and v.format_spec is None and ((isinstance(v.value, ast.Name) and v.value.id in env) or ev is not None):
                val = env[v.value.id] if isinstance(v.value, ast.Name) and v.value.id in env else ev(v.value)
                if isinstance(val, int):
                    text += str(val)
                elif isinstance(val, list):
                    ch = chr(0xE000 + len(sent))
                    sent[ch] = val
                    text += ch
                else:
                    raise Unsupported("interpolated value in the regex template")
            else:
                raise Unsupported(f"interpolation `{short(v, 30)}` in the regex template")
        try:
            tree = sre_parse.parse(text)
        except Exception as ex:
            raise Unsupported(f"regex template {short(e, 50)} does not parse: {ex}") from None
        return _tree_frags(list(tree), sent, short(e, 50))

    def _build(self) -> None:
        init = tuple(sorted(self.flags0.items()))
        seen = {init}
        work = [init]
        while work:
            s = work.pop()
            for c in self.classes:
                flags = dict(s)
                out: list = []
                self._run(self.loop.body, flags, out, c)
                nxt = tuple(sorted(flags.items()))
                self.table[(s, c)] = (out, nxt)
                if nxt not in seen:
                    seen.add(nxt)
                    work.append(nxt)
        self.init = init
        self.states = seen
        self.seen_anys: list = []
        if self.acc_list:
            self.prefix, self.end_anchor = [], None
            for s in seen:
                self.end[s] = []
            return
        v = self.ret.value
        if not (isinstance(v, ast.Call) and v.args):
            raise Unsupported(f"{self.fi.qualname} does not return re.compile(<accumulator>)")
        self.prefix, suffix = self._wrap(v.args[0])
        for s in seen:
            flags = dict(s)
            out = []
            self._run(self.post, flags, out, None)
            self.end[s] = out + suffix
        ends = {tuple(o[-1]) if o and o[-1][0] == "ANCHOR" else None for o in self.end.values()}
        self.end_anchor = ends.pop()[1] if len(ends) == 1 and None not in ends else None
        self.init = init
        self.states = seen

    def whole(self, seq) -> tuple[list, list]:
        """(the complete translation of the abstract pattern, the same before the assembly step) as fragment lists."""
        if not self.acc_list:
            steps, end = self.output(seq)
            w = [f for st in steps for f in st] + end
            return w, w
        s = self.init
        flat: list = []
        for c in seq:
            out, s = self.table[(s, c)]
            flat += out
        final, parts = self._assemble(dict(s), flat)
        self.seen_anys += [f for f in final if f[0] == "ANY"]
        naive: list = []
        for i, p_ in enumerate(parts):
            if i:
                naive.append(("ANY", 0, "inf", True))
            naive += p_
        return final, naive

    def output(self, seq) -> tuple[list, list]:
        """(fragments per step, end fragments) for a sequence of character classes."""
        if self.acc_list:
            s = self.init
            steps = []
            flat: list = []
            for c in seq:
                out, s = self.table[(s, c)]
                flat += out
                steps.append([("ANY", 0, "inf", True) if f == ("SEP",) else f for f in out])
            _final, parts = self._assemble(dict(s), flat)
            if self.escape_map:  # the caller escapes the collected text: the steps are shown as what reaches the regex
                steps = [[("LIT", f[1]) if f[0] == "RAW" else f for f in x] for x in steps]
            before = sum(len(x) for x in steps) - sum(1 for x in steps for f in x if f[0] == "ANY")
            tail = [f for p_ in parts for f in p_][before:]  # what the flush added to the last part
            return steps, tail
        s = self.init
        steps = []
        for c in seq:
            out, s = self.table[(s, c)]
            steps.append(out)
        if self.prefix:
            steps = [self.prefix + steps[0]] + steps[1:] if steps else steps
            if not steps:
                return steps, self.prefix + self.end[s]
        return steps, self.end[s]

    # -- return ------------------------------------------------------------------
    def compile_call(self) -> ast.Call:
        v = self.ret.value
        if not (isinstance(v, ast.Call) and self.mod.resolve(dotted(v.func) or "") == "re.compile" and v.args):
            raise Unsupported(f"{self.fi.qualname} does not return re.compile(<accumulator>)")
        if not self.acc_list:
            self._wrap(v.args[0])
        return v

    def _wrap(self, e: ast.expr) -> tuple[list, list]:
        """`prefix + <accumulator> + suffix` handed to re.compile -> (prefix fragments, suffix fragments)."""
        parts: list[ast.expr] = []

        def flat(x):
            if isinstance(x, ast.BinOp) and isinstance(x.op, ast.Add):
                flat(x.left)
                flat(x.right)
            else:
                parts.append(x)

        flat(e)
        at = [i for i, x in enumerate(parts) if isinstance(x, ast.Name) and x.id == self.acc]
        if len(at) != 1:
            raise Unsupported(f"{self.fi.qualname} does not return re.compile(<accumulator>)")
        pre: list = []
        suf: list = []
        for i, x in enumerate(parts):
            if i != at[0]:
                (pre if i < at[0] else suf).extend(self._frags(x, None))
        return pre, suf

    def compile_flags(self) -> set[str]:
        v = self.compile_call()
        fl = v.args[1] if len(v.args) > 1 else kwarg(v, "flags")
        if fl is None:
            return set()
        out = set()

        def rec(e):
            if isinstance(e, ast.BinOp) and isinstance(e.op, ast.BitOr):
                rec(e.left)
                rec(e.right)
                return
            d = self.mod.resolve(dotted(e) or "")
            if d.startswith("re.") and d[3:].isupper():
                out.add({"S": "DOTALL", "I": "IGNORECASE", "X": "VERBOSE", "M": "MULTILINE", "A": "ASCII", "U": "UNICODE", "L": "LOCALE"}.get(d[3:], d[3:]))
                return
            if isinstance(e, ast.Constant) and e.value == 0:
                return
            raise Unsupported(f"re.compile flags `{short(e, 40)}` not understood")

        rec(fl)
        return out


def classify_regex_text(text: str) -> list[tuple]:
    """A constant regex fragment -> [("LIT", c) | ("ANY", min, max, dotall)]."""
    if text == "":
        return []
    try:
        tree = sre_parse.parse(text)
    except Exception as e:
        raise Unsupported(f"regex fragment {text!r} does not parse on its own: {e}") from None
    if tree.state.flags & ~sre_constants.SRE_FLAG_UNICODE:
        raise Unsupported(f"regex fragment {text!r} sets global flags")
    out = []
    for op, av in tree:
        out.append(_classify_item(op, av, text, False))
    return out


def _classify_item(op, av, text, dotall) -> tuple:
    name = str(op)
    if name == "LITERAL":
        return ("LIT", chr(av))
    if name in ("MAX_REPEAT", "MIN_REPEAT"):  # greedy/lazy: same language under fullmatch
        lo, hi, sub = av
        if len(sub) == 1:
            sop, sav = sub[0]
            if str(sop) == "ANY":
                return ("ANY", lo, "inf" if hi == sre_constants.MAXREPEAT else hi, dotall)
            if str(sop) == "SUBPATTERN" and sav[0] is None and len(sav[3]) == 1 and str(sav[3][0][0]) == "ANY" and not sav[2]:
                return ("ANY", lo, "inf" if hi == sre_constants.MAXREPEAT else hi, bool(sav[1] & sre_constants.SRE_FLAG_DOTALL))
    if name == "AT":
        sym = {"AT_END": "$", "AT_END_STRING": "\\Z", "AT_BEGINNING": "^", "AT_BEGINNING_STRING": "\\A"}.get(str(av))
        if sym is not None:
            return ("ANCHOR", sym)
    if name == "SUBPATTERN" and av[0] is None and len(av[3]) == 1 and not av[2] and not (av[1] & ~sre_constants.SRE_FLAG_DOTALL):
        return _classify_item(av[3][0][0], av[3][0][1], text, bool(av[1] & sre_constants.SRE_FLAG_DOTALL))
    raise Unsupported(f"regex fragment {text!r} contains {name}, which is neither a literal nor a repetition of ANY")


def _tree_frags(items: list, sent: dict[str, list], what: str) -> list:
    """Parsed regex items -> fragments; `(?=(?P<g>.*?X))(?P=g)` (a lookahead whose group is matched again by a backreference,
    i.e. an atomic "up to the first occurrence of X") becomes an atomic ANY* followed by X."""
    out: list = []
    i = 0
    while i < len(items):
        op, av = items[i]
        name = str(op)
        if name == "LITERAL":
            out += list(sent[chr(av)]) if chr(av) in sent else [("LIT", chr(av))]
        elif name in ("MAX_REPEAT", "MIN_REPEAT") and len(av[2]) == 1 and str(av[2][0][0]) == "ANY":
            out.append(("ANY", av[0], "inf" if av[1] == sre_constants.MAXREPEAT else av[1], False, "lazy" if name == "MIN_REPEAT" else "greedy"))
        elif name == "ASSERT" and av[0] == 1 and i + 1 < len(items) and str(items[i + 1][0]) == "GROUPREF":
            sub = list(av[1])
            if not (len(sub) == 1 and str(sub[0][0]) == "SUBPATTERN" and sub[0][1][0] == items[i + 1][1] and not sub[0][1][1] and not sub[0][1][2]):
                raise Unsupported(f"regex template {what}: lookahead + backreference not in the atomic-group shape")
            inner = _tree_frags(list(sub[0][1][3]), sent, what)
            if not (inner and inner[0][0] == "ANY" and inner[0][1:3] == (0, "inf") and all(f[0] in ("LIT", "RAW") for f in inner[1:])):
                raise Unsupported(f"regex template {what}: atomic group does not contain `.*?<literal part>`")
            out.append(("ANY", 0, "inf", False, "atomic-first" if inner[0][4] == "lazy" else "atomic-last"))
            out += inner[1:]
            i += 1
        elif name == "AT":
            sym = {"AT_END": "$", "AT_END_STRING": "\\Z", "AT_BEGINNING": "^", "AT_BEGINNING_STRING": "\\A"}.get(str(av))
            if sym is None:
                raise Unsupported(f"regex template {what}: {av}")
            out.append(("ANCHOR", sym))
        else:
            raise Unsupported(f"regex template {what} contains {name}, which is not modelled")
        i += 1
    return out


def _check_atomic(fr: list) -> list:
    """An atomic "up to the FIRST occurrence of the literal part" wildcard equals ANY* + part exactly when whatever follows
    can still absorb characters (another such wildcard or a plain ANY*): then committing to the earliest occurrence loses
    no match. Anything else (last occurrence, nothing elastic behind it) is kept as a fragment of its own, i.e. a mismatch."""
    out = []
    for j, f in enumerate(fr):
        if f[0] == "ANY" and len(f) > 4 and str(f[4]).startswith("atomic"):
            k = j + 1
            while k < len(fr) and fr[k][0] in ("LIT", "RAW"):
                k += 1
            elastic = k < len(fr) and fr[k][0] == "ANY" and fr[k][1:3] == (0, "inf")
            if f[4] == "atomic-first" and elastic:
                out.append(f)
            elif f[4] == "atomic-last":
                out.append(("ATOMIC", "up to the LAST occurrence of the following part"))
            else:
                out.append(("ATOMIC", "up to the first occurrence of the following part, with nothing elastic behind it"))
        else:
            out.append(f)
    return out


def _regex_literals(pattern: str) -> set[str]:
    """Literal characters a constant regex mentions; Unsupported if it uses classes / categories / the dot
    (then "any other character" would not be one uniform class)."""
    try:
        tree = sre_parse.parse(pattern)
    except Exception as e:
        raise Unsupported(f"regex {pattern!r} does not parse: {e}") from None
    out: set[str] = set()

    def walk(x):
        if isinstance(x, sre_parse.SubPattern):
            for it in x.data:
                walk(it)
            return
        if isinstance(x, tuple) and len(x) == 2 and not isinstance(x[0], (tuple, list, sre_parse.SubPattern)) and str(x[0]).isupper():
            op, av = str(x[0]), x[1]
            if op in ("LITERAL", "NOT_LITERAL"):
                out.add(chr(av))
            elif op in ("ANY", "CATEGORY", "RANGE"):
                raise Unsupported(f"regex {pattern!r} uses {op}: the effect on 'any other character' is not uniform")
            elif op == "IN":
                for it in av:
                    walk(it)
            elif op == "NEGATE":
                pass
            elif op in ("MAX_REPEAT", "MIN_REPEAT", "POSSESSIVE_REPEAT"):
                walk(av[2])
            elif op == "SUBPATTERN":
                walk(av[3])
            elif op == "BRANCH":
                for b in av[1]:
                    walk(b)
            elif op in ("ASSERT", "ASSERT_NOT"):
                walk(av[1])
            elif op in ("AT", "GROUPREF"):
                pass
            else:
                raise Unsupported(f"regex {pattern!r} uses {op}, which is not modelled")
            return
        if isinstance(x, (list, tuple)):
            for it in x:
                walk(it)

    walk(tree)
    return out


def _merge_any(fr: list) -> list:
    """ANY* ANY* matches the same strings as ANY*: adjacent unbounded wildcards are one."""
    out: list = []
    for f in fr:
        if out and f[:3] == ("ANY", 0, "inf") and out[-1][:3] == ("ANY", 0, "inf"):
            continue
        out.append(f)
    # an end anchor after everything / a start anchor before everything is zero-width under fullmatch (no MULTILINE)
    while out and out[-1][0] == "ANCHOR" and out[-1][1] in ("$", "\\Z"):
        out.pop()
    while out and out[0][0] == "ANCHOR" and out[0][1] in ("^", "\\A"):
        out.pop(0)
    return out


def spec_output(seq) -> tuple[list, list]:
    """The documented machine: states N (nothing pending) / P (backslash pending)."""
    s = "N"
    steps = []
    for c in seq:
        if s == "N":
            if c == STAR:
                steps.append([("ANY", 0, "inf")])
            elif c == BSL:
                steps.append([])
                s = "P"
            else:
                steps.append([("LIT", c)])
        else:
            if c == STAR:
                steps.append([("LIT", STAR)])
                s = "N"
            elif c == BSL:
                steps.append([("LIT", BSL)])
            else:
                steps.append([("LIT", BSL), ("LIT", c)])
                s = "N"
    return steps, ([("LIT", BSL)] if s == "P" else []), s


def _spec_states(seq) -> list[str]:
    s = "N"
    out = []
    for c in seq:
        out.append(s)
        if s == "N":
            s = "P" if c == BSL else "N"
        else:
            s = "P" if c == BSL else "N"
    out.append(s)
    return out


def _strip(fr: list) -> list:
    return [f[:3] if f[0] == "ANY" else f for f in fr]


def _show(fr: list) -> str:
    if not fr:
        return "(nothing)"
    out = []
    for f in fr:
        if f[0] == "LIT":
            out.append(f"LIT({f[1]})")
        elif f[0] == "RAW":
            out.append(f"UNESCAPED({f[1]})")
        elif f[0] == "ANCHOR":
            out.append(f"ANCHOR({f[1]})")
        elif f[0] == "ATOMIC":
            out.append(f"ATOMIC-WILDCARD({f[1]})")
        else:
            out.append("ANY*" if (f[1], f[2]) == (0, "inf") else f"ANY{{{f[1]},{f[2]}}}")
    return " ".join(out)


STATE_NAME = {"N": "no backslash pending", "P": "backslash pending"}
CLASS_NAME = {STAR: "'*'", BSL: "backslash", OTHER: "other character"}


def _transducer(corpus: Corpus) -> Transducer:
    return corpus.cache("c19-transducer", lambda: Transducer(corpus.func("inventory:_create_regex")))


@rule("C19.R1")
def r1_transducer(corpus: Corpus, rep: Report, tier: str):
    rep.rule("C19.R1", "the pattern->regex translator, extracted as a finite transducer, equals the documented wildcard machine incl. end of pattern; literals via re.escape; '*' is ANY*; no case folding")
    fi = corpus.func("inventory:_create_regex")
    rep.saw_function(fi.fq)
    tx = _transducer(corpus)
    site = fi.site()
    # every reachable (translator state, documented state) pair is reached within 2*|states| steps; one more step exposes the cell
    L = max(5, 2 * len(tx.states) + 1)
    if sum(len(tx.classes) ** n for n in range(L + 1)) > 80000:
        raise Unsupported(f"translator has {len(tx.states)} flag states x {len(tx.classes)} character classes: too large to compare exhaustively")
    bad: dict[str, tuple] = {}
    n_seq = 0
    RW_KEY = f"{fi.fq}|the pattern is rewritten before it is translated"
    ASM_KEY = f"{fi.fq}|the regex assembled from the literal parts is part ANY* part ... ANY* part"
    backtracking = None
    lossy = [rw for rw in tx.rewrites if rw[0] == "lossy"]
    for n in range(0, L + 1):
        for seq in itertools.product(tx.classes, repeat=n):
            n_seq += 1
            ssteps, send, sfinal = spec_output(seq)
            sfl = [f for s in ssteps for f in s]
            if tx.rewrites and not lossy:
                rfl = _strip(tx.whole(tx.rewrite(seq))[0])
                if _merge_any(rfl) != _merge_any(sfl + send):
                    plain = _strip(tx.whole(seq)[0])
                    if _merge_any(plain) == _merge_any(sfl + send):
                        # the character scan alone is right for this pattern: the rewrite in front of it breaks it
                        if RW_KEY not in bad:
                            bad[RW_KEY] = (seq, rfl, sfl + send, ("REWRITE", tx.rewrite(seq)))
                        continue
                else:
                    continue
            w_full, w_naive = tx.whole(seq)
            nbt = sum(1 for f in w_full if f[0] == "ANY" and f[2] == "inf" and not (len(f) > 4 and str(f[4]).startswith("atomic")))
            if nbt > 1 and backtracking is None:
                backtracking = (seq, w_full)
            if _merge_any(_strip(w_full)) == _merge_any(sfl + send):
                continue
            if tx.acc_list and _merge_any(_strip(w_naive)) == _merge_any(sfl + send):
                # the literal parts and their boundaries are right: the regex assembled from them is not
                if ASM_KEY not in bad:
                    bad[ASM_KEY] = (seq, _strip(w_full), sfl + send, ("ASSEMBLY",))
                continue
            isteps, iend = tx.output(seq)
            ifl = _strip([f for s in isteps for f in s])
            states = _spec_states(seq)
            if ifl == sfl:
                cell = ("END", sfinal)
            else:
                cell = ("END", sfinal)
                acc_i: list = []
                acc_s: list = []
                for i, c in enumerate(seq):
                    acc_i += _strip(isteps[i])
                    acc_s += ssteps[i]
                    k = min(len(acc_i), len(acc_s))
                    # divergence: neither cumulative output is a prefix of the other, or the step's own output differs
                    if acc_i[:k] != acc_s[:k] or _strip(isteps[i]) != ssteps[i]:
                        cell = (states[i], c)
                        break
            key = _cell_key(fi, cell)
            if key not in bad:
                bad[key] = (seq, ifl + _strip(iend), sfl + send, cell)
    if tx.rewrites:
        why = {"lower": "pattern 'A' no longer matches the name 'A'", "upper": "pattern 'a' no longer matches the name 'a'", "casefold": "pattern 'A' no longer matches the name 'A'",
               "strip": "pattern ' a' matches the name 'a'", "lstrip": "pattern ' a' matches the name 'a'", "rstrip": "pattern 'a ' matches the name 'a'"}
        if lossy:
            rep.violation("C19.R1", RW_KEY, tx.mod.site(lossy[0][3]), f"`{short(lossy[0][3], 50)}` changes characters of the pattern before it is translated: every ordinary character must match only itself ({why.get(lossy[0][1], 'characters are changed')})")
        elif RW_KEY in bad:
            seq, got, want, cell = bad.pop(RW_KEY)
            pat = "".join("c" if c == OTHER else c for c in seq)
            seen = "".join("c" if c == OTHER else c for c in cell[1])
            node = [rw for rw in tx.rewrites if rw[0] != "lossy"][0][3]
            rep.violation("C19.R1", RW_KEY, tx.mod.site(node), f"`{short(node, 60)}` rewrites the raw pattern without regard to the backslash escape: pattern {pat!r} (c = any other character) reaches the character scan as {seen!r} and is translated to [{_show(got)}], the documented semantics require [{_show(want)}]")
        else:
            rep.ok("C19.R1", RW_KEY, site, f"{len(tx.rewrites)} rewrite(s) applied to every abstract pattern: translation unchanged up to ANY* ANY* = ANY*")
    if tx.acc_list:
        if ASM_KEY in bad:
            seq, got, want, _ = bad.pop(ASM_KEY)
            pat = "".join("c" if c == OTHER else c for c in seq)
            rep.violation("C19.R1", ASM_KEY, tx.mod.site(tx.ret), f"pattern {pat!r} (c = any other character): the parts are collected correctly but the assembled regex is [{_show(got)}], the documented semantics require [{_show(want)}] "
                          "(an atomic wildcard is only equivalent to ANY* when it stops at the FIRST occurrence of the next part and something elastic follows)")
        else:
            rep.ok("C19.R1", ASM_KEY, site, "atomic first-occurrence wildcards followed by one backtracking ANY*")
    # termination side of "returns the entries": a failed fullmatch must not try every way of sharing the name among k wildcards
    k = f"{fi.fq}|at most one backtracking wildcard per translated pattern"
    if backtracking is None:
        rep.ok("C19.R1", k, site)
    else:
        pat = "".join("c" if c == OTHER else c for c in backtracking[0])
        rep.violation("C19.R1", k, tx.mod.site(tx.ret), f"pattern {pat!r} is translated to [{_show(_strip(backtracking[1]))}]: every '*' becomes its own backtracking `.*`, so a non-matching name makes fullmatch try every way of "
                      "distributing the name over them - match_with_wildcard('a' * 40, '*' * 20 + 'b') does not return in practical time")
    cells = [(s, c) for s in ("N", "P") for c in tx.classes] + [("END", "N"), ("END", "P")]
    for cell in cells:
        key = _cell_key(fi, cell)
        if key in bad:
            seq, got, want, _ = bad[key]
            pat = "".join("c" if c == OTHER else c for c in seq)
            rep.violation(
                "C19.R1",
                key,
                tx.mod.site(tx.loop if cell[0] != "END" else tx.ret),
                f"pattern {pat!r} (c = any other character) is translated to [{_show(got)}], the documented semantics require [{_show(want)}]"
                + ("; a backslash still pending when the pattern ends is dropped instead of matching itself" if cell == ("END", "P") and not [f for f in got if f not in want] else "")
                + ("; a character reaches the regex without re.escape, so regex metacharacters do not match themselves" if any(f[0] == "RAW" for f in got) else ""),
            )
        else:
            rep.ok("C19.R1", key, site)
    for key in bad:
        if key not in {_cell_key(fi, c) for c in cells}:  # safety net
            rep.violation("C19.R1", key, site, f"translator differs from the documented machine on {bad[key][0]}")
    rep.note(f"C19.R1: {len(tx.states)} flag state(s) x {len(tx.classes)} character classes extracted; {n_seq} abstract patterns (length <= {L}) compared with the documented machine")
    # the ANY fragment must match every character (newline included)
    flags = tx.compile_flags()
    anys = [f for (s, c), (out, _) in tx.table.items() for f in out if f[0] == "ANY"] + [f for out in tx.end.values() for f in out if f[0] == "ANY"] + list(tx.seen_anys)
    k = f"{fi.fq}|wildcard fragment matches every character"
    if not anys:
        rep.listed("C19.R1", k, site, "no ANY fragment emitted (reported by the table rows)")
    elif all(f[3] for f in anys) or "DOTALL" in flags:
        rep.ok("C19.R1", k, site)
    else:
        rep.violation("C19.R1", k, tx.mod.site(tx.compile_call()), "the '*' fragment is `.` compiled without re.DOTALL: it matches any character except a newline, so match_with_wildcard('a\\nb', '*') is False although '*' must match any run of characters")
    k = f"{fi.fq}|compile flags keep every character matching only itself"
    if "IGNORECASE" in flags:
        rep.violation("C19.R1", k, tx.mod.site(tx.compile_call()), "the regex is compiled with re.IGNORECASE: 'a' would match 'A', but every ordinary character must match only itself")
    elif flags - {"DOTALL", "UNICODE"}:
        raise Unsupported(f"re.compile flags {sorted(flags)}: effect on the fragments not modelled")
    else:
        rep.ok("C19.R1", k, site)
    rep.expect_min("C19.R1", 9, "6 table cells + 2 end-of-pattern rows + flags")


def _cell_key(fi: FunctionInfo, cell) -> str:
    if cell[0] == "END":
        return f"{fi.fq}|end of pattern, {STATE_NAME[cell[1]]}"
    return f"{fi.fq}|{STATE_NAME[cell[0]]}, next character {CLASS_NAME.get(cell[1], repr(cell[1]))}"


# ---------------------------------------------------------------------------
# R2: match_with_wildcard API and the cache key


@rule("C19.R2")
def r2_api(corpus: Corpus, rep: Report, tier: str):
    rep.rule("C19.R2", "match_with_wildcard: None -> True, otherwise fullmatch of the whole name against the regex of the whole pattern; the cached translator is keyed by the full pattern")
    g = get_callgraph(corpus)
    mw = corpus.func("inventory:match_with_wildcard")
    cr = corpus.func("inventory:_create_regex")
    rep.saw_function(mw.fq)
    if len(mw.params) != 2:
        raise Unsupported(f"match_with_wildcard{tuple(mw.params)}: expected (name, pattern)")
    p_name, p_pat = mw.params
    cfg = get_cfg(mw)
    rets = [vr for n in sorted((n for n in mw.local_nodes() if isinstance(n, ast.Return)), key=lambda n: (n.lineno, n.col_offset)) for vr in _virtual_returns(n, n.value, list(cfg.guards(n)))]
    none_true = []
    full = []
    shortcuts = []  # returns that decide the match with a plain string test of the name (regex-free fast paths)
    for r in rets:
        v = r.value
        gs = r.gs
        if isinstance(v, ast.Constant) and v.value is True:
            none_true.append((r, gs))
            continue
        if _literal_name_test(v, mw, p_name) is not None:
            shortcuts.append((r, gs))
            continue
        full.append((r, gs))
    # (a) omitted pattern matches everything
    k = f"{mw.fq}|omitted pattern (None) matches everything"
    if not none_true:
        rep.violation("C19.R2", k, mw.site(), "no `return True` under `pattern is None`: an omitted filter no longer matches everything")
    for r, gs in none_true:
        verdict = None
        for t, pol in gs:
            isn = _is_none_test(t, p_pat)
            if isn is not None and isn == pol:
                verdict = verdict or "ok"
            elif isinstance(t, ast.Name) and t.id == p_pat and not pol:
                verdict = "falsy"
            else:
                raise Unsupported(f"`return True` in match_with_wildcard is guarded by `{short(t, 50)}`")
        if verdict == "ok":
            rep.ok("C19.R2", k, mw.module.site(r))
        elif verdict == "falsy":
            rep.violation("C19.R2", k, mw.module.site(r), "`return True` is taken for every falsy pattern: the empty pattern '' then matches every name although it must match only the empty name")
        else:
            rep.violation("C19.R2", k, mw.module.site(r), "`return True` is not guarded by `pattern is None`: every pattern matches everything")
    # (b) full match of the unmodified name against the regex of the unmodified pattern
    if not full:
        raise Unsupported("match_with_wildcard has no matching return")
    for r, gs in full:
        for t, pol in gs:
            isn = _is_none_test(t, p_pat)
            if isinstance(t, ast.Name) and t.id == p_pat and pol:
                continue  # complement of a falsy test: judged at the None rule above
            if shortcuts and isn is None and not _mentions(t, [p_name]):
                continue  # which patterns take a regex-free shortcut: judged by the shortcut clause below
            if not (isn is not None and isn != pol):
                raise Unsupported(f"the matching return of match_with_wildcard is guarded by `{short(t, 50)}`")
        call = _match_call(r.value)
        k = f"{mw.fq}|whole-name match"
        if call is None:
            raise Unsupported(f"return value `{short(r.value, 60)}` of match_with_wildcard is not a recognised regex match test")
        meth, recv, arg = call
        site = mw.module.site(r)
        if _alias_of_param(arg, mw) != p_name:
            raise Unsupported(f"match_with_wildcard matches `{short(arg, 40)}`, not the unmodified name parameter")
        try:
            end_anchor = _transducer(corpus).end_anchor
        except (Unsupported, AnchorMissing):
            end_anchor = None
        if meth == "fullmatch":
            rep.ok("C19.R2", k, site)
        elif meth == "match" and end_anchor == "\\Z":
            rep.ok("C19.R2", k, site, "`match` of an expression that ends in \\Z is a whole-name match")
        elif meth == "match" and end_anchor == "$":
            rep.violation("C19.R2", k, site, "the name is tested with `match` and the translated expression ends in `$`, which also matches just before a string-final line feed: pattern 'a' matches the name 'a\\n' (use fullmatch, or \\Z)")
        else:
            rep.violation("C19.R2", k, site, f"the name is tested with `{meth}` instead of `fullmatch`: a pattern then matches names that merely start with / contain a match (e.g. pattern 'a' matches 'ab')")
        # receiver: _create_regex(pattern)
        src = recv
        if isinstance(src, ast.Name):
            defs = _defs_of(mw, src.id)
            if len(defs) != 1:
                raise Unsupported(f"regex variable {src.id} has {len(defs)} definitions")
            src = defs[0]
        if not (isinstance(src, ast.Call) and cr in g.flat_targets(g.resolve_call(src, mw))):
            raise Unsupported(f"the regex matched in match_with_wildcard comes from `{short(src, 50)}`, not from _create_regex")
    # (b2) regex-free shortcuts: for every abstract pattern that takes one, the plain string test must accept the same
    #      names as the documented translation (`startswith(p)` = p ANY*, `endswith(s)` = ANY* s, `==` = p, `in` = ANY* p ANY*)
    if shortcuts:
        k = f"{mw.fq}|a regex-free shortcut decides the same as the translated pattern"
        classes = [STAR, BSL, OTHER]
        rep_ch = "\x01"
        ordered = rets  # statement order, the alternatives of one return expression in evaluation order
        witness = None
        n_short = 0
        for n_ in range(0, 5):
            for seq in itertools.product(classes, repeat=n_):
                text = "".join(rep_ch if c_ == OTHER else c_ for c_ in seq)
                taken = None
                for r_ in ordered:
                    if all(bool(_pat_eval(t_, text, p_pat)) == pol_ for t_, pol_ in r_.gs):
                        taken = r_
                        break
                if taken is None or not any(taken is r0 for r0, _ in shortcuts):
                    continue
                n_short += 1
                kind, arg_e = _literal_name_test(taken.value, mw, p_name)
                lits = [("LIT", OTHER if ch == rep_ch else ch) for ch in _pat_eval(arg_e, text, p_pat)]
                any_ = [("ANY", 0, "inf")]
                got = {"startswith": lits + any_, "endswith": any_ + lits, "eq": lits, "in": any_ + lits + any_}[kind]
                ssteps, send, _sf = spec_output(seq)
                want = [f for st_ in ssteps for f in st_] + send
                if _merge_any(got) != _merge_any(want) and witness is None:
                    witness = (seq, got, want, taken)
        if witness is None:
            rep.ok("C19.R2", k, mw.module.site(shortcuts[0][0]), f"{n_short} abstract pattern(s) take a shortcut")
        else:
            seq, got, want, taken = witness
            pat = "".join("c" if c_ == OTHER else c_ for c_ in seq)
            rep.violation("C19.R2", k, mw.module.site(taken), f"pattern {pat!r} (c = any other character) takes `{short(taken.value, 50)}`, which accepts [{_show(got)}], the documented semantics require [{_show(want)}]: "
                          "the shortcut looks at the '*' characters of the raw pattern without regard to the backslash escape")
    # (c) cache key = the full pattern
    decos = [mw.module.resolve(d) for d in cr.decorators()]
    cached = [d for d in decos if d in ("functools.lru_cache", "functools.cache")]
    if [d for d in decos if d not in cached]:
        raise Unsupported(f"_create_regex carries decorators {decos}")
    a = cr.node.args
    k = f"{cr.fq}|cache key is the pattern alone"
    if a.vararg or a.kwarg or a.kwonlyargs or a.defaults or len(cr.params) != 1:
        raise Unsupported("_create_regex signature is not (pat)")
    free = _free_reads(cr)
    if free:
        raise Unsupported(f"_create_regex reads non-constant global(s) {sorted(free)}: result may depend on state outside the cache key")
    rep.ok("C19.R2", k, cr.site(), f"decorators {cached or ['(none)']}; one parameter; no global state read")
    callers = g.callers().get(cr.fq, [])
    for fi, call in callers:
        rep.saw_call(fi.module.site(call))
        k = f"{fi.fq}|passes the whole pattern to _create_regex"
        if len(call.args) != 1 or call.keywords:
            raise Unsupported(f"call `{short(call, 50)}` of _create_regex")
        arg = call.args[0]
        if fi.fq == mw.fq:
            if _alias_of_param(arg, fi) == p_pat:
                rep.ok("C19.R2", k, fi.module.site(call))
            elif any(isinstance(x, ast.Name) and _alias_of_param(x, fi) == p_pat for x in ast.walk(arg)):
                rep.violation("C19.R2", k, fi.module.site(call), f"the regex is built (and cached) from `{short(arg, 40)}`, a modification of the pattern: characters of the pattern no longer match only themselves")
            else:
                raise Unsupported(f"argument `{short(arg, 40)}` of _create_regex not traced to the pattern")
        else:
            rep.listed("C19.R2", k, fi.module.site(call), "other caller of the translator")
    if not callers:
        raise Unsupported("_create_regex has no resolved caller")
    # (d) at every call of match_with_wildcard: only None means "no filter". A caller that tests the pattern for truthiness
    #     (or against '') before matching turns the empty pattern - which matches exactly the empty value - into "match all".
    for fi, call in g.callers().get(mw.fq, []):
        if fi.is_lambda or len(call.args) < 2:
            continue
        pat_txt = unparse(call.args[1])
        k = f"{fi.fq}|the empty pattern is a pattern at `{short(call, 60)}` (only None is 'no filter')"
        near: list[ast.expr] = []
        x: ast.AST = call
        while isinstance(parent(x), (ast.BoolOp, ast.UnaryOp)):
            px = parent(x)
            if isinstance(px, ast.BoolOp):
                near += [v for v in px.values if v is not x]
            x = px
        try:
            cfg_ = get_cfg(fi)
            near += [t for t, _pol in cfg_.guards(cfg_.stmt_of(call))]
        except Unsupported:
            pass
        bad = None
        for e in near:
            while isinstance(e, ast.UnaryOp) and isinstance(e.op, ast.Not):
                e = e.operand
            if unparse(e) == pat_txt:
                bad = (e, "its truthiness")
            elif isinstance(e, ast.Compare) and len(e.ops) == 1 and any(unparse(o) == pat_txt or (isinstance(o, ast.Call) and isinstance(o.func, ast.Name) and o.func.id == "len" and o.args and unparse(o.args[0]) == pat_txt) for o in (e.left, e.comparators[0])):
                other = e.comparators[0] if unparse(e.left) == pat_txt or isinstance(e.left, ast.Call) else e.left
                if isinstance(other, ast.Constant) and (other.value == "" or type(other.value) is int):
                    bad = (e, f"`{short(e, 30)}`")
        if bad is not None:
            rep.violation("C19.R2", k, fi.module.site(bad[0]), f"the filter `{pat_txt}` is only applied under {bad[1]}: an empty pattern then counts as 'no filter' and lets every value through, "
                          "although '' is a pattern that matches exactly the empty value (e.g. `myst-inv -l \"\"` must list only the entries whose location is '')")
        else:
            rep.ok("C19.R2", k, fi.module.site(call))
    # (e) wherever the package applies a pattern compiled by _create_regex itself, it is a whole-value match
    try:
        end_anchor_ = _transducer(corpus).end_anchor
    except (Unsupported, AnchorMissing):
        end_anchor_ = None
    for fi, call in g.callers().get(cr.fq, []):
        if fi.fq == mw.fq or fi.is_lambda:
            continue
        k = f"{fi.fq}|a pattern compiled with _create_regex is applied to the whole value"
        holder = None
        x = call
        while isinstance(parent(x), ast.IfExp):
            x = parent(x)  # `None if f is None else _create_regex(f)`
        px = parent(x)
        uses: list[ast.Call] = []
        if isinstance(px, ast.Attribute) and isinstance(parent(px), ast.Call) and parent(px).func is px:
            uses.append(parent(px))
        elif isinstance(px, ast.Assign) and len(px.targets) == 1 and isinstance(px.targets[0], ast.Name):
            holder = px.targets[0].id
            uses = [c for c in fi.local_nodes() if isinstance(c, ast.Call) and isinstance(c.func, ast.Attribute) and isinstance(c.func.value, ast.Name) and c.func.value.id == holder]
        else:
            continue  # handed on / stored: judged where it is used (the filter functions have their own rule)
        bad = [c for c in uses if c.func.attr in ("match", "search") and not (c.func.attr == "match" and end_anchor_ == "\\Z")]
        if bad:
            rep.violation("C19.R2", k, fi.module.site(bad[0]), f"`{short(bad[0], 60)}` applies the compiled wildcard pattern with `{bad[0].func.attr}`: the pattern only has to match at the start of / somewhere in the value "
                          "(e.g. `myst-inv -l index` also lists `index.html#x`), while every other filter is a full match")
        elif any(c.func.attr == "fullmatch" for c in uses):
            rep.ok("C19.R2", k, fi.module.site(call))
    rep.expect_min("C19.R2", 10, "None rule, fullmatch, cache signature, call site, callers of match_with_wildcard")


class VRet:
    """One outcome of a return statement: `return A or B` (A a comparison, hence True when it holds) is
    `if A: return True` followed by `return B`; `return X if C else Y` is `if C: return X` / `return Y`.
    ``gs`` = the guards of the statement plus the tests that select this alternative; sites are the statement's."""

    def __init__(self, ret: ast.Return, value, gs):
        self.ret, self.value, self.gs = ret, value, gs
        self.lineno, self.col_offset = ret.lineno, ret.col_offset
        self.end_lineno, self.end_col_offset = getattr(ret, "end_lineno", ret.lineno), getattr(ret, "end_col_offset", ret.col_offset)


def _virtual_returns(ret: ast.Return, v, gs: list) -> list:
    def guard(t: ast.expr, pol: bool):
        while isinstance(t, ast.UnaryOp) and isinstance(t.op, ast.Not):
            t, pol = t.operand, not pol
        return t, pol

    if isinstance(v, ast.BoolOp) and isinstance(v.op, ast.Or) and isinstance(v.values[0], ast.Compare):
        # a comparison yields a bool: when it holds the statement returns True, otherwise the value of the rest
        a = v.values[0]
        rest = v.values[1] if len(v.values) == 2 else ast.copy_location(ast.BoolOp(op=ast.Or(), values=v.values[1:]), v.values[1])
        true_ = ast.copy_location(ast.Constant(value=True), a)
        return [VRet(ret, true_, gs + [guard(a, True)])] + _virtual_returns(ret, rest, gs + [guard(a, False)])
    if isinstance(v, ast.IfExp):
        return _virtual_returns(ret, v.body, gs + [guard(v.test, True)]) + _virtual_returns(ret, v.orelse, gs + [guard(v.test, False)])
    return [VRet(ret, v, gs)]


def _literal_name_test(v: ast.expr, mw: FunctionInfo, p_name: str):
    """(kind, pattern-side expression) when ``v`` decides the match with a plain string test of the name:
    `name.startswith(e)`, `name.endswith(e)`, `name == e`, `e in name`."""
    if isinstance(v, ast.Call) and isinstance(v.func, ast.Attribute) and v.func.attr in ("startswith", "endswith") and len(v.args) == 1 and not v.keywords and _alias_of_param(v.func.value, mw) == p_name:
        return v.func.attr, v.args[0]
    if isinstance(v, ast.Compare) and len(v.ops) == 1:
        l, r = v.left, v.comparators[0]
        if isinstance(v.ops[0], ast.Eq):
            if _alias_of_param(l, mw) == p_name:
                return "eq", r
            if _alias_of_param(r, mw) == p_name:
                return "eq", l
        if isinstance(v.ops[0], ast.In) and _alias_of_param(r, mw) == p_name:
            return "in", l
    return None


def _pat_eval(e: ast.expr, text: str, pname: str):
    """Value of an expression over the pattern parameter (pure str / int operations only) for the concrete pattern ``text``."""
    if isinstance(e, ast.Constant) and isinstance(e.value, (str, int, bool, type(None))):
        return e.value
    if isinstance(e, ast.Name) and e.id == pname:
        return text
    if isinstance(e, ast.UnaryOp) and isinstance(e.op, ast.Not):
        return not _pat_eval(e.operand, text, pname)
    if isinstance(e, ast.UnaryOp) and isinstance(e.op, ast.USub):
        return -_pat_eval(e.operand, text, pname)
    if isinstance(e, ast.BoolOp):
        vals = [_pat_eval(v, text, pname) for v in e.values]
        return all(vals) if isinstance(e.op, ast.And) else any(vals)
    if isinstance(e, ast.BinOp) and isinstance(e.op, (ast.Add, ast.Sub)):
        a, b = _pat_eval(e.left, text, pname), _pat_eval(e.right, text, pname)
        return a + b if isinstance(e.op, ast.Add) else a - b
    if isinstance(e, ast.Compare):
        left = _pat_eval(e.left, text, pname)
        for op, c in zip(e.ops, e.comparators):
            right = _pat_eval(c, text, pname)
            ok = {ast.Eq: lambda: left == right, ast.NotEq: lambda: left != right, ast.Lt: lambda: left < right, ast.LtE: lambda: left <= right, ast.Gt: lambda: left > right, ast.GtE: lambda: left >= right,
                  ast.In: lambda: left in right, ast.NotIn: lambda: left not in right, ast.Is: lambda: left is right, ast.IsNot: lambda: left is not right}.get(type(op))
            if ok is None:
                raise Unsupported(f"comparison `{short(e, 40)}` on the pattern")
            if not ok():
                return False
            left = right
        return True
    if isinstance(e, ast.Subscript):
        base = _pat_eval(e.value, text, pname)
        if isinstance(e.slice, ast.Slice):
            lo = None if e.slice.lower is None else _pat_eval(e.slice.lower, text, pname)
            hi = None if e.slice.upper is None else _pat_eval(e.slice.upper, text, pname)
            st = None if e.slice.step is None else _pat_eval(e.slice.step, text, pname)
            return base[lo:hi:st]
        i = _pat_eval(e.slice, text, pname)
        if not isinstance(base, str) or not isinstance(i, int) or not (-len(base) <= i < len(base)):
            raise Unsupported(f"index `{short(e, 30)}` on the pattern")
        return base[i]
    if isinstance(e, ast.Call) and isinstance(e.func, ast.Name) and e.func.id == "len" and len(e.args) == 1 and not e.keywords:
        return len(_pat_eval(e.args[0], text, pname))
    if isinstance(e, ast.Call) and isinstance(e.func, ast.Attribute) and e.func.attr in ("count", "startswith", "endswith", "find", "rfind", "isalnum", "isidentifier") and not e.keywords:
        recv = _pat_eval(e.func.value, text, pname)
        if isinstance(recv, str):
            return getattr(recv, e.func.attr)(*[_pat_eval(a, text, pname) for a in e.args])
    raise Unsupported(f"expression `{short(e, 40)}` on the pattern is outside the evaluated subset (pure str / int operations)")


def _match_call(v: ast.expr):
    """(method, receiver, subject) for `X.m(s) is not None`, `bool(X.m(s))`, `X.m(s) != None`."""
    inner = None
    if isinstance(v, ast.Compare) and len(v.ops) == 1 and isinstance(v.ops[0], (ast.IsNot, ast.NotEq)) and isinstance(v.comparators[0], ast.Constant) and v.comparators[0].value is None:
        inner = v.left
    elif isinstance(v, ast.Call) and isinstance(v.func, ast.Name) and v.func.id == "bool" and len(v.args) == 1:
        inner = v.args[0]
    if isinstance(inner, ast.Call) and isinstance(inner.func, ast.Attribute) and inner.func.attr in ("fullmatch", "match", "search") and len(inner.args) == 1 and not inner.keywords:
        return inner.func.attr, inner.func.value, inner.args[0]
    return None


def _free_reads(fi: FunctionInfo, _depth: int = 0) -> set[str]:
    import builtins

    local = set(fi.params)
    for n in fi.local_nodes():
        if isinstance(n, ast.Name) and isinstance(n.ctx, ast.Store):
            local.add(n.id)
    free = set()
    for n in fi.local_nodes():
        if isinstance(n, ast.Name) and isinstance(n.ctx, ast.Load) and n.id not in local and not hasattr(builtins, n.id):
            if n.id in fi.module.imports:
                continue
            if n.id in fi.module.functions and not fi.module.functions[n.id].is_lambda and _depth < 3:
                free |= _free_reads(fi.module.functions[n.id], _depth + 1)  # a helper of the module: what it reads counts
                continue
            if n.id in fi.module.const_nodes:
                try:
                    fi.module.const(n.id)
                    continue
                except Unsupported:
                    pass
            free.add(n.id)
    return free


# ---------------------------------------------------------------------------
# R3: coordinate/filter pairing (DESIGN E8, kinds)

KEY_OF = {
    "native": {"INVS": "INV", "OBJECTS": "DOMAIN", "DOMMAP": "OTYPE", "OTMAP": "NAME"},
    "sphinx": {"INVS": "INV", "SINV": "DOMOTYPE", "OTMAP": "NAME"},
}
VAL_OF = {
    "native": {"INVS": "INVDATA", "OBJECTS": "DOMMAP", "DOMMAP": "OTMAP", "OTMAP": "ITEM"},
    "sphinx": {"INVS": "SINV", "SINV": "OTMAP", "OTMAP": "ITEMTUP"},
}
SPHINX_ITEM_ATTRS = ["project_name", "project_version", "uri", "display_name"]  # sphinx.util.inventory._InventoryItem, in tuple order
TUPLE_KINDS = ["PROJECT", "VERSION", "LOC", "TEXT"]  # Sphinx inventory item: (project, version, uri, dispname)
FILTER_ROLE = {"invs": "INV", "domains": "DOMAIN", "otypes": "OTYPE", "targets": "NAME", "target": "NAME"}
COORD_FIELDS = {"inv": "INV", "domain": "DOMAIN", "otype": "OTYPE", "name": "NAME"}
ORDER_BREAKERS = {"sorted", "reversed", "set", "frozenset"}
EXPECTED_FIELDS = {
    "native": {
        "inv": "<INV>", "domain": "<DOMAIN>", "otype": "<OTYPE>", "name": "<NAME>",
        "project": "<INVDATA>['name']", "version": "<INVDATA>['version']", "base_url": "<INVDATA>['base_url']",
        "loc": "<ITEM>['loc']", "text": "<ITEM>['text']",
    },
    "sphinx": {
        "inv": "<INV>", "domain": "<DOMAIN>", "otype": "<OTYPE>", "name": "<NAME>",
        "project": "<PROJECT>", "version": "<VERSION>", "base_url": "None", "loc": "<LOC>", "text": None,  # text: agreement with from_sphinx
    },
}


class Kinds:
    """Roles of the local names of a function that walks an inventory mapping."""

    def __init__(self, fi: FunctionInfo, rep_kind: str, root_kind: str = "INVS"):
        self.fi = fi
        self.rk = rep_kind
        self.kinds: dict[str, str] = {}
        self.binder: dict[str, ast.AST] = {}  # name -> the loop / assignment that binds it
        self.order_breaks: list[tuple[ast.For, str]] = []
        self.loops: list[ast.For] = []
        self.filters = [p for p in fi.params[1:] if p in FILTER_ROLE]
        self.restricted: dict[ast.For, list[tuple[ast.expr, list]]] = {}
        self.subs: list["Kinds"] = []  # generator helpers of the same module this function iterates
        self.keyviews: dict[str, tuple[str, ast.AST]] = {}  # local list of a mapping's keys (possibly minus the keys without ':')
        self.domlists: dict[str, tuple[str, str]] = {}  # local list of the domains of a key view: name -> (key view, where the key is cut)
        self.understood_comps: set[int] = set()
        self.domranks: dict[str, tuple[str, str, str]] = {}  # {domain: index} dicts: name -> (key view, where the key is cut, "first" | "last" occurrence wins)
        self.groupdicts: dict[str, tuple[str, str, ast.AST]] = {}  # {domain: [keys]} dicts filled key by key: name -> (mapping role, where the key is cut, filling loop)
        self.recviews: dict[str, tuple] = {}  # local list of the records a generator helper yields: name -> (sub, roles, arg role, node)  # loop -> alternatives of its iterable that are built from a filter
        if not fi.params:
            raise Unsupported(f"{fi.qualname} has no parameter")
        self.kinds[fi.params[0]] = root_kind
        nodes = sorted([n for n in fi.local_nodes() if isinstance(n, (ast.For, ast.Assign))], key=lambda n: (n.lineno, n.col_offset))
        for n in nodes:
            if isinstance(n, ast.For):
                self._loop(n)
            else:
                self._assign(n)
        for n in fi.local_nodes():
            # a comprehension over inventory data would need role inference of its own; one over e.g. the filters does not
            if isinstance(n, ast.comprehension) and id(n) not in self.understood_comps and any(isinstance(x, ast.Name) and x.id in self.kinds for x in ast.walk(n.iter)):
                raise Unsupported(f"comprehension over inventory data in {fi.qualname}: roles of its variables are not inferred")

    def kind_of(self, e: ast.expr) -> str | None:
        if isinstance(e, ast.Name):
            return self.kinds.get(e.id)
        if isinstance(e, ast.Subscript) and isinstance(e.value, ast.Name) and isinstance(e.slice, ast.Constant):
            if self.rk == "native" and self.kinds.get(e.value.id) == "INVDATA" and e.slice.value == "objects":
                return "OBJECTS"
        if self.rk == "sphinx" and self._item_fields_helper(e):
            return "ITEMTUP"
        if isinstance(e, ast.Subscript) and not isinstance(e.slice, ast.Slice):
            # mapping[key] -> the value role of that mapping level (whatever the key expression is)
            mk = self.kind_of(e.value)
            if mk in VAL_OF[self.rk] and mk != "INVS":
                return VAL_OF[self.rk][mk]
        return None

    def _item_fields_helper(self, e: ast.expr) -> bool:
        """`helper(item)` of this module that returns the item's (project, version, uri, display name) - the item itself
        for the tuple form, the four attributes in tuple order for the item class of Sphinx >= 8.2."""
        if not (isinstance(e, ast.Call) and isinstance(e.func, ast.Name) and len(e.args) == 1 and not e.keywords and self.kind_of(e.args[0]) == "ITEMTUP"):
            return False
        h = self.fi.module.functions.get(e.func.id)
        if h is None or h.is_lambda or len(h.params) != 1:
            return False
        prm = h.params[0]
        rets = [r for r in h.local_nodes() if isinstance(r, ast.Return)]
        if not rets:
            return False
        for r in rets:
            v = r.value
            if isinstance(v, ast.Name) and v.id == prm:
                continue
            if isinstance(v, ast.Tuple) and [unparse(x) for x in v.elts] == [f"{prm}.{a}" for a in SPHINX_ITEM_ATTRS]:
                continue
            return False
        return True

    def _iter_leaves(self, e: ast.expr, conds: list | None = None, depth: int = 0) -> list[tuple[ast.expr, list]]:
        """Alternatives the iterated object can be, each with the (test, polarity) facts under which it is chosen:
        conditional expressions and locals (one or several definitions) are resolved."""
        conds = conds or []
        if depth > 4:
            raise Unsupported(f"{self.fi.qualname}: iterable defined through too many locals")
        if isinstance(e, ast.IfExp):
            return self._iter_leaves(e.body, conds + facts(e.test, True), depth + 1) + self._iter_leaves(e.orelse, conds + facts(e.test, False), depth + 1)
        if isinstance(e, ast.Name) and e.id not in self.kinds and e.id not in self.fi.params:
            defs = _defs_of(self.fi, e.id)
            if defs:
                cfg = get_cfg(self.fi)
                out = []
                for d in defs:
                    try:
                        g = list(cfg.guards(cfg.stmt_of(d)))
                    except Unsupported:
                        g = []
                    out += self._iter_leaves(d, conds + g, depth + 1)
                return out
        return [(e, conds)]

    def _bind(self, target: ast.expr, kind: str | None, by: ast.AST) -> None:
        if kind is None:
            return
        if isinstance(target, ast.Name):
            if target.id in self.kinds and self.kinds[target.id] != kind:
                raise Unsupported(f"{self.fi.qualname}: name {target.id} is used in two roles ({self.kinds[target.id]}, {kind})")
            self.kinds[target.id] = kind
            self.binder[target.id] = by
        elif isinstance(target, (ast.Tuple, ast.List)) and kind == "ITEMTUP":
            if len(target.elts) != 4 or not all(isinstance(e, ast.Name) for e in target.elts):
                raise Unsupported(f"{self.fi.qualname}: inventory item unpacked into {len(target.elts)} targets")
            for e, k in zip(target.elts, TUPLE_KINDS):
                self._bind(e, k, by)
        else:
            raise Unsupported(f"{self.fi.qualname}: cannot bind `{short(target, 30)}` to role {kind}")

    def _grouped_keys(self, it: ast.expr) -> str | None:
        """Name of the {domain: [keys]} dict when ``it`` chains its value lists: `itertools.chain.from_iterable(G.values())` / `chain(*G.values())`."""
        if not isinstance(it, ast.Call):
            return None
        fn = self.fi.module.resolve(dotted(it.func) or "")
        arg = None
        if fn == "itertools.chain.from_iterable" and len(it.args) == 1 and not it.keywords:
            arg = it.args[0]
        elif fn == "itertools.chain" and len(it.args) == 1 and isinstance(it.args[0], ast.Starred):
            arg = it.args[0].value
        if isinstance(arg, ast.Call) and isinstance(arg.func, ast.Attribute) and arg.func.attr == "values" and not arg.args and isinstance(arg.func.value, ast.Name) and arg.func.value.id in self.groupdicts:
            return arg.func.value.id
        return None

    def _note_group_fill(self, n: ast.For, var: str, mk: str) -> None:
        """`G.setdefault(<domain of key>, []).append(key)` in the body of a loop over a mapping's keys (possibly under `":" in key`)."""
        def stmts(body):
            for st in body:
                if isinstance(st, ast.If) and not st.orelse and isinstance(st.test, ast.Compare) and len(st.test.ops) == 1 and isinstance(st.test.ops[0], ast.In) and isinstance(st.test.left, ast.Constant) and st.test.left.value == ":" and isinstance(st.test.comparators[0], ast.Name) and st.test.comparators[0].id == var:
                    yield from stmts(st.body)
                else:
                    yield st

        for st in stmts(n.body):
            if (isinstance(st, ast.If) and not st.orelse and len(st.body) == 1 and isinstance(st.test, ast.Compare) and len(st.test.ops) == 1 and isinstance(st.test.ops[0], ast.NotIn)
                    and isinstance(st.test.comparators[0], ast.Name) and isinstance(st.body[0], ast.Assign) and len(st.body[0].targets) == 1 and isinstance(st.body[0].targets[0], ast.Subscript)
                    and isinstance(st.body[0].targets[0].value, ast.Name) and st.body[0].targets[0].value.id == st.test.comparators[0].id and unparse(st.body[0].targets[0].slice) == unparse(st.test.left)
                    and isinstance(st.body[0].value, ast.Call) and isinstance(st.body[0].value.func, ast.Name) and st.body[0].value.func.id == "len" and len(st.body[0].value.args) == 1
                    and unparse(st.body[0].value.args[0]) == st.test.comparators[0].id and isinstance(n.iter, ast.Name) and n.iter.id in self.keyviews):
                # if d not in rank: rank[d] = len(rank) - the first occurrence of a domain fixes its rank
                r_ = st.test.comparators[0].id
                dom = _domain_of(st.test.left, var)
                init = _defs_of(self.fi, r_)
                if dom is not None and len(init) == 1 and isinstance(init[0], ast.Dict) and not init[0].keys:
                    self.domranks[r_] = (n.iter.id, dom, "first")
                continue
            c = st.value if isinstance(st, ast.Expr) else None
            # rank.setdefault(<domain of key>, len(rank)): the first occurrence of a domain fixes its rank
            if (isinstance(c, ast.Call) and isinstance(c.func, ast.Attribute) and c.func.attr == "setdefault" and isinstance(c.func.value, ast.Name) and len(c.args) == 2 and not c.keywords
                    and isinstance(c.args[1], ast.Call) and isinstance(c.args[1].func, ast.Name) and c.args[1].func.id == "len" and len(c.args[1].args) == 1
                    and isinstance(c.args[1].args[0], ast.Name) and c.args[1].args[0].id == c.func.value.id and isinstance(n.iter, ast.Name) and n.iter.id in self.keyviews):
                r_ = c.func.value.id
                dom = _domain_of(c.args[0], var)
                init = _defs_of(self.fi, r_)
                if dom is not None and len(init) == 1 and isinstance(init[0], ast.Dict) and not init[0].keys:
                    self.domranks[r_] = (n.iter.id, dom, "first")
                continue
            if (isinstance(c, ast.Call) and isinstance(c.func, ast.Attribute) and c.func.attr == "append" and len(c.args) == 1 and isinstance(c.args[0], ast.Name) and c.args[0].id == var
                    and isinstance(c.func.value, ast.Call) and isinstance(c.func.value.func, ast.Attribute) and c.func.value.func.attr == "setdefault" and isinstance(c.func.value.func.value, ast.Name)
                    and len(c.func.value.args) == 2 and isinstance(c.func.value.args[1], ast.List) and not c.func.value.args[1].elts):
                g_ = c.func.value.func.value.id
                dom = _domain_of(c.func.value.args[0], var)
                init = _defs_of(self.fi, g_)
                if dom is not None and len(init) == 1 and isinstance(init[0], ast.Dict) and not init[0].keys and KEY_OF[self.rk].get(mk) == "DOMOTYPE":
                    self.groupdicts[g_] = (mk, dom, n)

    def _follow_generator(self, it: ast.expr):
        """(Kinds of the helper, roles of what it yields, role of its argument) for `helper(mapping)`, a generator of this module."""
        helper = self.fi.module.functions.get(it.func.id) if isinstance(it, ast.Call) and isinstance(it.func, ast.Name) else None
        if not (helper is not None and helper.fq != self.fi.fq and helper.is_generator() and len(it.args) == 1 and not it.keywords and len(helper.params) == 1):
            return None
        k0 = self.kind_of(it.args[0])
        if k0 is None:
            raise Unsupported(f"{self.fi.qualname}: `{short(it, 50)}` - the role of the argument is not known")
        for sub in self.subs:
            if sub.fi.fq == helper.fq and sub.kinds.get(helper.params[0]) == k0:
                break
        else:
            sub = Kinds(helper, self.rk, k0)
            self.subs.append(sub)
        ys = [y for y in helper.local_nodes() if isinstance(y, ast.Yield)]
        if not ys or any(isinstance(y, ast.YieldFrom) for y in helper.local_nodes()):
            raise Unsupported(f"{helper.qualname}: yields not understood")
        shapes = set()
        for y in ys:
            elts = y.value.elts if isinstance(y.value, ast.Tuple) else [y.value]
            shapes.add(tuple(sub.kind_of(e) if e is not None else None for e in elts))
        if len(shapes) != 1:
            raise Unsupported(f"{helper.qualname}: yields values of different roles")
        return sub, shapes.pop(), k0

    def _loop(self, n: ast.For) -> None:
        self.loops.append(n)
        it = n.iter
        while isinstance(it, ast.Call) and isinstance(it.func, ast.Name) and it.func.id in (ORDER_BREAKERS | {"list", "tuple", "iter"}) and it.args:
            if it.func.id in ORDER_BREAKERS:
                self.order_breaks.append((n, it.func.id))
            it = it.args[0]
        gd = self._grouped_keys(it)
        if gd is not None:
            # for key in chain.from_iterable(groups.values()): the keys, domain by domain in order of first occurrence
            mk, cut, _fill = self.groupdicts[gd]
            self._bind(n.target, KEY_OF[self.rk][mk], n)
            n._c19_kind = mk  # type: ignore[attr-defined]
            n._c19_grouped = cut  # type: ignore[attr-defined]
            return
        followed = self._follow_generator(it)
        if followed is None and isinstance(it, ast.Name) and it.id in self.recviews:
            followed = self.recviews[it.id][:3]  # a local list materialised from the generator helper (possibly re-sorted)
        if followed is not None:
            # `for a, b, c in _iter_groups(mapping)`: the roles come from what the generator helper yields
            sub, shape, k0 = followed
            targets = n.target.elts if isinstance(n.target, (ast.Tuple, ast.List)) else [n.target]
            if len(targets) != len(shape):
                raise Unsupported(f"{self.fi.qualname}: loop target `{short(n.target, 40)}` does not fit what {sub.fi.name} yields")
            for tg, kk in zip(targets, shape):
                self._bind(tg, kk, n)
            n._c19_kind = f"{sub.loops[0]._c19_kind if sub.loops else k0} (through {sub.fi.name})"  # type: ignore[attr-defined]
            n._c19_sub = sub  # type: ignore[attr-defined]
            if getattr(sub, "key_split", None) is not None and getattr(self, "key_split", None) is None:
                self.key_split = sub.key_split
            return
        mode = "keys"
        base = it
        if isinstance(it, ast.Call) and isinstance(it.func, ast.Attribute) and it.func.attr in ("items", "keys", "values") and not it.args:
            mode = it.func.attr
            base = it.func.value
        leaves = self._iter_leaves(base)
        full = {self.kind_of(x) for x, _ in leaves if self.kind_of(x) in KEY_OF[self.rk]}
        partial = [(x, c) for x, c in leaves if self.kind_of(x) not in KEY_OF[self.rk]]
        if len(full) != 1:
            raise Unsupported(f"{self.fi.qualname}: loop over `{short(n.iter, 50)}` - the role of the iterated mapping is not known")
        for x, _ in partial:
            if not _mentions(x, self.filters):
                raise Unsupported(f"{self.fi.qualname}: loop over `{short(n.iter, 50)}` may iterate `{short(x, 40)}`, whose role is not known")
        if partial:
            self.restricted[n] = partial
        k = full.pop()
        n._c19_kind = k  # type: ignore[attr-defined]
        if mode == "items":
            if not (isinstance(n.target, (ast.Tuple, ast.List)) and len(n.target.elts) == 2):
                raise Unsupported(f"{self.fi.qualname}: items() loop target `{short(n.target, 30)}`")
            self._bind(n.target.elts[0], KEY_OF[self.rk][k], n)
            self._bind(n.target.elts[1], VAL_OF[self.rk][k], n)
        elif mode == "keys":
            self._bind(n.target, KEY_OF[self.rk][k], n)
            if isinstance(n.target, ast.Name):
                self._note_group_fill(n, n.target.id, k)
        else:
            self._bind(n.target, VAL_OF[self.rk][k], n)

    def _assign(self, n: ast.Assign) -> None:
        if len(n.targets) != 1:
            return
        t, v = n.targets[0], n.value
        # a, b = K.split(":", 1)
        if isinstance(v, ast.Call) and isinstance(v.func, ast.Attribute) and v.func.attr in ("split", "rsplit", "partition", "rpartition") and self.kind_of(v.func.value) == "DOMOTYPE":
            canon = _split_canon(v)
            if canon is None or not isinstance(t, (ast.Tuple, ast.List)):
                raise Unsupported(f"{self.fi.qualname}: `{short(n, 60)}` - split of the domain:type key not understood")
            if v.func.attr in ("split", "rsplit") and len(t.elts) == 2:
                dom, typ = t.elts
            elif v.func.attr in ("partition", "rpartition") and len(t.elts) == 3:
                dom, _, typ = t.elts
            else:
                raise Unsupported(f"{self.fi.qualname}: `{short(n, 60)}` - number of targets does not fit the split")
            self.key_split = (canon, n)
            self._bind(dom, "DOMAIN", n)
            self._bind(typ, "OTYPE", n)
            return
        if isinstance(t, ast.Name) and isinstance(v, ast.Call) and isinstance(v.func, ast.Name) and v.func.id in ("list", "tuple") and len(v.args) == 1 and not v.keywords:
            followed = self._follow_generator(v.args[0])
            if followed is not None:  # groups = list(_iter_groups(mapping))
                self.recviews[t.id] = (*followed, n)
                return
        if isinstance(t, ast.Name) and isinstance(v, ast.Call) and isinstance(v.func, ast.Name) and v.func.id == "sorted" and v.args and isinstance(v.args[0], ast.Name) and v.args[0].id in self.keyviews:
            mk_ = self.keyviews[v.args[0].id][0]  # (whether the order is the native one is judged where the view is walked)
            self.keyviews.setdefault(t.id, (mk_, n))
            if t.id not in self.kinds:
                self._bind(t, mk_, n)
            return
        if isinstance(v, ast.DictComp) and len(v.generators) == 1 and isinstance(t, ast.Name) and not v.generators[0].ifs:
            # {key.split(":", 1)[0]: i for i, key in enumerate(keys)}: a later key of the same domain overwrites the index,
            # so every domain is ranked by its LAST occurrence (reversed(...) would make it the first)
            gen = v.generators[0]
            it = gen.iter
            rev = False
            if isinstance(it, ast.Call) and isinstance(it.func, ast.Name) and it.func.id == "reversed" and len(it.args) == 1:
                it, rev = it.args[0], True
                if isinstance(it, ast.Call) and isinstance(it.func, ast.Name) and it.func.id == "list" and len(it.args) == 1:
                    it = it.args[0]
            if (isinstance(it, ast.Call) and isinstance(it.func, ast.Name) and it.func.id == "enumerate" and len(it.args) == 1 and not it.keywords and isinstance(it.args[0], ast.Name) and it.args[0].id in self.keyviews
                    and isinstance(gen.target, ast.Tuple) and len(gen.target.elts) == 2 and all(isinstance(x, ast.Name) for x in gen.target.elts)):
                ivar, kvar = gen.target.elts[0].id, gen.target.elts[1].id
                dom = _domain_of(v.key, kvar)
                if dom is not None and isinstance(v.value, ast.Name) and v.value.id == ivar:
                    self.understood_comps.add(id(gen))
                    self.domranks[t.id] = (it.args[0].id, dom, "first" if rev else "last")
                    return
        if isinstance(v, ast.ListComp) and len(v.generators) == 1 and isinstance(t, ast.Name) and isinstance(v.generators[0].target, ast.Name):
            gen = v.generators[0]
            var = gen.target.id
            it = gen.iter
            if isinstance(it, ast.Name) and it.id in self.recviews and not gen.ifs and isinstance(v.elt, ast.Subscript) and isinstance(v.elt.value, ast.Name) and v.elt.value.id == var and isinstance(v.elt.slice, ast.Constant) and type(v.elt.slice.value) is int:
                sub, shape, _k0, _n = self.recviews[it.id]
                i = v.elt.slice.value
                if 0 <= i < len(shape) and shape[i] == "DOMAIN":  # [group[0] for group in groups]: the domain of every record
                    self.understood_comps.add(id(gen))
                    self.domlists[t.id] = (it.id, (getattr(sub, "key_split", None) or ("first", None))[0])
                    return
            if isinstance(it, ast.Call) and isinstance(it.func, ast.Attribute) and it.func.attr == "keys" and not it.args:
                it = it.func.value
            mk = self.kind_of(it)
            # [key for key in mapping if ":" in key]: the mapping's keys, in its order, minus the keys that are not domain:type
            if mk in KEY_OF[self.rk] and isinstance(v.elt, ast.Name) and v.elt.id == var and all(
                isinstance(c, ast.Compare) and len(c.ops) == 1 and isinstance(c.ops[0], ast.In) and isinstance(c.left, ast.Constant) and c.left.value == ":" and isinstance(c.comparators[0], ast.Name) and c.comparators[0].id == var and KEY_OF[self.rk][mk] == "DOMOTYPE"
                for c in gen.ifs
            ):
                self.understood_comps.add(id(gen))
                self.keyviews[t.id] = (mk, n)
                self._bind(t, mk, n)
                return
            # [key.split(":", 1)[0] for key in keys]: the domain of every key of a key view
            if isinstance(it, ast.Name) and it.id in self.keyviews and not gen.ifs:
                dom = _domain_of(v.elt, var)
                if dom is not None:
                    self.understood_comps.add(id(gen))
                    self.domlists[t.id] = (it.id, dom)
                    return
        k = self.kind_of(v)
        if k == "ITEMTUP":
            self._bind(t, "ITEMTUP" if isinstance(t, (ast.Tuple, ast.List)) else k, n)
        elif k is not None and isinstance(t, ast.Name):
            if len(_defs_of(self.fi, t.id)) == 1:  # several definitions: resolved as alternatives where the name is iterated
                self._bind(t, k, n)

    def norm(self, e: ast.expr) -> str:
        """Expression with local names replaced by their roles."""
        kinds = self.kinds
        fi = self.fi
        filters = self.filters

        class T(ast.NodeTransformer):
            def visit_Name(self, node):
                if node.id in kinds:
                    return ast.Name(id=f"<{kinds[node.id]}>", ctx=node.ctx)
                if node.id in ("None", "True", "False"):
                    return node
                if node.id in filters:
                    return ast.Name(id=f"<{node.id} filter>", ctx=node.ctx)
                raise Unsupported(f"{fi.qualname}: name {node.id} in `{short(e, 50)}` has no known role")

        fresh = ast.parse(ast.unparse(e), mode="eval").body  # a copy without the corpus' parent links
        return unparse(T().visit(_inline_pure_calls(fresh, fi.module)))


_WHERE = {"first": "the first colon", "last": "the last colon", "every": "every colon"}


def _domain_of(e: ast.expr, var: str) -> str | None:
    """'first' / 'last' when ``e`` is the domain part of the `domain:type` key ``var``: `var.split(":", 1)[0]`, `var.partition(":")[0]`."""
    if isinstance(e, ast.Subscript) and isinstance(e.slice, ast.Constant) and e.slice.value == 0 and isinstance(e.value, ast.Call) and isinstance(e.value.func, ast.Attribute) and isinstance(e.value.func.value, ast.Name) and e.value.func.value.id == var:
        canon = _split_canon(e.value) if e.value.func.attr in ("split", "rsplit", "partition", "rpartition") else None
        return canon if canon in ("first", "last") else None
    return None


def _key_order(kd: "Kinds", loop: ast.For):
    """How a loop over the flat `domain:type` keys orders them: ("grouped", node) - stable sort by the first occurrence of
    the key's domain, i.e. the order in which the native nesting lists them -, ("flat", None), ("other", node)."""
    if getattr(loop, "_c19_grouped", None) is not None:
        # a dict {domain: [keys]} filled key by key lists the domains in order of first occurrence and the keys of a domain in theirs
        return ("grouped", loop) if loop._c19_grouped == "first" else ("other", loop)
    base = loop.iter
    if isinstance(base, ast.Call) and isinstance(base.func, ast.Attribute) and base.func.attr in ("items", "keys", "values") and not base.args:
        base = base.func.value
    if not (isinstance(base, ast.Name) and (base.id in kd.keyviews or base.id in kd.recviews)):
        return "flat", None
    name = base.id
    # `view = sorted(keys, key=...)` (also re-binding the same name): judged like keys.sort(key=...)
    sa = [n for n in kd.fi.local_nodes() if isinstance(n, ast.Assign) and len(n.targets) == 1 and isinstance(n.targets[0], ast.Name) and n.targets[0].id == name
          and isinstance(n.value, ast.Call) and isinstance(n.value.func, ast.Name) and n.value.func.id == "sorted" and n.value.args and isinstance(n.value.args[0], ast.Name) and n.value.args[0].id in kd.keyviews]
    sorts = [c for c in kd.fi.local_nodes() if isinstance(c, ast.Call) and isinstance(c.func, ast.Attribute) and isinstance(c.func.value, ast.Name) and c.func.value.id == name and c.func.attr in ("sort", "reverse")]
    if sa:
        if len(sa) > 1 or sorts or len(sa[0].value.args) != 1 or [k.arg for k in sa[0].value.keywords] != ["key"]:
            return "other", sa[0]
        return _judge_sort_key(kd, sa[0].value.args[0].id, sa[0].value.keywords[0].value, sa[0])
    if not sorts:
        return "flat", None
    if len(sorts) > 1 or sorts[0].func.attr != "sort" or sorts[0].args or [k.arg for k in sorts[0].keywords] != ["key"]:
        return "other", sorts[0]
    return _judge_sort_key(kd, name, sorts[0].keywords[0].value, sorts[0])


def _judge_sort_key(kd: "Kinds", name: str, lam: ast.expr, node: ast.AST):
    """Is the sort key of the key view ``name`` the first-occurrence rank of the key's domain?"""
    if isinstance(lam, ast.Lambda) and len(lam.args.args) == 1 and isinstance(lam.body, ast.Subscript) and isinstance(lam.body.value, ast.Name) and lam.body.value.id in kd.domranks:
        # sort key = rank[domain of the key], the rank taken from a {domain: index} dict
        src, cut, wins = kd.domranks[lam.body.value.id]
        dom = _domain_of(lam.body.slice, lam.args.args[0].arg)
        if src == name and dom is not None and dom == cut == "first":
            return ("grouped", node) if wins == "first" else ("last", node)
        return "other", node
    if isinstance(lam, ast.Lambda) and len(lam.args.args) == 1 and isinstance(lam.body, ast.Call) and isinstance(lam.body.func, ast.Attribute) and lam.body.func.attr == "index" and isinstance(lam.body.func.value, ast.Name) and len(lam.body.args) == 1:
        dl = kd.domlists.get(lam.body.func.value.id)
        dom = _domain_of(lam.body.args[0], lam.args.args[0].arg)
        a0 = lam.body.args[0]
        if name in kd.recviews and isinstance(a0, ast.Subscript) and isinstance(a0.value, ast.Name) and a0.value.id == lam.args.args[0].arg and isinstance(a0.slice, ast.Constant) and type(a0.slice.value) is int:
            shape = kd.recviews[name][1]
            if 0 <= a0.slice.value < len(shape) and shape[a0.slice.value] == "DOMAIN" and dl is not None:
                dom = dl[1]  # the record's domain field, cut where the helper cuts the key
        if dl is not None and dl[0] == name and dom is not None and dom == dl[1]:
            return ("grouped", node) if dom == "first" else ("other", node)
    return "other", node


def _inline_pure_calls(e: ast.expr, mod, depth: int = 0) -> ast.expr:
    """Replace calls of same-module one-expression helpers (`def f(x): return <expr>`) by that expression."""

    class Inl(ast.NodeTransformer):
        def visit_Call(self, node):
            self.generic_visit(node)
            if depth < 3 and isinstance(node.func, ast.Name) and node.func.id in mod.functions and not node.keywords and not any(isinstance(a, ast.Starred) for a in node.args):
                f = mod.functions[node.func.id]
                body = [st for st in f.node.body if not (isinstance(st, ast.Expr) and isinstance(st.value, ast.Constant))] if not f.is_lambda else []
                a = f.node.args if not f.is_lambda else None
                if a is not None and len(body) == 1 and isinstance(body[0], ast.Return) and body[0].value is not None and not (a.vararg or a.kwarg or a.kwonlyargs) and len(f.params) == len(node.args):
                    amap = {p_: ast.unparse(x) for p_, x in zip(f.params, node.args)}

                    class Sub(ast.NodeTransformer):
                        def visit_Name(self, nm):
                            return ast.parse("(" + amap[nm.id] + ")", mode="eval").body if nm.id in amap else nm

                    new = Sub().visit(ast.parse(ast.unparse(body[0].value), mode="eval").body)
                    return _inline_pure_calls(ast.fix_missing_locations(new), mod, depth + 1)
            return node

    return Inl().visit(e)


def _split_canon(v: ast.Call) -> str | None:
    """Where a `domain:type` string is cut: 'first' colon (split(':', 1), partition(':')), 'last' colon
    (rsplit(':', 1), rpartition(':')) or at 'every' colon (split(':'))."""
    args = v.args
    if v.keywords or not args or not (isinstance(args[0], ast.Constant) and args[0].value == ":"):
        return None
    m = v.func.attr
    if m in ("partition", "rpartition") and len(args) == 1:
        return "first" if m == "partition" else "last"
    if m in ("split", "rsplit"):
        if len(args) == 1:
            return "every"
        if len(args) == 2 and isinstance(args[1], ast.Constant) and args[1].value == 1:
            return "first" if m == "split" else "last"
    return None


def _kinds(corpus: Corpus, fq: str, rk: str, root: str = "INVS") -> Kinds:
    return corpus.cache(("c19-kinds", fq), lambda: Kinds(corpus.func(fq), rk, root))


def _invmatch_fields(corpus: Corpus) -> list[str]:
    ci = corpus.cls("inventory:InvMatch")
    return [st.target.id for st in ci.node.body if isinstance(st, ast.AnnAssign) and isinstance(st.target, ast.Name)]


def _from_sphinx_text_norm(corpus: Corpus) -> tuple[str, str]:
    fs = corpus.func("inventory:from_sphinx")
    kd = _kinds(corpus, fs.fq, "sphinx", "SINV")
    for n in fs.local_nodes():
        if isinstance(n, ast.Dict) and all(isinstance(k, ast.Constant) for k in n.keys) and {k.value for k in n.keys} == {"loc", "text"}:
            d = {k.value: v for k, v in zip(n.keys, n.values)}
            return kd.norm(d["loc"]), kd.norm(d["text"])
    raise Unsupported("from_sphinx: the {'loc':…, 'text':…} item literal was not found")


FILTER_FUNCS = {"inventory:filter_inventories": "native", "inventory:filter_sphinx_inventories": "sphinx"}


@rule("C19.R3")
def r3_pairing(corpus: Corpus, rep: Report, tier: str):
    rep.rule("C19.R3", "both filter functions test inventory/domain/type/name against invs/domains/otypes/targets, all four tests dominate the yield, InvMatch fields come from the same roles, iteration keeps mapping order, every entry is visited (no literal-key shortcut, early exit or unrelated skip)")
    g = get_callgraph(corpus)
    mw = corpus.func("inventory:match_with_wildcard")
    fields = _invmatch_fields(corpus)
    if not set(COORD_FIELDS) <= set(fields):
        raise Unsupported(f"InvMatch fields {fields}")
    for fq, rk in FILTER_FUNCS.items():
        fi = corpus.func(fq)
        rep.saw_function(fi.fq)
        kd = _kinds(corpus, fi.fq, rk)
        cfg = get_cfg(fi)
        # (a) pairing at every match_with_wildcard call
        calls = [c for c in fi.local_nodes() if isinstance(c, ast.Call) and mw in g.flat_targets(g.resolve_call(c, fi))]
        tested: dict[int, tuple[str, bool]] = {}
        for c in calls:
            rep.saw_call(fi.module.site(c))
            if len(c.args) != 2 or c.keywords:
                raise Unsupported(f"call `{short(c, 50)}`")
            kind = kd.kind_of(c.args[0])
            if kind == "DOMOTYPE":
                # the four coordinates are matched separately; a pattern applied to the joined key can run across the separator
                tested[id(c)] = (kind, False)
                rep.violation(
                    "C19.R3",
                    f"{fi.fq}|the unsplit domain:type key is matched as one string",
                    fi.module.site(c),
                    f"`{short(c, 70)}` matches the whole `domain:type` key with one pattern instead of matching domain and object type separately: "
                    "a `*` of either pattern can run across the `:` (key `std:opt:doc`, i.e. type `opt:doc`, is returned for otypes='doc'), and the result differs from the native representation",
                )
                continue
            if kind not in FILTER_ROLE.values():
                raise Unsupported(f"{fi.qualname}: `{short(c, 50)}` tests a value whose role is {kind or 'unknown'}")
            fparam = c.args[1].id if isinstance(c.args[1], ast.Name) and c.args[1].id in fi.params and not _defs_of(fi, c.args[1].id) else None
            if fparam is None or fparam not in FILTER_ROLE:
                raise Unsupported(f"{fi.qualname}: `{short(c, 50)}` - the filter is not one of the parameters {sorted(FILTER_ROLE)}")
            k = f"{fi.fq}|{kind} is matched against a filter"
            good = FILTER_ROLE[fparam] == kind
            tested[id(c)] = (kind, good)
            if good:
                rep.ok("C19.R3", k, fi.module.site(c), f"{kind} ~ {fparam}")
            else:
                rep.violation("C19.R3", k, fi.module.site(c), f"`{short(c, 60)}` matches the {kind} coordinate against the `{fparam}` filter (the {FILTER_ROLE[fparam]} pattern)")
            # the test must sit in an `if` inside the loop (or after the assignment) that binds the tested name
            st = cfg.stmt_of(c)
            if isinstance(st, ast.Assign) and len(st.targets) == 1 and isinstance(st.targets[0], ast.Name) and st.value is c:
                pass  # `matched = match_with_wildcard(x, f)`: judged where the flag variable guards the yield
            elif not (isinstance(st, ast.If) and any(x is c for x in ast.walk(st.test))):
                raise Unsupported(f"{fi.qualname}: `{short(c, 50)}` is not part of an if-test; its effect on the yield is not modelled")
            b = kd.binder.get(c.args[0].id)
            anc = list(ancestors(st))
            if isinstance(b, ast.For):
                if b not in anc:
                    raise Unsupported(f"{fi.qualname}: the {kind} test is outside the loop that binds {c.args[0].id}")
            elif isinstance(b, ast.Assign):
                if not cfg.dominates(b, st):
                    raise Unsupported(f"{fi.qualname}: the {kind} test is not dominated by the assignment of {c.args[0].id}")
        # (a2) a coordinate tested directly with a compiled pattern (Pattern.fullmatch / match / search, re.fullmatch / ...)
        cr = corpus.func("inventory:_create_regex")
        for c in fi.local_nodes():
            if not (isinstance(c, ast.Call) and isinstance(c.func, ast.Attribute) and c.func.attr in ("fullmatch", "match", "search")):
                continue
            is_re = fi.module.resolve(dotted(c.func) or "") in ("re.fullmatch", "re.match", "re.search")
            subj = (c.args[1] if len(c.args) >= 2 else None) if is_re else (c.args[0] if len(c.args) == 1 else None)
            kind = kd.kind_of(subj) if subj is not None else None
            if kind == "DOMOTYPE" or kind in FILTER_ROLE.values():
                rep.saw_call(fi.module.site(c))
            else:
                continue
            k = f"{fi.fq}|{kind} is tested with a whole-string wildcard match"
            st = cfg.stmt_of(c)
            if not (isinstance(st, ast.If) and any(x is c for x in ast.walk(st.test))):
                raise Unsupported(f"{fi.qualname}: `{short(c, 50)}` is not part of an if-test; its effect on the yield is not modelled")
            if c.func.attr != "fullmatch":
                tested[id(c)] = (kind, False)
                rep.violation("C19.R3", k, fi.module.site(c), f"`{short(c, 60)}` tests the {kind} coordinate with `{c.func.attr}`, which accepts any value that merely starts with / contains a match: "
                              f"the pattern no longer has to match the {kind} in full (e.g. pattern 'py' accepts 'python'), and the result differs from the other representation, which uses fullmatch")
                continue
            if is_re or kind == "DOMOTYPE":
                raise Unsupported(f"{fi.qualname}: `{short(c, 50)}` - direct regex match not traced to _create_regex of a filter")
            fparam = _regex_filter(c.func.value, fi, cr, g)
            if fparam is None:
                raise Unsupported(f"{fi.qualname}: the pattern object in `{short(c, 50)}` is not traced to _create_regex(<filter>)")
            good = FILTER_ROLE.get(fparam) == kind
            tested[id(c)] = (kind, good)
            if good:
                rep.ok("C19.R3", k, fi.module.site(c), f"{kind} ~ _create_regex({fparam}).fullmatch")
            else:
                rep.violation("C19.R3", k, fi.module.site(c), f"`{short(c, 60)}` matches the {kind} coordinate against the pattern compiled from the `{fparam}` filter")
        # (b) every yield is dominated by a positive test of each coordinate
        yields = [n for n in fi.local_nodes() if isinstance(n, (ast.Yield, ast.YieldFrom))]
        if not yields or any(isinstance(y, ast.YieldFrom) for y in yields):
            raise Unsupported(f"{fi.qualname}: yields not understood")
        for y in yields:
            st = cfg.stmt_of(y)
            have: set[str] = set()
            literal: dict[str, ast.AST] = {}  # coordinate kind -> a plain-string test of it that guards the yield
            for t, pol in cfg.guards(st):
                if pol and isinstance(t, ast.Call) and id(t) in tested and tested[id(t)][1]:
                    have.add(tested[id(t)][0])
                elif isinstance(t, ast.BoolOp) and isinstance(t.op, ast.Or) == pol:
                    # a disjunction that holds - `f is None or match_with_wildcard(x, f)` or the false edge of
                    # `f is not None and not match_with_wildcard(x, f)`: an omitted filter matches anyway
                    ks = set()
                    for v in t.values:
                        vp = pol
                        while isinstance(v, ast.UnaryOp) and isinstance(v.op, ast.Not):
                            v, vp = v.operand, not vp
                        nf = _filter_none_test(v, kd.filters)
                        if vp and isinstance(v, ast.Call) and id(v) in tested and tested[id(v)][1]:
                            ks.add(tested[id(v)][0])
                        elif nf is not None and nf[1] == vp:
                            ks.add(FILTER_ROLE[nf[0]])
                        else:
                            ks.add("?")
                    if len(ks) == 1 and "?" not in ks:
                        have.add(ks.pop())
                elif pol and isinstance(t, ast.Name) and t.id not in fi.params and t.id not in kd.kinds:
                    # a flag variable: every value it can have been given must itself be a passed wildcard test
                    cover = None
                    for d in _defs_of(fi, t.id):
                        if isinstance(d, ast.Constant) and not d.value:
                            continue  # `matched = False` cannot be the value on this (true) edge
                        if isinstance(d, ast.BoolOp) and isinstance(d.op, ast.And) and any(isinstance(v_, ast.Name) and v_.id == t.id for v_ in d.values):
                            continue  # `flag = flag and ...` can only narrow
                        ks = {tested[id(d)][0]} if isinstance(d, ast.Call) and id(d) in tested and tested[id(d)][1] else set()
                        if not ks:
                            for kk in _literal_tests(d, kd):
                                literal.setdefault(kk, d)
                        cover = ks if cover is None else cover & ks
                    have |= cover or set()
                elif pol:
                    for kk in _literal_tests(t, kd):
                        literal.setdefault(kk, t)
            for kind in ("INV", "DOMAIN", "OTYPE", "NAME"):
                k = f"{fi.fq}|yield is guarded by the {kind} test"
                if kind in have:
                    rep.ok("C19.R3", k, fi.module.site(y))
                elif kind in literal:
                    esc = _escape_aware(fi, kd.filters)
                    if esc is not None:
                        raise Unsupported(f"{fi.qualname}: the {kind} is tested with `{short(literal[kind], 50)}` on some path and the function tests the pattern for the escape character (`{short(esc, 40)}`): a guarded literal fast path is not modelled")
                    rep.violation("C19.R3", k, fi.module.site(literal[kind]), f"on some path the {kind} reaches the yield through `{short(literal[kind], 60)}` instead of match_with_wildcard: a plain string test cannot be equivalent to the wildcard match "
                                  f"unless the backslash escape is taken into account, and the function never looks at it (pattern `a\\*` must match only the name `a*`, not names starting with `a\\`)")
                else:
                    rep.violation("C19.R3", k, fi.module.site(y), f"an entry is yielded on a path that has not passed `match_with_wildcard(<{kind}>, <{kind} filter>)`: entries whose {kind} does not match are returned")
            # (c) InvMatch fields
            v = y.value
            if not (isinstance(v, ast.Call) and fi.module.resolve(dotted(v.func) or "").endswith("inventory.InvMatch")):
                raise Unsupported(f"{fi.qualname}: yields `{short(v, 40)}`, not an InvMatch(...) construction")
            given: dict[str, ast.expr] = {}
            for i, a in enumerate(v.args):
                if isinstance(a, ast.Starred) or i >= len(fields):
                    raise Unsupported("InvMatch positional arguments")
                given[fields[i]] = a
            for kw in v.keywords:
                if kw.arg is None:
                    raise Unsupported("InvMatch(**kwargs)")
                given[kw.arg] = kw.value
            exp = dict(EXPECTED_FIELDS[rk])
            if rk == "sphinx":
                _, exp["text"] = _from_sphinx_text_norm(corpus)
            for f in fields:
                k = f"{fi.fq}|InvMatch.{f}"
                if f not in given:
                    raise Unsupported(f"{fi.qualname}: InvMatch field {f} not given")
                if f not in exp:
                    rep.listed("C19.R3", k, fi.module.site(given[f]), "field outside the role table")
                    continue
                got = kd.norm(given[f])
                if got == exp[f]:
                    rep.ok("C19.R3", k, fi.module.site(given[f]), got)
                elif f in COORD_FIELDS and got in {f"<{x}>" for x in FILTER_ROLE.values()} or (f not in COORD_FIELDS and got in set(exp.values()) | {f"<{x}>" for x in TUPLE_KINDS}):
                    rep.violation("C19.R3", k, fi.module.site(given[f]), f"InvMatch.{f} is filled from {got}, expected {exp[f]}")
                elif " filter>" in got:
                    rep.violation("C19.R3", k, fi.module.site(given[f]), f"InvMatch.{f} is computed from the filter pattern itself (`{got}`), expected {exp[f]}: the pattern is used as a literal name instead of being matched")
                elif f == "text" and rk == "sphinx":
                    rep.violation("C19.R3", k, fi.module.site(given[f]), f"InvMatch.text is computed as `{got}` but from_sphinx (the native image of the same data) computes `{exp[f]}`: the two representations yield different entries")
                else:
                    raise Unsupported(f"{fi.qualname}: InvMatch.{f} = `{got}` not understood (expected {exp[f]})")
        # (d2) the Sphinx `domain:type` key is cut where from_sphinx and the native loader cut it
        if rk == "sphinx":
            k = f"{fi.fq}|the domain:type key is split where from_sphinx / load split it"
            mine = getattr(kd, "key_split", None)
            if mine is None:
                raise Unsupported(f"{fi.qualname}: split of the domain:type key not found")
            others = []
            fsk = _kinds(corpus, corpus.func("inventory:from_sphinx").fq, "sphinx", "SINV")
            if getattr(fsk, "key_split", None) is None:
                raise Unsupported("from_sphinx: split of the domain:type key not found")
            others.append(("from_sphinx", fsk.key_split[0]))
            lv2 = corpus.func("inventory:_load_v2")
            for n in lv2.local_nodes():
                if isinstance(n, ast.Assign) and isinstance(n.value, ast.Call) and isinstance(n.value.func, ast.Attribute) and n.value.func.attr in ("split", "rsplit", "partition", "rpartition") and isinstance(n.targets[0], (ast.Tuple, ast.List)) and _split_canon(n.value) is not None:
                    others.append(("_load_v2", _split_canon(n.value)))
            diff = [(w, c) for w, c in others if c != mine[0]]
            if diff:
                rep.violation("C19.R3", k, fi.module.site(mine[1]), f"`{short(mine[1], 60)}` cuts the key at {_WHERE[mine[0]]} but {diff[0][0]} cuts it at {_WHERE[diff[0][1]]}: for an object type that contains a colon "
                              "(key `std:opt:long`) the Sphinx representation yields domain/type `std:opt`/`long` while the native representation of the same data has `std`/`opt:long`, so the two filters return different entries")
            else:
                rep.ok("C19.R3", k, fi.module.site(mine[1]), f"{_WHERE[mine[0]]}, as {', '.join(w for w, _ in others)}")
        for fx, kx in [(fi, kd)] + [(sk.fi, sk) for sk in kd.subs]:
            # (d) iteration order
            for loop in kx.loops:
                k = f"{fx.fq}|iteration order over {loop._c19_kind}"
                br = [w for l, w in kx.order_breaks if l is loop]
                if br:
                    rep.violation("C19.R3", k, fx.module.site(loop), f"the loop iterates `{short(loop.iter, 50)}`: `{br[0]}` replaces the mapping's own (inventory) order")
                else:
                    rep.ok("C19.R3", k, fx.module.site(loop))
                if rk == "sphinx" and fx is fi and (loop._c19_kind == "SINV" or loop._c19_kind.startswith("SINV (through")) and any(isinstance(x, (ast.Yield, ast.YieldFrom)) for x in ast.walk(loop)):
                    # the native format nests the types under their domain (first occurrence), the Sphinx format is flat:
                    # the flat keys must be walked grouped by domain or the two representations yield in different orders
                    k = f"{fx.fq}|domain:type keys are walked grouped by domain, in the order of the native nesting"
                    how, node = _key_order(kx, loop)
                    sub_ = getattr(loop, "_c19_sub", None)
                    if how == "flat" and sub_ is not None and sub_.loops:
                        how, node = _key_order(sub_, sub_.loops[0])  # the generator helper may do the grouping itself
                        if how != "flat":
                            rep.note(f"C19.R3: {fx.qualname}: the grouping of the domain:type keys is done inside {sub_.fi.qualname}")
                    if how == "grouped":
                        rep.ok("C19.R3", k, fx.module.site(node))
                    elif how == "flat":
                        rep.violation("C19.R3", k, fx.module.site(loop), f"the loop walks the flat `domain:type` keys in their own order (`{short(loop.iter, 40)}`), while from_sphinx / load nest every type under the first occurrence of its domain: "
                                      "for keys listed as std:label, py:class, std:doc the native form yields std:label, std:doc, py:class - matches come in a different order and an ambiguous inv: link resolves to a different first match under Sphinx than under docutils")
                    elif how == "last":
                        rep.violation("C19.R3", k, fx.module.site(node), f"`{short(node, 60)}` ranks every domain by the index of its LAST key (a dict built over enumerate keeps the last index per domain), the native nesting lists a domain where it FIRST occurs: "
                                      "for keys std:label, py:class, std:doc the native form yields std:label, std:doc, py:class but this order is py:class, std:label, std:doc")
                    else:
                        rep.violation("C19.R3", k, fx.module.site(node), f"`{short(node, 60)}` re-orders the `domain:type` keys, but not into the order of the native nesting (stable sort by the first occurrence of the key's domain, the key cut at the first ':')")
            # (e) every loop visits every entry of its level; the filter restricts the result only through match_with_wildcard
            aware = _wildcard_aware(fx, kx.filters)
            for loop in kx.loops:
                k = f"{fx.fq}|loop over {loop._c19_kind} visits every entry"
                part = [x for x, conds in kx.restricted.get(loop, []) if not _star_free(x, conds, kx.filters)]
                if not part:
                    rep.ok("C19.R3", k, fx.module.site(loop), "literal-key shortcut only for patterns without '*'" if kx.restricted.get(loop) else "")
                elif aware:
                    raise Unsupported(f"{fx.qualname}: the loop over {loop._c19_kind} may iterate `{short(part[0], 40)}` and the function tests the pattern for wildcard characters (`{short(aware, 40)}`) in a way that is not modelled")
                else:
                    rep.violation(
                        "C19.R3",
                        k,
                        fx.module.site(loop),
                        f"the loop may iterate `{short(part[0], 50)}` instead of the whole {loop._c19_kind} mapping: the filter pattern is used as a literal key, so when it equals an entry's key "
                        "(e.g. name `operator*` with pattern `operator*`, or name `a\\*` with pattern `a\\*`) the other entries are never tested and matching entries are dropped",
                    )
            # (f) the enumeration is never cut short
            k = f"{fx.fq}|enumeration is not cut short"
            stops = [n for n in fx.local_nodes() if isinstance(n, (ast.Break, ast.Return)) and any(isinstance(a, ast.For) for a in ancestors(n))]
            if not stops:
                rep.ok("C19.R3", k, fx.site())
            elif aware:
                raise Unsupported(f"{fx.qualname}: `{type(stops[0]).__name__.lower()}` inside the filter loops next to a wildcard-character test (`{short(aware, 40)}`): a guarded early exit is not modelled")
            else:
                for st in stops:
                    rep.violation("C19.R3", k, fx.module.site(st), f"`{type(st).__name__.lower()}` inside the filter loops ends the enumeration early: entries after it are never tested, although a pattern with `*` (or an omitted pattern) can match any number of entries")
            # (g) an entry is skipped only because one of its coordinates failed its test (or it has no domain:type key)
            for st in fx.local_nodes():
                if not isinstance(st, ast.Continue):
                    continue
                p = parent(st)
                if not (isinstance(p, ast.If) and st in p.body):
                    raise Unsupported(f"{fx.qualname}: unconditional / else-branch `continue`")

                def skip_ok(t: ast.expr, pol: bool) -> bool:
                    """The condition can only hold when a wildcard test failed (or the key has no domain:type form)."""
                    if isinstance(t, ast.UnaryOp) and isinstance(t.op, ast.Not):
                        return skip_ok(t.operand, not pol)
                    if isinstance(t, ast.BoolOp):
                        # `a and b` holding needs every part to be a reason; `a and b` failing needs a failed part among tests only
                        vals = t.values
                        if isinstance(t.op, ast.And) == pol:
                            # conjunction that holds: `f is not None and not match(x, f)` - the None test adds nothing
                            real = [v for v in vals if not ((_filter_none_test(v, kx.filters) or (None, None))[1] is (not pol))]
                            vals = real or vals
                        return all(skip_ok(v, pol) for v in vals)
                    if isinstance(t, ast.Call) and id(t) in tested:
                        return not pol
                    if isinstance(t, ast.Compare) and len(t.ops) == 1 and isinstance(t.left, ast.Constant) and t.left.value == ":" and kx.kind_of(t.comparators[0]) == "DOMOTYPE":
                        return isinstance(t.ops[0], ast.NotIn) == pol
                    return False

                if not skip_ok(p.test, True):
                    literal = [x for x in ast.walk(p.test) if isinstance(x, ast.Name) and x.id in kx.filters and not (isinstance(parent(x), ast.Call) and id(parent(x)) in tested) and _filter_none_test(parent(x), kx.filters) is None]
                    if literal and not aware:
                        rep.violation("C19.R3", f"{fx.fq}|entries are skipped only after a failed wildcard test", fx.module.site(st), f"entries are skipped under `{short(p.test, 60)}`: the `{literal[0].id}` pattern is compared/looked up literally instead of being matched with its wildcard syntax, so entries that match the pattern are dropped")
                    else:
                        raise Unsupported(f"{fx.qualname}: entries are skipped under `{short(p.test, 50)}`, which is not a failed wildcard test")
    rep.expect_min("C19.R3", 36, "2 functions x (4 pairings + 4 yield guards + 9 fields + 3-4 loops x 2 + 1)")


def _star_free(leaf: ast.expr, conds: list, filters: list[str]) -> bool:
    """The alternative is only chosen when every filter it is built from contains no `*`
    (a pattern without `*` consists of literal characters only - a backslash not followed by `*` is itself)."""
    used = {x.id for x in ast.walk(leaf) if isinstance(x, ast.Name) and x.id in filters}
    for f in used:
        ok = False
        for t, pol in conds:
            if isinstance(t, ast.Compare) and len(t.ops) == 1 and isinstance(t.left, ast.Constant) and t.left.value == "*" and isinstance(t.comparators[0], ast.Name) and t.comparators[0].id == f:
                if isinstance(t.ops[0], ast.NotIn) == pol and isinstance(t.ops[0], (ast.In, ast.NotIn)):
                    ok = True
        if not ok:
            return False
    return bool(used)


def _regex_filter(recv: ast.expr, fi: FunctionInfo, cr: FunctionInfo, g, depth: int = 0) -> str | None:
    """Filter parameter whose compiled pattern ``recv`` is: `_create_regex(f)` or `_create_regex("*" if f is None else f)`
    (an omitted filter compiled as '*', which matches everything), directly or through a single-assignment local."""
    if depth > 3:
        return None
    if isinstance(recv, ast.Name):
        defs = _defs_of(fi, recv.id)
        return _regex_filter(defs[0], fi, cr, g, depth + 1) if len(defs) == 1 else None
    if isinstance(recv, ast.Call) and len(recv.args) == 1 and not recv.keywords and cr in g.flat_targets(g.resolve_call(recv, fi)):
        a = recv.args[0]
        if isinstance(a, ast.IfExp):
            nt = None
            for f in fi.params:
                v = _is_none_test(a.test, f)
                if v is not None:
                    nt = (f, v)
            if nt is None:
                return None
            star, other = (a.body, a.orelse) if nt[1] else (a.orelse, a.body)
            if isinstance(star, ast.Constant) and star.value == "*" and isinstance(other, ast.Name) and other.id == nt[0]:
                a = other
        if isinstance(a, ast.Name) and a.id in fi.params and not _defs_of(fi, a.id):
            return a.id
    return None


_STR_TESTS = {"startswith", "endswith", "__eq__", "__contains__", "find", "index"}


def _literal_tests(e: ast.AST, kd) -> set[str]:
    """Coordinate kinds that ``e`` tests with a plain string operation (`x.startswith(..)`, `x == ..`, `.. in x`)."""
    out: set[str] = set()
    coords = set(FILTER_ROLE.values())
    for x in ast.walk(e):
        if isinstance(x, ast.Call) and isinstance(x.func, ast.Attribute) and x.func.attr in _STR_TESTS and kd.kind_of(x.func.value) in coords:
            out.add(kd.kind_of(x.func.value))
        if isinstance(x, ast.Compare) and len(x.ops) == 1 and isinstance(x.ops[0], (ast.Eq, ast.NotEq, ast.In, ast.NotIn)):
            for side in (x.left, x.comparators[0]):
                if kd.kind_of(side) in coords and not (isinstance(x.comparators[0], ast.Constant) and x.comparators[0].value is None):
                    out.add(kd.kind_of(side))
    return out


def _escape_aware(fi: FunctionInfo, filters: list[str]) -> ast.expr | None:
    """A test of a filter pattern for the backslash (the escape character of the wildcard syntax)."""
    for n in fi.local_nodes():
        if isinstance(n, ast.Compare) and len(n.ops) == 1 and isinstance(n.ops[0], (ast.In, ast.NotIn)) and isinstance(n.left, ast.Constant) and isinstance(n.left.value, str) and "\\" in n.left.value and _mentions(n.comparators[0], filters):
            return n
        if isinstance(n, ast.Call) and any(_mentions(a, filters) for a in n.args) and (dotted(n.func) or "").startswith("re."):
            return n
    return None


def _filter_none_test(t: ast.expr, filters: list[str]) -> tuple[str, bool] | None:
    """(filter, True) for `f is None`, (filter, False) for `f is not None`."""
    for f in filters:
        v = _is_none_test(t, f)
        if v is not None:
            return f, v
    return None


def _wildcard_aware(fi: FunctionInfo, filters: list[str]) -> ast.expr | None:
    """A test of a filter pattern for the characters `*` / backslash (evidence of a deliberate literal-pattern shortcut)."""
    for n in fi.local_nodes():
        if isinstance(n, ast.Compare) and len(n.ops) == 1 and isinstance(n.ops[0], (ast.In, ast.NotIn)) and isinstance(n.left, ast.Constant) and isinstance(n.left.value, str) and set(n.left.value) & {"*", "\\"}:
            if _mentions(n.comparators[0], filters):
                return n
        if isinstance(n, ast.Call) and isinstance(n.func, ast.Attribute) and n.func.attr in ("find", "index", "count", "isalnum", "isidentifier", "translate") and _mentions(n.func.value, filters):
            return n
        if isinstance(n, ast.Call) and any(_mentions(a, filters) for a in n.args) and (dotted(n.func) or "").startswith("re."):
            return n
    return None


# ---------------------------------------------------------------------------
# R4: callers and the inv: link paths

CLI_ROLE = {"domain": "DOMAIN", "object_type": "OTYPE", "name": "NAME"}
HREF_INDEX_ROLE = {0: "INV", 1: "DOMAIN", 2: "OTYPE"}


def _callee(call: ast.Call, fi: FunctionInfo, g) -> FunctionInfo | None:
    """The single package function a call resolves to (helper following), else None."""
    ts = [t for t in g.flat_targets(g.resolve_call(call, fi)) if not t.is_lambda]
    return ts[0] if len(ts) == 1 else None


def _arg_map(call: ast.Call, tf: FunctionInfo) -> dict[str, ast.expr]:
    """Parameter name -> argument expression of a call of ``tf`` (self/cls of a bound call skipped)."""
    params = list(tf.params)
    if tf.cls is not None and "staticmethod" not in tf.decorators() and params and isinstance(call.func, ast.Attribute):
        params = params[1:]
    out: dict[str, ast.expr] = {}
    for i, a in enumerate(call.args):
        if isinstance(a, ast.Starred) or i >= len(params):
            raise Unsupported(f"call `{short(call, 50)}`: arguments not mapped to parameters of {tf.qualname}")
        out[params[i]] = a
    for kw in call.keywords:
        if kw.arg is None:
            raise Unsupported(f"call `{short(call, 50)}` passes **kwargs")
        out[kw.arg] = kw.value
    return out


def _record_fields(corpus: Corpus, fi: FunctionInfo, ctor: ast.Call) -> list[str] | None:
    """Field names (in order) when ``ctor`` constructs a package NamedTuple / dataclass."""
    ci = corpus.find_class(fi.module.resolve(dotted(ctor.func) or ""))
    if ci is None:
        return None
    is_nt = any(b.rsplit(".", 1)[-1] == "NamedTuple" for b in ci.bases)
    is_dc = any((dotted(d.func if isinstance(d, ast.Call) else d) or "").rsplit(".", 1)[-1] == "dataclass" for d in ci.node.decorator_list)
    if not (is_nt or is_dc):
        return None
    return [st.target.id for st in ci.node.body if isinstance(st, ast.AnnAssign) and isinstance(st.target, ast.Name)]


def _return_components(corpus: Corpus, tf: FunctionInfo) -> list[tuple[ast.Return, dict]]:
    """Per return statement of a helper: selector (tuple index and/or record field name) -> component expression."""
    out = []
    for r in tf.local_nodes():
        if not isinstance(r, ast.Return):
            continue
        v = r.value
        comps: dict = {}
        if isinstance(v, ast.Tuple) and not any(isinstance(x, ast.Starred) for x in v.elts):
            comps = dict(enumerate(v.elts))
        elif isinstance(v, ast.Call):
            fields = _record_fields(corpus, tf, v)
            if fields is None:
                raise Unsupported(f"{tf.qualname}: returns `{short(v, 40)}`, which is neither a tuple nor a package NamedTuple/dataclass")
            for i, a in enumerate(v.args):
                if isinstance(a, ast.Starred) or i >= len(fields):
                    raise Unsupported(f"{tf.qualname}: `{short(v, 40)}` positional arguments")
                comps[i] = comps[fields[i]] = a
            for kw in v.keywords:
                if kw.arg not in fields:
                    raise Unsupported(f"{tf.qualname}: `{short(v, 40)}` keyword {kw.arg}")
                comps[fields.index(kw.arg)] = comps[kw.arg] = kw.value
        else:
            raise Unsupported(f"{tf.qualname}: return value `{short(v, 40) if v is not None else None}` not understood")
        out.append((r, comps))
    if not out:
        raise Unsupported(f"{tf.qualname}: no return statement")
    return out


def _helper_component(e: ast.expr, fi: FunctionInfo, ctx):
    """(helper, selector) when ``e`` is `q.field` / `q[i]` / `helper(...)[i]` with q = helper(...), a package function."""
    if ctx is None:
        return None
    corpus, g = ctx
    sel = base = None
    if isinstance(e, ast.Attribute):
        sel, base = e.attr, e.value
    elif isinstance(e, ast.Subscript) and isinstance(e.slice, ast.Constant) and type(e.slice.value) is int:
        sel, base = e.slice.value, e.value
    if base is None:
        return None
    if isinstance(base, ast.Name) and base.id not in fi.params:
        try:
            d = _defs_of(fi, base.id)
        except Unsupported:
            return None
        if len(d) != 1:
            return None
        base = d[0]
    if isinstance(base, ast.Call):
        tf = _callee(base, fi, g)
        if tf is not None and tf.fq != fi.fq:
            return tf, sel, base
    return None


def _single_def(e: ast.expr, fi: FunctionInfo) -> ast.expr:
    """A local name replaced by its only definition (tuple unpacking resolved element-wise)."""
    for _ in range(4):
        if isinstance(e, ast.Name) and e.id not in fi.params:
            try:
                d = _defs_of(fi, e.id)
            except Unsupported:
                return e
            if len(d) != 1:
                return e
            e = d[0]
        else:
            break
    return e


def _partition_call(e: ast.expr, fi: FunctionInfo, sep: str, methods=("partition",)):
    """(call, index) when ``e`` is element ``index`` of `<receiver>.partition(sep)` (directly or through a local);
    ``methods`` = the accepted spellings (`rpartition` cuts at the LAST separator: same tuple shape, another cut)."""
    e = _single_def(e, fi)
    if isinstance(e, ast.Subscript) and isinstance(e.slice, ast.Constant) and type(e.slice.value) is int:
        c = _single_def(e.value, fi)
        if isinstance(c, ast.Call) and isinstance(c.func, ast.Attribute) and c.func.attr in methods and len(c.args) == 1 and not c.keywords and isinstance(c.args[0], ast.Constant) and c.args[0].value == sep:
            return c, e.slice.value
    return None


def _partition_elem(e: ast.expr, fi: FunctionInfo, sep: str, methods=("partition",)):
    """(receiver, index) when ``e`` is element ``index`` of `<receiver>.partition(sep)` (directly or through a local)."""
    pc = _partition_call(e, fi, sep, methods)
    return (pc[0].func.value, pc[1]) if pc is not None else None


# where the destination is cut into `<path>#<target>`: both spellings give (before, sep, after); WHICH '#' is judged
# by the "target starts after the first '#'" obligation of _href_shape_check, not by the role trace
HASH_CUTS = ("partition", "rpartition")


def _hash_cut(e: ast.expr, fi: FunctionInfo) -> ast.Call | None:
    """The `<x>.partition('#')` / `<x>.rpartition('#')` call that ``e`` (path or target string) is an element of."""
    pc = _partition_call(_or_none(e) or e, fi, "#", HASH_CUTS)
    return pc[0] if pc is not None else None


def _path_string(e: ast.expr, fi: FunctionInfo):
    """How the `<invs>:<domains>:<otypes>` part of the href is obtained: ("literal", href expr) for
    `href.partition(":")[2].partition("#")[0]`, ("urlparse", argument) for `urlparse(href).path`; None if not recognised."""
    x = _single_def(e, fi)
    if isinstance(x, ast.Attribute) and x.attr == "path" and _urlparse_var(x.value, fi):
        call = _single_def(x.value, fi)
        return "urlparse", (call.args[0] if isinstance(call, ast.Call) and call.args else None)
    pe = _partition_elem(e, fi, "#", HASH_CUTS)
    if pe is not None and pe[1] == 0:
        rest = _partition_elem(pe[0], fi, ":")
        if rest is not None and rest[1] == 2:
            return "literal", rest[0]
    return None


def _target_string(e: ast.expr, fi: FunctionInfo):
    """Like _path_string for the `#<target>` part."""
    x = _single_def(e, fi)
    if isinstance(x, ast.Attribute) and x.attr == "fragment" and _urlparse_var(x.value, fi):
        call = _single_def(x.value, fi)
        return "urlparse", (call.args[0] if isinstance(call, ast.Call) and call.args else None)
    pe = _partition_elem(e, fi, "#", HASH_CUTS)
    if pe is not None and pe[1] == 2:
        rest = _partition_elem(pe[0], fi, ":")
        if rest is not None and rest[1] == 2:
            return "literal", rest[0]
    return None


def _parts_split(e: ast.expr, fi: FunctionInfo):
    """(split call, path expression, "every" | "remainder") when ``e`` is `<path string>.split(":")` / `.split(":", 2)`
    (possibly inside list()/tuple()): the list of the href's path parts."""
    while isinstance(e, ast.Call) and isinstance(e.func, ast.Name) and e.func.id in ("list", "tuple") and len(e.args) == 1 and not e.keywords:
        e = e.args[0]
    if isinstance(e, ast.Call) and isinstance(e.func, ast.Attribute) and e.func.attr == "split" and not e.keywords and e.args and isinstance(e.args[0], ast.Constant) and e.args[0].value == ":":
        if _path_string(e.func.value, fi) is None:
            return None
        if len(e.args) == 1:
            return e, e.func.value, "every"
        if len(e.args) == 2 and isinstance(e.args[1], ast.Constant) and e.args[1].value == 2:
            return e, e.func.value, "remainder"
    return None


def _is_path_split(e: ast.expr, fi: FunctionInfo) -> bool:
    return _parts_split(e, fi) is not None


def _urlparse_var(e: ast.expr, fi: FunctionInfo) -> bool:
    if isinstance(e, ast.Call):
        return fi.module.resolve(dotted(e.func) or "") in ("urllib.parse.urlparse", "urllib.parse.urlsplit")
    if isinstance(e, ast.Name):
        d = _defs_of(fi, e.id)
        return len(d) == 1 and isinstance(d[0], ast.Call) and fi.module.resolve(dotted(d[0].func) or "") in ("urllib.parse.urlparse", "urllib.parse.urlsplit")
    return False


def _value_role(e: ast.expr, fi: FunctionInfo, ctx=None, depth: int = 0) -> str | None:
    """Role (INV/DOMAIN/OTYPE/NAME/NONE) of a filter value handed on by a caller.
    ``ctx`` = (corpus, call graph) lets the trace follow a value into the helper that computed it
    (`q = self._parse(href)` ... `q.domains` / `a, b, c, d = self._parse(href)`)."""
    if isinstance(e, ast.Constant) and e.value is None:
        return "NONE"
    if _or_none(e) is not None:
        return _value_role(_or_none(e), fi, ctx, depth)  # `x or None`: the same value, an empty one counting as omitted
    hc = _helper_component(e, fi, ctx) if depth < 2 else None
    if hc is not None:
        tf, sel, _call = hc
        roles = set()
        for _r, comps in _return_components(ctx[0], tf):
            if sel not in comps:
                return None
            roles.add(_value_role(comps[sel], tf, ctx, depth + 1))
        return roles.pop() if len(roles) == 1 else None
    if isinstance(e, ast.Attribute) and isinstance(e.value, ast.Name):
        # argparse namespace in inventory_cli
        d = _defs_of(fi, e.value.id)
        if len(d) == 1 and isinstance(d[0], ast.Call) and isinstance(d[0].func, ast.Attribute) and d[0].func.attr == "parse_args":
            return CLI_ROLE.get(e.attr)
        if e.attr == "fragment" and _urlparse_var(e.value, fi):
            return "NAME"
        return None
    if _target_string(e, fi) is not None:
        return "NAME"
    if isinstance(e, ast.Name):
        if e.id in fi.params:
            if _defs_of(fi, e.id):
                return None
            return FILTER_ROLE.get(e.id)
        roles = set()
        for d in _defs_of(fi, e.id):
            if isinstance(d, ast.Constant) and d.value is None:
                continue
            d = _or_none(d) or d
            if isinstance(d, ast.Subscript) and isinstance(d.slice, ast.Constant) and isinstance(d.slice.value, int) and (isinstance(d.value, ast.Name) or _is_path_split(d.value, fi)):
                pd = _defs_of(fi, d.value.id) if isinstance(d.value, ast.Name) else [d.value]
                while len(pd) == 1 and isinstance(pd[0], ast.Call) and isinstance(pd[0].func, ast.Name) and pd[0].func.id in ("list", "tuple") and len(pd[0].args) == 1 and not pd[0].keywords:
                    pd = [pd[0].args[0]]
                if len(pd) == 1 and _parts_split(pd[0], fi) is not None:
                    roles.add(HREF_INDEX_ROLE.get(d.slice.value, f"PATH[{d.slice.value}]"))
                    continue
                return None
            r = _value_role(d, fi, ctx, depth)
            if r is None:
                return None
            if r != "NONE":
                roles.add(r)
        if len(roles) == 1:
            return roles.pop()
        if not roles:
            return "NONE"
    return None


def _calls_to(fi: FunctionInfo, names: set[str]) -> list[ast.Call]:
    out = []
    for c in fi.local_nodes():
        if isinstance(c, ast.Call):
            d = dotted(c.func) or ""
            if d.rsplit(".", 1)[-1] in names:
                out.append(c)
    return sorted(out, key=lambda c: (c.lineno, c.col_offset))


PASS_THROUGH = [
    ("mdit_to_docutils.base:DocutilsRenderer.render_link_inventory", {"get_inventory_matches"}, {"invs", "domains", "otypes", "target"}),
    ("mdit_to_docutils.base:DocutilsRenderer.get_inventory_matches", {"filter_inventories"}, {"invs", "domains", "otypes", "targets"}),
    ("mdit_to_docutils.sphinx_:SphinxRenderer.get_inventory_matches", {"filter_sphinx_inventories"}, {"invs", "domains", "otypes", "targets"}),
    ("sphinx_ext.myst_refs:MystReferenceResolver._resolve_myst_ref_intersphinx", {"filter_sphinx_inventories"}, {"targets"}),
    ("inventory:inventory_cli", {"filter_inventories"}, {"domains", "otypes", "targets"}),
]


def _ev_len(t: ast.expr, lens: dict[str, int], n: int):
    """Three-valued evaluation of a test when the match list has n entries (None = not decided by n alone).

    ``lens`` maps the match list itself to 0 and every star-rest taken from it
    (``first, *rest = matches`` -> rest: 1) to the number of entries split off in front."""

    def size(name: str) -> int:
        return max(0, n - lens[name])

    def count_of(x):
        """(lo, hi): how many items the collection expression has, as far as n decides it; None = not understood."""
        if isinstance(x, ast.Name) and x.id in lens:
            return size(x.id), size(x.id)
        if isinstance(x, ast.Call) and isinstance(x.func, ast.Name) and len(x.args) == 1 and not x.keywords:
            inner = count_of(x.args[0])
            if inner is None:
                return None
            if x.func.id in ("list", "tuple", "sorted", "reversed"):
                return inner
            if x.func.id in ("set", "frozenset"):  # duplicates collapse: at least one item if there is any
                return min(1, inner[0]), inner[1]
        if isinstance(x, (ast.ListComp, ast.GeneratorExp, ast.SetComp, ast.DictComp)) and len(x.generators) == 1:
            inner = count_of(x.generators[0].iter)
            if inner is None:
                return None
            lo, hi = inner
            if isinstance(x, (ast.SetComp, ast.DictComp)):
                lo = min(1, lo)
            if x.generators[0].ifs:
                lo = 0
            return lo, hi
        if isinstance(x, ast.Subscript) and isinstance(x.slice, ast.Slice) and x.slice.lower is None and x.slice.step is None and isinstance(x.slice.upper, ast.Constant) and type(x.slice.upper.value) is int and x.slice.upper.value >= 0:
            inner = count_of(x.value)
            return None if inner is None else (min(inner[0], x.slice.upper.value), min(inner[1], x.slice.upper.value))
        return None

    def len_of(e):
        if isinstance(e, ast.Call) and isinstance(e.func, ast.Name) and e.func.id == "len" and len(e.args) == 1:
            return count_of(e.args[0])
        return None

    def decide(values):
        vs = set(values)
        return vs.pop() if len(vs) == 1 else None

    if isinstance(t, ast.Name) and t.id in lens:
        return size(t.id) > 0
    if isinstance(t, ast.UnaryOp) and isinstance(t.op, ast.Not):
        v = _ev_len(t.operand, lens, n)
        return None if v is None else not v
    if isinstance(t, ast.BoolOp):
        vals = [_ev_len(v, lens, n) for v in t.values]
        if isinstance(t.op, ast.And):
            if any(v is False for v in vals):
                return False
            return True if all(v is True for v in vals) else None
        if any(v is True for v in vals):
            return True
        return False if all(v is False for v in vals) else None
    if len_of(t) is not None:
        lo, hi = len_of(t)
        return decide(v > 0 for v in range(lo, hi + 1))
    if count_of(t) is not None and not isinstance(t, ast.Name):
        lo, hi = count_of(t)  # truthiness of a derived collection
        return decide(v > 0 for v in range(lo, hi + 1))
    if isinstance(t, ast.Compare) and len(t.ops) == 1:
        l, r, op = t.left, t.comparators[0], t.ops[0]

        def operand(e):
            if len_of(e) is not None:
                return len_of(e)
            if isinstance(e, ast.Constant) and type(e.value) is int:
                return e.value, e.value
            return None

        a, b = operand(l), operand(r)
        if len_of(l) is not None or len_of(r) is not None:
            if a is None or b is None:
                other = r if len_of(l) is not None else l
                # `len(matches) > show_num`: depends on a second value -> unknown, both edges are followed
                return None if not _mentions(other, lens) else _unsupported_len(t)
            if len_of(l) is not None and len_of(r) is not None and (a[0] != a[1] or b[0] != b[1]):
                return None  # two dependent, inexactly known sizes
            for cls, fn in ((ast.Gt, lambda x, y: x > y), (ast.GtE, lambda x, y: x >= y), (ast.Lt, lambda x, y: x < y), (ast.LtE, lambda x, y: x <= y), (ast.Eq, lambda x, y: x == y), (ast.NotEq, lambda x, y: x != y)):
                if isinstance(op, cls):
                    # e.g. len({... for m in matches}) > 1 with 2 matches: 1 or 2 distinct values -> not decided, both edges are followed
                    return decide(fn(x, y) for x in range(a[0], a[1] + 1) for y in range(b[0], b[1] + 1))
    if _mentions_whole(t, lens):
        _unsupported_len(t)
    return None  # e.g. `matches[0].text`: a property of an entry, not of the number of entries


def _mentions_whole(t: ast.AST, names) -> bool:
    """The list itself (not merely one of its elements, `m[i]...`) occurs in the test."""
    for x in ast.walk(t):
        if isinstance(x, ast.Name) and x.id in names:
            px = parent(x)
            if isinstance(px, ast.Subscript) and px.value is x and not isinstance(px.slice, ast.Slice):
                continue
            return True
    return False


def _mentions(t: ast.AST, names) -> bool:
    names = {names} if isinstance(names, str) else set(names)
    return any(isinstance(x, ast.Name) and x.id in names for x in ast.walk(t))


def _unsupported_len(t):
    raise Unsupported(f"test `{short(t, 50)}` on the match list is outside the understood subset")


class Unpack:
    """``a, b, *rest = matches``: which entry each name receives, and for which sizes it raises."""

    def __init__(self, stmt: ast.Assign, m: str):
        self.stmt = stmt
        t = stmt.targets[0]
        self.elems: dict[str, int] = {}  # name -> index (negative = counted from the end)
        self.star: str | None = None
        star_at = [i for i, e in enumerate(t.elts) if isinstance(e, ast.Starred)]
        if len(star_at) > 1 or not all(isinstance(e.value if isinstance(e, ast.Starred) else e, ast.Name) for e in t.elts):
            raise Unsupported(f"unpacking `{short(stmt, 50)}` of the match list")
        self.fixed = len(t.elts) - len(star_at)
        self.before = star_at[0] if star_at else len(t.elts)
        for i, e in enumerate(t.elts):
            if isinstance(e, ast.Starred):
                self.star = e.value.id
            elif i < self.before:
                self.elems[e.id] = i
            else:
                self.elems[e.id] = i - len(t.elts)

    def raises(self, n: int) -> bool:
        return n < self.fixed if self.star is not None else n != self.fixed


def _unpacks_of(fi: FunctionInfo, m: str) -> list[Unpack]:
    out = []
    for st in fi.local_nodes():
        if isinstance(st, ast.Assign) and len(st.targets) == 1 and isinstance(st.targets[0], (ast.Tuple, ast.List)) and isinstance(st.value, ast.Name) and st.value.id == m:
            out.append(Unpack(st, m))
    return out


def _counts_under(cfg, lens: dict[str, int], unpacks: list, n: int, weight, blocked=frozenset()) -> set[int]:
    """Event counts (saturating at 2) over the ENTRY->EXIT paths feasible when the match list has n entries.
    ``blocked``: CFG nodes that are not entered (handlers of the outcome class "destination cannot be parsed")."""
    raising = {u.stmt for u in unpacks if u.raises(n)}
    succ = {}
    for node, ss in cfg.succ.items():
        if blocked:
            ss = [x for x in ss if x not in blocked]
        if isinstance(node, ast.If):
            v = _ev_len(node.test, lens, n)
            if v is True:
                ss = [s for s in ss if s == ("T", node)]
            elif v is False:
                ss = [s for s in ss if s == ("F", node)]
        elif node in raising:
            ss = []  # ValueError: not enough / too many values to unpack
        succ[node] = ss
    inn: dict[object, set[int]] = {ENTRY: {0}}
    out: dict[object, set[int]] = {}
    work = [ENTRY]
    while work:
        x = work.pop()
        w = weight(x)
        new = {min(2, c + w) for c in inn.get(x, set())}
        if new <= out.get(x, set()):
            continue
        out[x] = out.get(x, set()) | new
        for s in succ.get(x, []):
            if not out[x] <= inn.get(s, set()):
                inn[s] = inn.get(s, set()) | out[x]
                work.append(s)
    return out.get(EXIT, set())


# ---- href parts: abstract execution per number of ':'-separated path parts


class _IndexErr(Exception):
    pass


class _OtherErr(Exception):
    pass


class _Stop(Exception):  # return before the lookup
    pass


class _Reached(Exception):
    def __init__(self, state, node=None):
        self.state = state
        self.node = node


_CATCHES_INDEX = {"IndexError", "LookupError", "Exception", "BaseException"}


def _or_none(e: ast.expr) -> ast.expr | None:
    """X when ``e`` is `X or None` / `X if X else None` / `None if not X else X` (an empty string becomes None)."""
    if isinstance(e, ast.BoolOp) and isinstance(e.op, ast.Or) and len(e.values) == 2 and isinstance(e.values[1], ast.Constant) and e.values[1].value is None:
        return e.values[0]
    if isinstance(e, ast.IfExp):
        if isinstance(e.orelse, ast.Constant) and e.orelse.value is None and unparse(e.test) == unparse(e.body):
            return e.body
        if isinstance(e.body, ast.Constant) and e.body.value is None and isinstance(e.test, ast.UnaryOp) and isinstance(e.test.op, ast.Not) and unparse(e.test.operand) == unparse(e.orelse):
            return e.orelse
    return None


class HrefParts:
    """Which value each of the (invs, domains, otypes) expressions holds when the path has p parts - at the lookup call
    (``stop`` = that call) or at the return statement reached (``stop`` = None: the decomposition lives in a helper)."""

    def __init__(self, fi: FunctionInfo, stop: ast.Call | None, tracked: set[str]):
        self.fi = fi
        self.call = stop
        self.role = {n: True for n in tracked if n not in fi.params}  # locals whose values are tracked
        cands = []
        for n in fi.local_nodes():
            if isinstance(n, ast.Name) and isinstance(n.ctx, ast.Store) and n.id not in cands:
                try:
                    d = _defs_of(fi, n.id)
                except Unsupported:
                    continue
                ps = _parts_split(d[0], fi) if len(d) == 1 else None
                if ps is not None:
                    cands.append(n.id)
                    self.path_text = unparse(ps[1])
                    self.split = ps
        if len(cands) > 1:
            raise Unsupported(f"{fi.qualname}: the list of href path parts was not identified ({cands})")
        self.P = cands[0] if cands else None
        if self.P is None:  # the split expression is used in place, without a local
            inplace = [n for n in fi.local_nodes() if isinstance(n, ast.Call) and _is_path_split(n, fi) and not (isinstance(n.func, ast.Name))]
            if not inplace:
                raise Unsupported(f"{fi.qualname}: the list of href path parts was not identified")
            self.split = _parts_split(inplace[0], fi)
            self.path_text = unparse(self.split[1])

    def _is_parts(self, e: ast.expr) -> bool:
        if isinstance(e, ast.Name):
            return self.P is not None and e.id == self.P
        return _is_path_split(e, self.fi)

    # -- expression evaluation under "the path has p parts"
    def _check_subscripts(self, e: ast.AST, p: int) -> None:
        for x in ast.walk(e):
            if isinstance(x, ast.Subscript) and self._is_parts(x.value) and isinstance(x.slice, ast.Constant) and type(x.slice.value) is int:
                i = x.slice.value
                if i >= p or i < -p:
                    raise _IndexErr()

    def _int(self, e: ast.expr, p: int):
        if isinstance(e, ast.Constant) and type(e.value) is int:
            return e.value
        if isinstance(e, ast.Call) and isinstance(e.func, ast.Name) and e.func.id == "len" and len(e.args) == 1 and self._is_parts(e.args[0]):
            return p + len(getattr(self, "_pad_now", []))
        if isinstance(e, ast.BinOp) and isinstance(e.op, (ast.Add, ast.Sub)):
            a, b = self._int(e.left, p), self._int(e.right, p)
            if a is None or b is None:
                return None
            return a + b if isinstance(e.op, ast.Add) else a - b
        if isinstance(e, ast.Call) and isinstance(e.func, ast.Name) and e.func.id in ("max", "min") and len(e.args) == 2:
            a, b = self._int(e.args[0], p), self._int(e.args[1], p)
            return None if a is None or b is None else (max if e.func.id == "max" else min)(a, b)
        return None

    def _tok(self, e: ast.expr, state: dict, p: int):
        if isinstance(e, ast.Constant) and e.value is None:
            return "NONE"
        if isinstance(e, ast.Constant) and e.value == "":
            return "EMPTY"
        if isinstance(e, ast.Subscript) and self._is_parts(e.value) and isinstance(e.slice, ast.Constant) and type(e.slice.value) is int:
            i = e.slice.value
            return ("PART", i if i >= 0 else p + i)
        if isinstance(e, ast.Name) and e.id in state:
            return state[e.id]
        inner = _or_none(e)
        if inner is not None:
            # `part or None` / `part if part else None`: a part that is left empty counts as omitted
            t = self._tok(inner, state, p)
            return (*t[:2], "opt") if isinstance(t, tuple) and t[0] == "PART" else ("NONE" if t in ("NONE", "EMPTY") else "OTHER")
        if isinstance(e, ast.IfExp):
            v = self._test(e.test, p)
            if v is not None:
                return self._tok(e.body if v else e.orelse, state, p)
        return "OTHER"

    def _seq(self, e: ast.expr, state: dict, p: int):
        if self._is_parts(e):
            return [("PART", i) for i in range(p)] + (list(state.get("__pad__", [])) if isinstance(e, ast.Name) else [])
        if isinstance(e, (ast.Tuple, ast.List)):
            out = []
            for x in e.elts:
                if isinstance(x, ast.Starred):
                    inner = self._seq(x.value, state, p)
                    if inner is None:
                        return None
                    out += inner
                else:
                    out.append(self._tok(x, state, p))
            return out
        if isinstance(e, ast.BinOp) and isinstance(e.op, ast.Add):
            a, b = self._seq(e.left, state, p), self._seq(e.right, state, p)
            return None if a is None or b is None else a + b
        if isinstance(e, ast.BinOp) and isinstance(e.op, ast.Mult):
            for sq, k in ((e.left, e.right), (e.right, e.left)):
                a, n = self._seq(sq, state, p), self._int(k, p)
                if a is not None and n is not None:
                    return a * max(0, n)
            return None
        if isinstance(e, ast.Subscript) and isinstance(e.slice, ast.Slice) and e.slice.step is None:
            a = self._seq(e.value, state, p)
            lo = 0 if e.slice.lower is None else self._int(e.slice.lower, p)
            hi = len(a) if (a is not None and e.slice.upper is None) else (self._int(e.slice.upper, p) if e.slice.upper is not None else None)
            if a is None or lo is None or hi is None:
                return None
            return a[lo:hi]
        if isinstance(e, ast.Call) and isinstance(e.func, ast.Name) and e.func.id in ("list", "tuple") and len(e.args) == 1 and not e.keywords:
            return self._seq(e.args[0], state, p)
        if isinstance(e, (ast.GeneratorExp, ast.ListComp)) and len(e.generators) == 1 and not e.generators[0].ifs and isinstance(e.generators[0].target, ast.Name):
            inner = self._seq(e.generators[0].iter, state, p)  # (part or None for part in <sequence>)
            if inner is None:
                return None
            var = e.generators[0].target.id
            return [self._tok(e.elt, {**state, var: tk}, p) for tk in inner]
        return None

    def _test(self, t: ast.expr, p: int):
        if unparse(t) == self.path_text:
            return True  # the case analysed is "a path with p >= 1 parts was given"
        if isinstance(t, ast.UnaryOp) and isinstance(t.op, ast.Not) and unparse(t.operand) == self.path_text:
            return False
        try:
            return _ev_len(t, {self.P: 0} if self.P is not None else {}, p)
        except Unsupported:
            return None

    # -- statements
    def _touches(self, st: ast.AST) -> bool:
        names = set(self.role) | ({self.P} if self.P is not None else set())
        return any(isinstance(x, ast.Name) and x.id in names for x in ast.walk(st)) or any(x is self.call for x in ast.walk(st))

    def _run(self, stmts, state: dict, p: int) -> None:
        for st in stmts:
            if isinstance(st, ast.AugAssign) and isinstance(st.op, ast.Add) and isinstance(st.target, ast.Name) and self.P is not None and st.target.id == self.P:
                pad = self._seq(st.value, state, p)  # parts += [""] * (3 - len(parts))
                if pad is None or any(tk not in ("EMPTY", "NONE") for tk in pad):
                    raise Unsupported(f"{self.fi.qualname}: `{short(st, 50)}` extends the list of path parts with something else than padding")
                state["__pad__"] = list(state.get("__pad__", [])) + pad
                continue
            if isinstance(st, (ast.Assign, ast.AnnAssign)):
                value = st.value
                targets = st.targets if isinstance(st, ast.Assign) else [st.target]
                if value is None:
                    continue
                if any(x is self.call for x in ast.walk(value)):
                    raise _Reached(dict(state))
                self._check_subscripts(value, p)
                for t in targets:
                    if isinstance(t, ast.Name):
                        if t.id in self.role:
                            state[t.id] = self._tok(value, state, p)
                    elif isinstance(t, (ast.Tuple, ast.List)):
                        rv = [e for e in t.elts if isinstance(e, ast.Name) and e.id in self.role]
                        if not rv:
                            continue
                        if any(isinstance(e, ast.Starred) for e in t.elts):
                            raise Unsupported(f"{self.fi.qualname}: star-unpacking into the filter variables")
                        seq = self._seq(value, state, p)
                        if seq is None:
                            raise Unsupported(f"{self.fi.qualname}: `{short(st, 60)}` - right-hand side not understood")
                        if len(seq) != len(t.elts):
                            raise _OtherErr()  # ValueError: wrong number of values to unpack
                        for e, v in zip(t.elts, seq):
                            if isinstance(e, ast.Name) and e.id in self.role:
                                state[e.id] = v
                continue
            if any(x is self.call for x in ast.walk(st)) and not isinstance(st, (ast.If, ast.With, ast.Try, ast.For, ast.While)):
                raise _Reached(dict(state))
            if isinstance(st, ast.Return):
                if self.call is None:
                    if st.value is not None:
                        self._check_subscripts(st.value, p)
                    raise _Reached(dict(state), st)
                raise _Stop()
            if isinstance(st, ast.With):
                sup = False
                for it in st.items:
                    c = it.context_expr
                    if isinstance(c, ast.Call) and (dotted(c.func) or "").rsplit(".", 1)[-1] == "suppress" and any((dotted(a) or "") in _CATCHES_INDEX for a in c.args):
                        sup = True
                if sup:
                    try:
                        self._run(st.body, state, p)
                    except _IndexErr:
                        pass
                else:
                    self._run(st.body, state, p)
                continue
            if isinstance(st, ast.Try):
                if not self._touches(st):
                    continue
                if st.finalbody:
                    raise Unsupported(f"{self.fi.qualname}: try/finally around the href parts")
                try:
                    self._run(st.body, state, p)
                except _IndexErr:
                    hs = [h for h in st.handlers if h.type is None or any((dotted(x) or "") in _CATCHES_INDEX for x in ([h.type] if not isinstance(h.type, ast.Tuple) else h.type.elts))]
                    if not hs:
                        raise
                    self._run(hs[0].body, state, p)
                else:
                    self._run(st.orelse, state, p)
                continue
            if isinstance(st, ast.If):
                self._check_subscripts(st.test, p)
                v = self._test(st.test, p)
                if v is None:
                    if not self._touches(st):
                        continue
                    raise Unsupported(f"{self.fi.qualname}: the href parts are assigned under `{short(st.test, 50)}`, which the number of parts does not decide")
                self._run(st.body if v else st.orelse, state, p)
                continue
            if isinstance(st, (ast.For, ast.While)):
                if self._touches(st):
                    raise Unsupported(f"{self.fi.qualname}: loop around the href parts")
                continue
            if isinstance(st, ast.Expr):
                self._check_subscripts(st, p)
                continue
            if self._touches(st) and not isinstance(st, (ast.Expr, ast.Pass)):
                if any(isinstance(x, ast.Name) and x.id in self.role and isinstance(x.ctx, ast.Store) for x in ast.walk(st)):
                    raise Unsupported(f"{self.fi.qualname}: `{short(st, 50)}` assigns a filter variable in an unknown way")

    def at_lookup(self, p: int):
        """('ok', state, node reached) | ('raises', None, None) | ('returns', None, None)"""
        state: dict = {}
        try:
            self._run(self.fi.node.body, state, p)
        except _Reached as r:
            return "ok", r.state, r.node
        except (_IndexErr, _OtherErr):
            return "raises", None, None
        except _Stop:
            return "returns", None, None
        raise Unsupported(f"{self.fi.qualname}: the inventory lookup was not reached by the abstract execution")


def _href_parts_check(corpus: Corpus, rep: Report) -> None:
    fi = corpus.func("mdit_to_docutils.base:DocutilsRenderer.render_link_inventory")
    g = get_callgraph(corpus)
    calls = _calls_to(fi, {"get_inventory_matches"})
    if len(calls) != 1:
        raise Unsupported(f"{fi.qualname}: {len(calls)} calls of get_inventory_matches")
    given = {kw.arg: kw.value for kw in calls[0].keywords if kw.arg in ("invs", "domains", "otypes")}
    if len(given) != 3:
        raise Unsupported(f"{fi.qualname}: the three path filters are not all handed on by keyword")
    order = ("invs", "domains", "otypes")
    helpers = [_helper_component(given[a], fi, (corpus, g)) for a in order]
    if all(h is None for h in helpers):
        # the decomposition is in render_link_inventory itself
        exprs = [given[a] for a in order]
        if not all(isinstance(e, ast.Name) and e.id not in fi.params for e in exprs) or len({e.id for e in exprs}) != 3:
            raise Unsupported(f"{fi.qualname}: the three path filters are not handed on as three distinct locals")
        where, hp = fi, HrefParts(fi, calls[0], {e.id for e in exprs})
        comps_at = lambda node: exprs  # noqa: E731
    elif all(h is not None for h in helpers) and len({h[0].fq for h in helpers}) == 1 and len({id(h[2]) for h in helpers}) == 1:
        # the decomposition moved into a helper whose result (tuple / NamedTuple / dataclass) is taken apart here
        tf = helpers[0][0]
        rets = dict((id(r), c) for r, c in _return_components(corpus, tf))
        sels = [h[1] for h in helpers]
        tracked = {x.id for c in rets.values() for sel in sels if sel in c for x in ast.walk(c[sel]) if isinstance(x, ast.Name)}
        where, hp = tf, HrefParts(tf, None, tracked)

        def comps_at(node):
            c = rets[id(node)]
            if any(sel not in c for sel in sels):
                raise Unsupported(f"{tf.qualname}: returned value lacks component(s) {sels}")
            return [c[sel] for sel in sels]
    else:
        raise Unsupported(f"{fi.qualname}: the three path filters come from different places")
    _href_shape_check(rep, fi, where, hp, calls[0], (corpus, g))
    label = ("inventory", "domain", "object type")
    raw_empty: dict[int, tuple] = {}
    for p in (1, 2, 3):
        k = f"{fi.fq}|inv: path with {p} part(s): every given part reaches its filter"
        status, state, node = hp.at_lookup(p)
        if status != "ok":
            rep.violation("C19.R4", k, fi.module.site(calls[0]), f"with {p} ':'-separated path part(s) {where.qualname} {status} before the inventory lookup")
            continue
        problems = []
        exprs_p = comps_at(node)
        for i in range(3):
            name = unparse(exprs_p[i])
            got = hp._tok(exprs_p[i], state, p) if not (isinstance(exprs_p[i], ast.Name) and exprs_p[i].id not in state) else "UNBOUND"
            want = ("PART", i) if i < p else "NONE"
            if isinstance(got, tuple) and got[0] == "PART":
                if got[:2] == want and len(got) < 3:
                    raw_empty.setdefault(i, (name, node))
                got = got[:2]
            if got == want:
                continue
            if got in ("OTHER", "UNBOUND") or (isinstance(got, tuple) and got[0] != "PART"):
                raise Unsupported(f"{where.qualname}: value of `{name}` for a path with {p} part(s) not understood ({got})")
            if got == "NONE":
                problems.append(f"the {label[i]} part (part {i + 1}) is given but `{name}` is still None at the lookup: the filter is silently dropped")
            elif want == "NONE":
                problems.append(f"`{name}` holds part {got[1] + 1} although no {label[i]} part was given")
            else:
                problems.append(f"`{name}` holds part {got[1] + 1} instead of part {i + 1}")
        if problems:
            rep.violation("C19.R4", k, where.module.site(node) if node is not None else fi.module.site(calls[0]), f"href `inv:{':'.join('abc'[:p])}#t`: " + "; ".join(problems) + " (an IndexError raised while evaluating a later part discards the bindings evaluated in the same statement / skips the following ones)")
        else:
            rep.ok("C19.R4", k, fi.module.site(calls[0]))
    # key, domain and type are each optional: a part that is left empty (`inv::std:label#t`) is an omitted filter (None),
    # not the pattern '' - which matches no inventory key, domain or type
    k = f"{fi.fq}|a path part that is left empty counts as omitted"
    lacking: list = []
    n_impl = 1
    if raw_empty:
        # not normalised where the destination is taken apart: then every implementation of the lookup must do it
        # before it hands the part to its filter function (the Sphinx renderer overrides the lookup)
        base_ci = corpus.cls("mdit_to_docutils.base:DocutilsRenderer")
        n_impl = len(corpus.method_impls(base_ci, "get_inventory_matches"))
        for impl in corpus.method_impls(base_ci, "get_inventory_matches"):
            fcalls = _calls_to(impl, {"filter_inventories", "filter_sphinx_inventories"})
            if len(fcalls) != 1:
                raise Unsupported(f"{impl.qualname}: {len(fcalls)} filter calls")
            kwv = {kw.arg: kw.value for kw in fcalls[0].keywords}
            for i in sorted(raw_empty):
                v_ = kwv.get(("invs", "domains", "otypes")[i])
                if v_ is None or _or_none(v_) is None:
                    lacking.append((impl, i, fcalls[0]))
        if not lacking:
            raw_empty = {}
            rep.note(f"C19.R4: the empty-part normalisation is done in every get_inventory_matches implementation, not in {where.qualname}")
    if raw_empty and lacking and len(lacking) < len(raw_empty) * n_impl:
        impl, i, c_ = lacking[0]
        rep.violation("C19.R4", k, impl.module.site(c_), f"the empty-part normalisation was moved into the lookup, but {impl.qualname} hands `{('invs', 'domains', 'otypes')[i]}` on as it is: "
                      f"under that renderer `<inv::std:label#foo>` passes the pattern '' for the {label[i]} and reports \"No matches\" although the part is optional")
    elif raw_empty:
        names = ", ".join(f"`{raw_empty[i][0]}` ({label[i]})" for i in sorted(raw_empty))
        nd = raw_empty[min(raw_empty)][1]
        rep.violation("C19.R4", k, where.module.site(nd) if nd is not None else fi.module.site(calls[0]), f"{names} receive(s) the path part as it is: for `<inv::std:label#foo>` / `<inv:key::label#foo>` the empty part is handed on as the pattern '', "
                      "which no inventory key / domain / type matches, so the link reports \"No matches\" although the part is documented as optional")
    else:
        rep.ok("C19.R4", k, fi.module.site(calls[0]))


def _href_shape_check(rep: Report, fi: FunctionInfo, where: FunctionInfo, hp: "HrefParts", lookup: ast.Call, ctx) -> None:
    """How the destination `inv:<invs>:<domains>:<otypes>#<target>` is taken apart (in ``where``: the function itself or its helper)."""
    split_call, path_expr, canon = hp.split
    # (1) literally, not as a URL: urlparse splits `?query` / `;params` off the path, drops tab/CR/LF, may raise
    k = f"{fi.fq}|the destination is split literally, not parsed as a URL"
    how = _path_string(path_expr, where)
    if how is None:
        raise Unsupported(f"{where.qualname}: origin of the path string `{short(path_expr, 40)}` not understood")
    if how[0] == "urlparse":
        rep.violation("C19.R4", k, where.module.site(split_call), f"the path of the inv: link is taken from urlparse(): a `?` (or `;`) in the inventory, domain or type part starts a query that is then ignored, "
                      "so `<inv:k:std?:x#index>` is filtered as `k:std` with the type dropped and an inventory keyed `what?` cannot be addressed")
    else:
        rep.ok("C19.R4", k, where.module.site(split_call))
    # (1b) `inv:<path>#<target>`: the target (the name pattern) is everything after the FIRST '#'. Entry names contain '#'
    #      (`faq#install`), the path (key:domain:type) does not; cutting at the last '#' moves the head of the name into the
    #      type / inventory pattern, so the entry that matches all four coordinates in full is reported as missing
    k = f"{fi.fq}|the name pattern of the link is everything after the first '#' of the destination"
    cuts: list[tuple[FunctionInfo, ast.Call]] = []
    if how[0] == "literal":
        pc = _hash_cut(path_expr, where)
        if pc is None:
            raise Unsupported(f"{where.qualname}: the '#' cut behind the path string `{short(path_expr, 40)}` was not found")
        cuts.append((where, pc))
    tvals = [kw.value for kw in lookup.keywords if kw.arg in ("target", "targets")]
    if len(tvals) != 1:
        raise Unsupported(f"{fi.qualname}: the name pattern is not handed to the lookup by one keyword")
    hc_ = _helper_component(tvals[0], fi, ctx)
    if hc_ is not None:
        tsrc = []
        for _r, comps in _return_components(ctx[0], hc_[0]):
            if hc_[1] not in comps:
                raise Unsupported(f"{hc_[0].qualname}: returned value lacks component {hc_[1]}")
            tsrc.append((hc_[0], comps[hc_[1]]))
    else:
        tsrc = [(fi, tvals[0])]
    for f_, e_ in tsrc:
        tc = _hash_cut(e_, f_)
        if tc is not None:
            if all(tc is not c_ for _f, c_ in cuts):
                cuts.append((f_, tc))
        elif _target_string(_or_none(e_) or e_, f_) is None and not (isinstance(e_, ast.Constant) and e_.value is None):
            raise Unsupported(f"{f_.qualname}: origin of the name pattern `{short(e_, 40)}` not understood")
    last = [(f_, c_) for f_, c_ in cuts if c_.func.attr != "partition"]
    if last:
        f_, c_ = last[0]
        rep.violation("C19.R4", k, f_.module.site(c_), f"`{short(c_, 50)}` cuts the destination at the LAST '#': `<inv:key:std:label#faq#install>` filters for type `label#faq` and name `install` "
                      "(and `<inv:#faq#install>` for inventory `#faq`), so the entry named `faq#install` - which matches all four coordinates in full - is reported as \"No matches\" and no reference is rendered")
    else:
        rep.ok("C19.R4", k, cuts[0][0].module.site(cuts[0][1]) if cuts else where.module.site(split_call), "urlparse" if not cuts else "partition('#')")
    # (2) the object type is the remainder of the path (types contain ':', e.g. rst:directive:option)
    k = f"{fi.fq}|the object type is everything after the second ':' of the path"
    if canon == "remainder":
        rep.ok("C19.R4", k, where.module.site(split_call))
    else:
        rep.violation("C19.R4", k, where.module.site(split_call), f"`{short(split_call, 40)}` cuts the path at every ':' and only three parts are used: `<inv:k:rst:directive:option#t>` filters for type `directive` "
                      "(the entry of type `directive:option` is not found) and `<inv:k:std:label:nonsense#t>` silently ignores `:nonsense`, while the inventory defines the type as everything after the first ':' of `domain:type`")
    # (3) a literal '%' of the source must reach the filter: markdown-it leaves '%25' encoded in normalizeLinkText
    k = f"{fi.fq}|a literal % of the destination reaches the filter"
    root, f = how[1], where

    def normalised_in(fn: FunctionInfo, name: str) -> bool:
        try:
            return any(isinstance(x, ast.Call) and (dotted(x.func) or "").endswith("normalizeLinkText") for d_ in _defs_of(fn, name) for x in ast.walk(d_))
        except Unsupported:
            return False

    if where.fq != fi.fq and isinstance(root, ast.Name) and root.id in where.params and not normalised_in(where, root.id):
        # the helper receives the destination: continue at the call site
        hc = [c for c in fi.local_nodes() if isinstance(c, ast.Call) and _callee(c, fi, ctx[1]) is not None and _callee(c, fi, ctx[1]).fq == where.fq]
        if len(hc) != 1 or root.id not in _arg_map(hc[0], where):
            raise Unsupported(f"{fi.qualname}: the call that hands the destination to {where.qualname} was not found")
        root, f = _arg_map(hc[0], where)[root.id], fi
    if not isinstance(root, ast.Name):
        raise Unsupported(f"{f.qualname}: the destination string `{short(root, 40) if root is not None else None}` is not a local")
    defs = _defs_of(f, root.id)
    normalised = [d for d in defs if any(isinstance(x, ast.Call) and (dotted(x.func) or "").endswith("normalizeLinkText") for x in ast.walk(d))]
    decoded = [d for d in defs if any(isinstance(x, ast.Call) and isinstance(x.func, ast.Attribute) and x.func.attr == "replace" and len(x.args) == 2 and all(isinstance(a, ast.Constant) for a in x.args) and (x.args[0].value, x.args[1].value) == ("%25", "%") for x in ast.walk(d))]
    if not normalised:
        raise Unsupported(f"{f.qualname}: `{root.id}` does not come from normalizeLinkText; whether percent-escapes are undone is not modelled")
    # (4) the destination is the token's href, which markdown-it has already passed through normalizeLink at parse time:
    #     mdurl.parse/format reads the text after `inv:` as [auth@]host[:port] and re-emits it in that order
    k4 = f"{fi.fq}|the destination has not been through markdown-it's URL normalisation (mdurl parse/format)"
    srcs = list(defs)
    if f.fq != fi.fq or where.fq == fi.fq:
        pass
    if where.fq != fi.fq:
        srcs += [a for c in fi.local_nodes() if isinstance(c, ast.Call) and _callee(c, fi, ctx[1]) is not None and _callee(c, fi, ctx[1]).fq == where.fq for a in c.args]
    from_token = any(isinstance(x, ast.Call) and isinstance(x.func, ast.Attribute) and x.func.attr == "attrGet" and x.args and isinstance(x.args[0], ast.Constant) and x.args[0].value == "href" for d_ in srcs for x in ast.walk(d_))
    if not from_token:
        raise Unsupported(f"{f.qualname}: the destination `{root.id}` is not traced to the link token's href attribute")
    sib = ctx[0].sibling("markdown_it/common/normalize_url.py")
    rep.saw_sibling(sib.rel)
    nl = sib.functions.get("normalizeLink")
    if nl is None:
        raise AnchorMissing("markdown_it.common.normalize_url.normalizeLink")
    called = {sib.resolve(dotted(c.func) or "") for c in nl.local_nodes() if isinstance(c, ast.Call)}
    reparses = {"mdurl.parse", "mdurl.format"} <= called
    overridden = [n for m_ in ctx[0].modules.values() for n in ast.walk(m_.tree) if isinstance(n, ast.Assign) and any(isinstance(t_, ast.Attribute) and t_.attr == "normalizeLink" for t_ in n.targets)]
    if not reparses:
        rep.ok("C19.R4", k4, f.module.site(normalised[0]), "the installed markdown-it does not re-format destinations")
    elif overridden:
        rep.ok("C19.R4", k4, overridden[0]._mod.site(overridden[0]), "normalizeLink is replaced for the parser")
    else:
        rep.violation("C19.R4", k4, f.module.site(normalised[0]), "the destination is read from the link token's href, which MarkdownIt.normalizeLink (never replaced by myst_parser) has re-formatted with mdurl.parse/format as scheme:[auth@]host[:port]: "
                      "`<inv:key:iso:9001#clause-4>` reaches the filter as key:9001:iso:clause-4 (a trailing all-digit part is moved behind the first part as a port), `<inv:@k2:std:label#foo>` as k2:std:label:foo (a leading '@' is dropped), a bare trailing ':' is dropped")
    if decoded:
        rep.ok("C19.R4", k, f.module.site(decoded[0]))
    else:
        rep.violation("C19.R4", k, f.module.site(normalised[0]), f"`{root.id}` is un-escaped with normalizeLinkText only, which deliberately leaves `%25` encoded, and markdown-it encodes a bare `%` of the source as `%25`: "
                      "`<inv:#100%>` filters for the name `100%25` and never finds the entry `100%`")


# ---- base URL of a registered inventory


def _base_url_check(corpus: Corpus, rep: Report) -> None:
    fi = corpus.func("mdit_to_docutils.base:DocutilsRenderer.get_inventory_matches")
    loops = [n for n in fi.local_nodes() if isinstance(n, ast.For) and isinstance(n.iter, ast.Call) and isinstance(n.iter.func, ast.Attribute) and n.iter.func.attr == "items" and (dotted(n.iter.func.value) or "").endswith("md_config.inventories")]
    if len(loops) != 1:
        raise Unsupported(f"{fi.qualname}: loop over md_config.inventories.items() not found")
    t = loops[0].target
    # config layout: key -> (base uri, optional path)
    if not (isinstance(t, ast.Tuple) and len(t.elts) == 2 and isinstance(t.elts[0], ast.Name) and isinstance(t.elts[1], ast.Tuple) and len(t.elts[1].elts) == 2 and all(isinstance(e, ast.Name) for e in t.elts[1].elts)):
        raise Unsupported(f"{fi.qualname}: loop target `{short(t, 40)}` is not `key, (uri, path)`")
    key, uri = t.elts[0].id, t.elts[1].elts[0].id
    stores = [n for n in fi.local_nodes() if isinstance(n, ast.Assign) and len(n.targets) == 1 and isinstance(n.targets[0], ast.Subscript) and (dotted(n.targets[0].value) or "") == "self._inventories" and loops[0] in ancestors(n)]
    if not stores:
        raise Unsupported(f"{fi.qualname}: no store into self._inventories inside the loop")
    k = f"{fi.fq}|the inventory stored for a configuration key carries that entry's base URL"

    def is_fetch(e):
        return isinstance(e, ast.Call) and (dotted(e.func) or "").rsplit(".", 1)[-1] == "fetch_inventory"

    def resolved(v: ast.expr) -> ast.expr:
        if isinstance(v, ast.Name):
            d = _defs_of(fi, v.id)
            if len(d) != 1:
                raise Unsupported(f"{fi.qualname}: {v.id} has {len(d)} definitions")
            return d[0]
        return v

    def fetch_problem(c: ast.Call) -> str | None:
        b = kwarg(c, "base_url")
        if b is None:
            return f"`{short(c, 60)}` passes no base_url: relative locations are rendered without the inventory's base URL"
        if isinstance(b, ast.Name) and b.id == uri:
            return None
        return f"`{short(c, 60)}` passes base_url=`{short(b, 30)}`, not the entry's base URL `{uri}`"

    problems: list[tuple[ast.AST, str]] = []
    for st in stores:
        if not (isinstance(st.targets[0].slice, ast.Name) and st.targets[0].slice.id == key):
            raise Unsupported(f"{fi.qualname}: `{short(st, 50)}` is not keyed by the configuration key")
        v = resolved(st.value)
        problem = None
        if is_fetch(v):
            problem = fetch_problem(v)
        else:
            memo_key = None
            memo_calls: list[ast.Call] = []
            if isinstance(v, ast.Subscript):  # C[k], filled elsewhere by C[k] = fetch(...) (or = None for a failed load)
                cont = unparse(v.value)
                for n in fi.local_nodes():
                    if isinstance(n, ast.Assign) and len(n.targets) == 1 and isinstance(n.targets[0], ast.Subscript) and unparse(n.targets[0].value) == cont:
                        fv = resolved(n.value)
                        if isinstance(fv, ast.Constant) and fv.value is None:
                            continue
                        if not is_fetch(fv) or unparse(n.targets[0].slice) != unparse(v.slice):
                            raise Unsupported(f"{fi.qualname}: memo `{cont}` is filled by `{short(n, 50)}`, which is not the fetch under the key that is looked up")
                        memo_calls.append(fv)
                memo_key = v.slice
            elif isinstance(v, ast.Call) and isinstance(v.func, ast.Attribute) and v.func.attr == "setdefault" and len(v.args) == 2 and is_fetch(v.args[1]):
                memo_key, memo_calls = v.args[0], [v.args[1]]
            if not memo_calls:
                raise Unsupported(f"{fi.qualname}: the stored inventory comes from `{short(v, 50)}`, not from fetch_inventory")
            for mc in memo_calls:
                problem = problem or fetch_problem(mc)
            if problem is None:
                comps = memo_key.elts if isinstance(memo_key, ast.Tuple) else [memo_key]
                if not any(isinstance(c, ast.Name) and c.id == uri for c in comps):
                    problem = (f"the loaded inventory is memoised under `{short(memo_key, 40)}`, which does not contain the base URL `{uri}` that was baked into it: "
                               "a second configuration entry (or a later parse) reading the same location with another base URL gets the first entry's base_url, and refuri is joined to the wrong base")
        if problem is not None:
            problems.append((st, problem))
    if not problems:
        rep.ok("C19.R4", k, fi.module.site(stores[0]), f"{len(stores)} store(s)")
    else:
        rep.violation("C19.R4", k, fi.module.site(problems[0][0]), problems[0][1])
    # which inventories are registered (and in which order) must not depend on the link being resolved:
    # filter_inventories walks self._inventories in insertion order, and "the first match" is the first in that order
    k = f"{fi.fq}|every configured inventory is registered in configuration order, whatever the link asks for"
    cfg = get_cfg(fi)
    fparams = [p_ for p_ in fi.params if p_ in FILTER_ROLE]
    dep = None
    for st in stores:
        for t, pol in cfg.guards(st):
            if _mentions(t, fparams):
                dep = (st, t)
    if dep is not None:
        rep.violation("C19.R4", k, fi.module.site(dep[1]), f"`{short(dep[0], 50)}` only happens under `{short(dep[1], 60)}`, a test of the link's own filter: inventories are fetched and inserted into self._inventories in link-encounter order, "
                      "so the order in which filter_inventories yields matches (and the entry an ambiguous inv: link is rendered to) depends on which links came earlier instead of on the configured inventory order")
    else:
        rep.ok("C19.R4", k, fi.module.site(loops[0]))


def _inventory_cache_reset_check(corpus: Corpus, rep: Report) -> None:
    """`self._inventories` is filled lazily from `self.md_config.inventories` (key -> (uri, path)); wherever the renderer
    takes a (possibly different) configuration, the loaded inventories must be dropped - unconditionally, or under a test
    of the whole `inventories` setting, not merely of its keys (the same key may point at another uri / path)."""
    ci = corpus.cls("mdit_to_docutils.base:DocutilsRenderer")
    takers = [f for f in ci.methods.values() if any(isinstance(n, (ast.Assign, ast.AnnAssign)) and (dotted(n.targets[0] if isinstance(n, ast.Assign) else n.target) or "") == "self.md_config" for n in f.local_nodes())]
    if not takers:
        raise Unsupported("DocutilsRenderer: no method assigns self.md_config")
    for f in takers:
        k = f"{f.fq}|the loaded inventories are dropped when the renderer takes a configuration"
        cfg = get_cfg(f)
        resets = [n for n in f.local_nodes() if isinstance(n, (ast.Assign, ast.AnnAssign)) and (dotted(n.targets[0] if isinstance(n, ast.Assign) else n.target) or "") == "self._inventories" and isinstance(n.value, ast.Constant) and n.value.value is None]
        others = [n for n in f.local_nodes() if isinstance(n, (ast.Assign, ast.AnnAssign)) and (dotted(n.targets[0] if isinstance(n, ast.Assign) else n.target) or "") == "self._inventories" and n not in resets]
        if others:
            raise Unsupported(f"{f.qualname}: self._inventories is assigned `{short(others[0], 50)}`")
        if not resets:
            if f.name == "__init__":
                continue
            rep.violation("C19.R4", k, f.site(), f"{f.qualname} installs a new md_config but keeps self._inventories: a reused renderer resolves inv: links against the inventories (and base URLs) of the previous configuration")
            continue
        always = cfg.counts(ENTRY, [EXIT], lambda x: 1 if x in resets else 0).get(EXIT) or set()
        if 0 not in always:
            rep.ok("C19.R4", k, f.module.site(resets[0]))
            continue
        # conditional reset: the condition must compare the inventories setting as a whole
        verdict = None
        for r in resets:
            for t, pol in cfg.guards(r):
                if not any(isinstance(x, ast.Attribute) and x.attr == "inventories" for x in ast.walk(t)):
                    continue
                keys_only = [x for x in ast.walk(t) if (isinstance(x, ast.Call) and isinstance(x.func, ast.Name) and x.func.id in ("set", "frozenset", "sorted", "list", "tuple", "len") and x.args and any(isinstance(y, ast.Attribute) and y.attr == "inventories" for y in ast.walk(x.args[0])))
                             or (isinstance(x, ast.Call) and isinstance(x.func, ast.Attribute) and x.func.attr == "keys" and isinstance(x.func.value, ast.Attribute) and x.func.value.attr == "inventories")]
                if keys_only:
                    verdict = (t, f"the loaded inventories are only dropped under `{short(t, 70)}`, which compares the KEYS of the inventories setting: a configuration that keeps a key but points it at another uri / path "
                                  "keeps the inventory (and base URL) loaded for the old one, so inv: links are rendered against the wrong inventory")
                elif verdict is None:
                    verdict = (t, None)
        if verdict is None:
            raise Unsupported(f"{f.qualname}: self._inventories is reset on some paths only, under a condition that is not a test of the inventories setting")
        if verdict[1] is None:
            rep.ok("C19.R4", k, f.module.site(verdict[0]), "reset under a comparison of the whole inventories setting")
        else:
            rep.violation("C19.R4", k, f.module.site(verdict[0]), verdict[1])


def _base_url_chain_check(corpus: Corpus, rep: Report) -> None:
    """inventory module: a function that receives `base_url` hands it on unchanged to every package callee that takes one,
    and the InventoryType literal it builds carries it (fetch_inventory -> load -> _load_v1/_load_v2 -> {'base_url': ...})."""
    g = get_callgraph(corpus)
    m = corpus.mod("inventory")
    n_inst = 0
    for f in m.functions.values():
        if f.is_lambda or "base_url" not in f.params:
            continue
        if _defs_of(f, "base_url"):
            raise Unsupported(f"{f.qualname}: base_url is re-assigned")
        for c in f.local_nodes():
            if not isinstance(c, ast.Call):
                continue
            tf = _callee(c, f, g)
            if tf is None or tf.fq == f.fq or "base_url" not in tf.params:
                continue
            n_inst += 1
            k = f"{f.fq}|base_url is handed on to {tf.name}"
            a = _arg_map(c, tf).get("base_url")
            if isinstance(a, ast.Name) and a.id == "base_url":
                rep.ok("C19.R4", k, f.module.site(c))
            elif a is None or isinstance(a, ast.Constant):
                rep.violation("C19.R4", k, f.module.site(c), f"`{short(c, 60)}` does not hand the base URL on to {tf.name} ({'its default' if a is None else unparse(a)} is used): "
                              "inventories loaded through this path get base_url=None and an inv: link is rendered with the bare relative location instead of base URL + location")
            else:
                raise Unsupported(f"{f.qualname}: `{short(c, 60)}` passes base_url=`{short(a, 30)}`")
        for d in f.local_nodes():
            if isinstance(d, ast.Dict) and any(isinstance(kk, ast.Constant) and kk.value == "base_url" for kk in d.keys) and any(isinstance(kk, ast.Constant) and kk.value == "objects" for kk in d.keys):
                n_inst += 1
                k = f"{f.fq}|InventoryType.base_url is the base_url parameter"
                v = [vv for kk, vv in zip(d.keys, d.values) if isinstance(kk, ast.Constant) and kk.value == "base_url"][0]
                if isinstance(v, ast.Name) and v.id == "base_url":
                    rep.ok("C19.R4", k, f.module.site(d))
                elif isinstance(v, ast.Constant):
                    rep.violation("C19.R4", k, f.module.site(v), f"the inventory built by {f.name} gets base_url={unparse(v)} although the caller supplied one: inv: links into it lose their base URL")
                else:
                    raise Unsupported(f"{f.qualname}: InventoryType base_url = `{short(v, 30)}`")
    if n_inst < 4:
        raise Unsupported(f"base_url chain in myst_parser.inventory: only {n_inst} hand-over point(s) found (fetch_inventory -> load -> loaders expected)")


def _order_breakers(e: ast.expr, fi: FunctionInfo, depth: int = 0) -> list[tuple[str, ast.AST]]:
    """Calls that re-order / de-duplicate the sequence of matches on its way from the filter call to ``e``."""
    if depth > 5:
        raise Unsupported(f"{fi.qualname}: returned matches defined through too many locals")
    if isinstance(e, ast.Name):
        if e.id in fi.params:
            return []
        out: list[tuple[str, ast.AST]] = []
        for n in fi.local_nodes():  # in-place re-ordering of the local
            if isinstance(n, ast.Call) and isinstance(n.func, ast.Attribute) and isinstance(n.func.value, ast.Name) and n.func.value.id == e.id and n.func.attr in ("sort", "reverse"):
                out.append((f".{n.func.attr}()", n))
        defs = _defs_of(fi, e.id)
        if not defs:
            raise Unsupported(f"{fi.qualname}: returned name {e.id} has no definition")
        for d in defs:
            out += _order_breakers(d, fi, depth + 1)
        return out
    if isinstance(e, ast.Call):
        name = (dotted(e.func) or "").rsplit(".", 1)[-1]
        if isinstance(e.func, ast.Name) and e.func.id in ORDER_BREAKERS and e.args:
            return [(e.func.id, e)] + _order_breakers(e.args[0], fi, depth + 1)
        if isinstance(e.func, ast.Name) and e.func.id in ("list", "tuple", "iter") and len(e.args) == 1:
            return _order_breakers(e.args[0], fi, depth + 1)
        if name in ("filter_inventories", "filter_sphinx_inventories"):
            return []
        if isinstance(e.func, ast.Attribute) and e.func.attr in ("copy",) and not e.args:
            return _order_breakers(e.func.value, fi, depth + 1)
    if isinstance(e, (ast.ListComp, ast.GeneratorExp)) and len(e.generators) == 1:
        return _order_breakers(e.generators[0].iter, fi, depth + 1)  # filtering / mapping keeps the order
    if isinstance(e, ast.Subscript) and isinstance(e.slice, ast.Slice) and e.slice.step is None:
        return _order_breakers(e.value, fi, depth + 1)
    raise Unsupported(f"{fi.qualname}: returned matches come from `{short(e, 50)}`, which is not traced to a filter call")


LINK_FUNCS = [
    # (function, emits IREF_MISSING for 0 matches?, representation)
    ("mdit_to_docutils.base:DocutilsRenderer.render_link_inventory", True, "native"),
    ("sphinx_ext.myst_refs:MystReferenceResolver._resolve_myst_ref_intersphinx", False, "sphinx"),
]


def _match_list_var(fi: FunctionInfo) -> str:
    cands = []
    for n in fi.local_nodes():
        if isinstance(n, ast.Assign) and len(n.targets) == 1 and isinstance(n.targets[0], ast.Name):
            if any(isinstance(c, ast.Call) and (dotted(c.func) or "").rsplit(".", 1)[-1] in ("get_inventory_matches", "filter_inventories", "filter_sphinx_inventories") for c in ast.walk(n.value)):
                cands.append(n.targets[0].id)
    if len(cands) != 1:
        raise Unsupported(f"{fi.qualname}: match list variable not identified ({cands})")
    if len(_defs_of(fi, cands[0])) != 1:
        raise Unsupported(f"{fi.qualname}: {cands[0]} is assigned more than once")
    return cands[0]


@rule("C19.R4")
def r4_link_paths(corpus: Corpus, rep: Report, tier: str):
    rep.rule("C19.R4", "callers hand each filter on under its own role; inv: link: 0 matches -> one IREF_MISSING and no reference, >1 -> one IREF_AMBIGUOUS, first match, refuri = join(base_url, loc) if base_url else loc")
    # (a) pass-through of the four filters
    for fq, callees, kws in PASS_THROUGH:
        fi = corpus.func(fq)
        rep.saw_function(fi.fq)
        calls = _calls_to(fi, callees)
        if len(calls) != 1:
            raise Unsupported(f"{fi.qualname}: {len(calls)} calls of {sorted(callees)}")
        call = calls[0]
        rep.saw_call(fi.module.site(call))
        if len(call.args) > 1 or any(k.arg is None for k in call.keywords):
            raise Unsupported(f"{fi.qualname}: `{short(call, 50)}` passes filters positionally / by **kwargs")
        for kw in call.keywords:
            if kw.arg not in FILTER_ROLE:
                continue
            k = f"{fi.fq}|{'/'.join(sorted(callees))}({kw.arg}=)"
            want = FILTER_ROLE[kw.arg]
            role = _value_role(kw.value, fi, (corpus, get_callgraph(corpus)))
            if role is None:
                raise Unsupported(f"{fi.qualname}: filter argument {kw.arg}=`{short(kw.value, 40)}` not traced to a role")
            if role == want or role == "NONE":
                rep.ok("C19.R4", k, fi.module.site(kw.value), f"{role}")
            else:
                rep.violation("C19.R4", k, fi.module.site(kw.value), f"`{kw.arg}={short(kw.value, 40)}` hands the {role} part on as the {want} filter")
        missing = kws - {kw.arg for kw in call.keywords}
        for m in sorted(missing):
            rep.violation("C19.R4", f"{fi.fq}|{'/'.join(sorted(callees))}({m}=)", fi.module.site(call), f"the {FILTER_ROLE[m]} filter is not handed on: it is silently ignored")
    # (a0) both front ends' get_inventory_matches return the filter results in the filter's (inventory) order
    base_ci = corpus.cls("mdit_to_docutils.base:DocutilsRenderer")
    for impl in corpus.method_impls(base_ci, "get_inventory_matches"):
        rep.saw_function(impl.fq)
        k = f"{impl.fq}|matches are returned in inventory order"
        rets = [n for n in impl.local_nodes() if isinstance(n, ast.Return) and n.value is not None]
        if not rets:
            raise Unsupported(f"{impl.qualname}: no return value")
        bad = []
        for r in rets:
            bad += _order_breakers(r.value, impl)
        if bad:
            rep.violation("C19.R4", k, impl.module.site(bad[0][1]), f"`{short(bad[0][1], 60)}`: the matches are re-ordered with `{bad[0][0]}` before they are returned, so the entry an inv: link is rendered to (matches[0]) is no longer the first match in inventory order" + (" - and differs between the docutils and the Sphinx front end" if len(corpus.method_impls(base_ci, "get_inventory_matches")) > 1 else ""))
        else:
            rep.ok("C19.R4", k, impl.site())
    # (a') each given href part reaches its filter (flow-sensitive, per number of path parts)
    _href_parts_check(corpus, rep)
    # (a'') the inventory registered under a configuration key carries that entry's base URL
    _base_url_check(corpus, rep)
    _base_url_chain_check(corpus, rep)
    _inventory_cache_reset_check(corpus, rep)
    # (b) match-count paths
    g = get_callgraph(corpus)
    for fq, has_missing, rk in LINK_FUNCS:
        fi = corpus.func(fq)
        cfg = get_cfg(fi)
        m = _match_list_var(fi)
        # the list must not be reordered / mutated
        for n in fi.local_nodes():
            if isinstance(n, ast.Call) and isinstance(n.func, ast.Attribute) and isinstance(n.func.value, ast.Name) and n.func.value.id == m:
                raise Unsupported(f"{fi.qualname}: `{short(n, 40)}` - method call on the match list")
        mdef = _defs_of(fi, m)[0]
        k = f"{fi.fq}|match list keeps inventory order"
        wrappers = [c.func.id for c in ast.walk(mdef) if isinstance(c, ast.Call) and isinstance(c.func, ast.Name) and c.func.id in ORDER_BREAKERS]
        if wrappers:
            rep.violation("C19.R4", k, fi.module.site(mdef), f"the match list is built with `{wrappers[0]}`: the first entry is no longer the first in inventory order")
        else:
            rep.ok("C19.R4", k, fi.module.site(mdef))

        def emits(tag: str):
            return lambda f: [c for c in f.local_nodes() if isinstance(c, ast.Call) and any((dotted(x) or "").endswith(f"MystWarnings.{tag}") for x in [*c.args, *[kw.value for kw in c.keywords]])]

        def builds_reference(f: FunctionInfo):
            return [c for c in f.local_nodes() if isinstance(c, ast.Call) and f.module.resolve(dotted(c.func) or "") == "docutils.nodes.reference"]

        def ev_calls(direct_in, what: str):
            """Event sites in this function: direct ones, plus calls of a package helper that produces the event
            exactly once on every one of its paths (code moved into a helper is followed one level)."""
            out = list(direct_in(fi))
            for c in fi.local_nodes():
                if not isinstance(c, ast.Call):
                    continue
                for tf in g.flat_targets(g.resolve_call(c, fi)):
                    if tf.fq == fi.fq or tf.is_lambda or not direct_in(tf):
                        continue
                    if "get_inventory_matches" in tf.qualname:
                        continue  # the lookup itself (its load-failure warnings are not link events)
                    tcfg = get_cfg(tf)
                    ws: dict[object, int] = {}
                    for e in direct_in(tf):
                        ws[tcfg.stmt_of(e)] = ws.get(tcfg.stmt_of(e), 0) + 1
                    cnt = tcfg.counts(ENTRY, [EXIT], lambda x: ws.get(x, 0) if not isinstance(x, (tuple, str)) else 0).get(EXIT) or set()
                    if len(cnt) != 1:
                        raise Unsupported(f"{fi.qualname}: {what} is produced by helper {tf.qualname} on some paths only; not modelled")
                    out += [c] * cnt.pop()  # once per production (2 stands for "two or more")
            return out

        miss, amb = ev_calls(emits("IREF_MISSING"), "IREF_MISSING"), ev_calls(emits("IREF_AMBIGUOUS"), "IREF_AMBIGUOUS")

        def weight_of(calls):
            stmts: dict[object, int] = {}
            for c in calls:
                st = cfg.stmt_of(c)
                stmts[st] = stmts.get(st, 0) + 1
            return lambda x: stmts.get(x, 0) if not isinstance(x, (tuple, str)) else 0

        unpacks = _unpacks_of(fi, m)
        lens = {m: 0}
        for u in unpacks:
            if u.star is not None:
                if _defs_of(fi, u.star):  # bound by the unpacking only
                    raise Unsupported(f"{fi.qualname}: {u.star} is assigned more than once")
                lens[u.star] = u.fixed
        # the reference of the link = the refuri store fed from the selected match (here, or in a helper that receives it);
        # a fall-back reference to the raw destination (no match, explicit text) is not an inventory reference
        sel_names = {u_name for u in unpacks for u_name in u.elems}
        for n in fi.local_nodes():
            if isinstance(n, ast.Assign) and len(n.targets) == 1 and isinstance(n.targets[0], ast.Name) and isinstance(n.value, ast.Subscript) and isinstance(n.value.value, ast.Name) and n.value.value.id in lens and not isinstance(n.value.slice, ast.Slice):
                sel_names.add(n.targets[0].id)

        def selected(e: ast.AST) -> bool:
            for x in ast.walk(e):
                if isinstance(x, ast.Name) and x.id in sel_names:
                    return True
                if isinstance(x, ast.Subscript) and isinstance(x.value, ast.Name) and x.value.id in lens and not isinstance(x.slice, ast.Slice):
                    return True
            return False

        def refuri_values(f: FunctionInfo) -> list[ast.expr]:
            out = []
            for n in f.local_nodes():
                if isinstance(n, ast.Assign) and len(n.targets) == 1 and isinstance(n.targets[0], ast.Subscript) and isinstance(n.targets[0].slice, ast.Constant) and n.targets[0].slice.value == "refuri":
                    out.append(n.value)
                if isinstance(n, ast.Call) and kwarg(n, "refuri") is not None:
                    out.append(kwarg(n, "refuri"))
            return out

        refs = [v for v in refuri_values(fi) if selected(v)]
        for c in fi.local_nodes():
            if isinstance(c, ast.Call) and any(selected(a) for a in [*c.args, *[kw.value for kw in c.keywords]]):
                tf = _callee(c, fi, g)
                if tf is not None and tf.fq != fi.fq and refuri_values(tf):
                    refs.append(c)
        if not refs:
            raise Unsupported(f"{fi.qualname}: no refuri store fed from the selected match was found")
        consts = [x.value + max(lens.values()) for t in fi.local_nodes() if isinstance(t, ast.Compare) and _mentions(t, lens) for x in ast.walk(t) if isinstance(x, ast.Constant) and type(x.value) is int]
        top = max([2, *consts, *[u.fixed for u in unpacks]]) + 1
        expect = {0: (1 if has_missing else 0, 0, 0), 1: (0, 0, 1)}
        label = {0: "no match", 1: "exactly one match"}
        # outcome class "the link destination cannot be parsed": the handler(s) of a try around the href parse.
        # No lookup happens there, so the match-count obligations below hold for the paths on which the parse succeeded;
        # the handler path itself must end normally with exactly one warning, no reference and no lookup.
        def parses_href(c: ast.Call, f: FunctionInfo, depth: int = 0) -> bool:
            if f.module.resolve(dotted(c.func) or "") in ("urllib.parse.urlparse", "urllib.parse.urlsplit"):
                return True
            if depth < 1:
                tf = _callee(c, f, g)
                if tf is not None and tf.fq != f.fq:
                    return any(isinstance(x, ast.Call) and parses_href(x, tf, depth + 1) for x in tf.local_nodes())
            return False

        parse_tries = [t for t in fi.local_nodes() if isinstance(t, ast.Try) and any(isinstance(c, ast.Call) and parses_href(c, fi) for b in t.body for c in ast.walk(b))]
        parse_handlers = frozenset(("H", h) for t in parse_tries for h in t.handlers)
        lookups = [c for c in fi.local_nodes() if isinstance(c, ast.Call) and (dotted(c.func) or "").rsplit(".", 1)[-1] in ("get_inventory_matches", "filter_inventories", "filter_sphinx_inventories")]
        for t in parse_tries:
            if t.finalbody:
                raise Unsupported(f"{fi.qualname}: try/finally around the href parse")
            mstmt = cfg.stmt_of(mdef)
            if any(x is mstmt for b in t.body for x in ast.walk(b)):
                raise Unsupported(f"{fi.qualname}: the inventory lookup is inside the try around the href parse")
            for h in t.handlers:
                k = f"{fi.fq}|destination cannot be parsed"
                problems = []
                warns = cfg.counts(("H", h), [EXIT], weight_of(miss + amb)).get(EXIT)
                if not warns:
                    problems.append("the handler of the href parse never reaches the normal exit (it raises): the link aborts the parse instead of being reported")
                else:
                    if warns != {1}:
                        cnt = "/".join({0: "none", 1: "one", 2: "two or more"}[x] for x in sorted(warns))
                        problems.append(f"when the destination cannot be parsed the paths emit {cnt} inventory-link warning(s), expected exactly one")
                    if cfg.counts(("H", h), [EXIT], weight_of(lookups)).get(EXIT) != {0}:
                        problems.append("the handler falls through to the inventory lookup although no href part is bound: the link is resolved with unbound / omitted filters")
                    if cfg.counts(("H", h), [EXIT], weight_of(refs)).get(EXIT) != {0}:
                        problems.append("a reference node is built although the destination could not be parsed")
                if problems:
                    rep.violation("C19.R4", k, fi.module.site(h), "; ".join(problems))
                else:
                    rep.ok("C19.R4", k, fi.module.site(h), "one warning, no lookup, no reference")
        results: dict[str, list[str]] = {"no match": [], "exactly one match": [], "several matches": []}
        for n in range(0, top + 1):
            want = expect.get(n, (0, 1, 1))
            got = tuple(_counts_under(cfg, lens, unpacks, n, weight_of(ev), parse_handlers) for ev in (miss, amb, refs))
            lab = label.get(n, "several matches")
            shown = f"{n}+" if n == top else str(n)
            if not got[2]:
                results[lab].append(f"with {shown} match(es) no path reaches the normal exit: the function raises instead of rendering the link")
                continue
            for name, w, gset in zip(("IREF_MISSING warning", "IREF_AMBIGUOUS warning", "reference node"), want, got):
                if gset != {w}:
                    cnt = "/".join({0: "none", 1: "one", 2: "two or more"}[x] for x in sorted(gset))
                    results[lab].append(f"with {shown} match(es) the paths produce {cnt} {name}(s), expected exactly {w}")
        for lab, problems in results.items():
            k = f"{fi.fq}|{lab}"
            if problems:
                rep.violation("C19.R4", k, fi.site(), "; ".join(dict.fromkeys(problems)))
            else:
                rep.ok("C19.R4", k, fi.site())
        # (c) first match: `match = matches[0]` or `match, *others = matches`
        mvars = []
        k = f"{fi.fq}|the first match is used"
        for n in fi.local_nodes():
            if isinstance(n, ast.Subscript) and isinstance(n.value, ast.Name) and n.value.id in lens and isinstance(n.ctx, ast.Load):
                if isinstance(n.slice, ast.Slice):
                    continue  # matches[:show_num] in the message
                p = parent(n)
                idx = n.slice.value if isinstance(n.slice, ast.Constant) else (-n.slice.operand.value if isinstance(n.slice, ast.UnaryOp) and isinstance(n.slice.op, ast.USub) and isinstance(n.slice.operand, ast.Constant) else None)
                if idx is None or type(idx) is not int:
                    raise Unsupported(f"{fi.qualname}: `{short(n, 30)}`")
                su = [u for u in unpacks if u.star == n.value.id]
                if su:  # index into a star-rest: shift by the entries split off in front / behind
                    idx = idx + su[0].before if idx >= 0 else idx - (su[0].fixed - su[0].before)
                if idx == 0:
                    rep.ok("C19.R4", k, fi.module.site(n))
                else:
                    rep.violation("C19.R4", k, fi.module.site(n), f"`{short(n, 30)}` selects entry {idx} of the matches, not the first matching entry")
                if isinstance(p, ast.Assign) and len(p.targets) == 1 and isinstance(p.targets[0], ast.Name):
                    mvars.append(p.targets[0].id)
        for u in unpacks:
            for name, idx in u.elems.items():
                used = any(isinstance(x, ast.Name) and x.id == name and isinstance(x.ctx, ast.Load) for x in fi.local_nodes())
                if not used:
                    continue
                if idx == 0:
                    rep.ok("C19.R4", k, fi.module.site(u.stmt))
                else:
                    rep.violation("C19.R4", k, fi.module.site(u.stmt), f"`{short(u.stmt, 40)}` binds {name} to entry {idx} of the matches, not the first matching entry")
                mvars.append(name)
        # (d) refuri - here, or in the helper the first match is handed to
        def uri_stores(f: FunctionInfo) -> list[ast.expr]:
            out = []
            for n in f.local_nodes():
                if isinstance(n, ast.Assign) and len(n.targets) == 1 and isinstance(n.targets[0], ast.Subscript) and isinstance(n.targets[0].slice, ast.Constant) and n.targets[0].slice.value == "refuri":
                    out.append(n.value)
                if isinstance(n, ast.Call) and kwarg(n, "refuri") is not None:
                    out.append(kwarg(n, "refuri"))
            return out

        def is_first_match(a: ast.expr) -> bool:
            if isinstance(a, ast.Name):
                return a.id in mvars
            if isinstance(a, ast.Subscript) and isinstance(a.value, ast.Name) and a.value.id in lens and isinstance(a.slice, ast.Constant) and type(a.slice.value) is int:
                return True  # the selected entry (that it is entry 0 is judged above)
            return False

        k = f"{fi.fq}|refuri"
        uris = [v for v in uri_stores(fi) if selected(v)]
        if len(uris) == 1:
            if len(set(mvars)) != 1:
                raise Unsupported(f"{fi.qualname}: the variable holding the selected match was not identified ({mvars})")
            where, mv, uri = fi, mvars[0], uris[0]
        elif not uris:
            cands = []
            for c in fi.local_nodes():
                if isinstance(c, ast.Call) and any(is_first_match(a) for a in [*c.args, *[kw.value for kw in c.keywords]]):
                    tf = _callee(c, fi, g)
                    if tf is None or tf.fq == fi.fq:
                        continue
                    for pname, a in _arg_map(c, tf).items():
                        if is_first_match(a) and uri_stores(tf):
                            cands.append((tf, pname, uri_stores(tf)))
            if len(cands) != 1 or len(cands[0][2]) != 1:
                raise Unsupported(f"{fi.qualname}: the refuri store was not found here nor in a helper that receives the first match")
            where, mv, uri = cands[0][0], cands[0][1], cands[0][2][0]
            if _defs_of(where, mv):
                raise Unsupported(f"{where.qualname}: parameter {mv} is re-assigned")
        else:
            raise Unsupported(f"{fi.qualname}: {len(uris)} refuri stores")
        uri_x, uri_mods = _expand_match_expr(uri, mv, where, corpus)
        verdict = _refuri_verdict(uri_x, mv, rk, uri_mods)
        if verdict is None:
            rep.ok("C19.R4", k, where.module.site(uri), unparse(uri)[:100])
        else:
            rep.violation("C19.R4", k, where.module.site(uri), verdict)
    rep.expect_min("C19.R4", 37, "13 pass-through keywords + 2 x (order, 3 count classes, first match, refuri) + the '#' cut of the destination")


def _single_return(f: FunctionInfo) -> ast.expr | None:
    if f.is_lambda:
        return None
    body = [st for st in f.node.body if not (isinstance(st, ast.Expr) and isinstance(st.value, ast.Constant))]
    return body[0].value if len(body) == 1 and isinstance(body[0], ast.Return) else None


def _expand_match_expr(e: ast.expr, mv: str, where: FunctionInfo, corpus: Corpus, depth: int = 0):
    """``e`` with properties of the InvMatch ``mv`` and calls of one-expression package functions replaced by their
    definitions (`match.uri` -> `resolve_location(match.base_url, match.loc)` -> `posixpath.join(...) if ... else ...`);
    returns (expression, modules whose imports its names may refer to)."""
    mods = [where.module]
    im = corpus.cls("inventory:InvMatch")

    class X(ast.NodeTransformer):
        def visit_Attribute(self, node):
            self.generic_visit(node)
            if isinstance(node.value, ast.Name) and node.value.id == mv and node.attr in im.methods and "property" in im.methods[node.attr].decorators():
                r = _single_return(im.methods[node.attr])
                prm = im.methods[node.attr].params
                if r is not None and prm:
                    class S(ast.NodeTransformer):
                        def visit_Name(self, nm):
                            return ast.Name(id=mv, ctx=nm.ctx) if nm.id == prm[0] else nm

                    mods.append(im.module)
                    return _expand_in(S().visit(ast.parse(ast.unparse(r), mode="eval").body), im.module)
            return node

    def _expand_in(x: ast.expr, mod_):
        class C(ast.NodeTransformer):
            def visit_Call(self, node):
                self.generic_visit(node)
                f = corpus.find_function(mod_.resolve(dotted(node.func) or ""))
                if f is not None and not node.keywords and not any(isinstance(a, ast.Starred) for a in node.args) and len(node.args) == len(f.params):
                    r = _single_return(f)
                    if r is not None:
                        amap = {p_: ast.unparse(a) for p_, a in zip(f.params, node.args)}

                        class S(ast.NodeTransformer):
                            def visit_Name(self, nm):
                                return ast.parse("(" + amap[nm.id] + ")", mode="eval").body if nm.id in amap else nm

                        mods.append(f.module)
                        return S().visit(ast.parse(ast.unparse(r), mode="eval").body)
                return node

        return C().visit(x)

    fresh = ast.parse(ast.unparse(e), mode="eval").body
    out = _expand_in(X().visit(fresh), where.module)
    return ast.parse(ast.unparse(out), mode="eval").body, mods


def _refuri_verdict(e: ast.expr, mv: str, rk: str, mod=None) -> str | None:
    """None if the refuri expression has the specified shape, else what is wrong (Unsupported if unknown)."""
    loc, base = f"{mv}.loc", f"{mv}.base_url"
    if rk == "sphinx":
        if unparse(e) == loc:
            return None
        raise Unsupported(f"refuri `{short(e, 50)}` (Sphinx inventories carry absolute locations: expected `{loc}`)")
    if unparse(e) == loc:
        return f"refuri is `{loc}` alone: the inventory's base URL is dropped, relative locations become broken links"
    if isinstance(e, ast.IfExp):
        test, a, b = e.test, e.body, e.orelse
        if isinstance(test, ast.UnaryOp) and isinstance(test.op, ast.Not):
            test, a, b = test.operand, b, a
        elif isinstance(test, ast.Compare) and unparse(test) == f"{base} is None":
            test, a, b = test.left, b, a
        elif isinstance(test, ast.Compare) and unparse(test) == f"{base} is not None":
            test = test.left
        if unparse(test) == base and unparse(b) == loc and isinstance(a, ast.Call) and (dotted(a.func) or "").endswith("join") and len(a.args) == 2:
            args = [unparse(x) for x in a.args]
            joiner = dotted(a.func) or ""
            for m_ in (mod if isinstance(mod, list) else ([mod] if mod is not None else [])):
                if m_.resolve(joiner) != joiner or joiner.split(".")[0] in m_.imports:
                    joiner = m_.resolve(joiner)
                    break
            if joiner == "urllib.parse.urljoin" and set(args) == {base, loc}:
                return (f"`{short(a, 60)}` resolves the location *relative to* the base URL (RFC 3986): a base URL with a path and no trailing slash "
                        "(e.g. https://docs.python.org/3.7) loses its last segment, so the link points outside the documentation instead of at base/location")
            if joiner != "posixpath.join":
                raise Unsupported(f"refuri is built with `{joiner}`; only posixpath.join (location appended to the base URL) is understood")
            if args == [base, loc]:
                return None
            if args == [loc, base]:
                return f"`{short(a, 50)}` joins the location in front of the base URL"
        if unparse(test) == base and unparse(a) == loc and isinstance(b, ast.Call):
            return "the branches of the refuri expression are exchanged: the base URL is joined exactly when it is absent"
    raise Unsupported(f"refuri expression `{short(e, 60)}` not understood")


RULES = [r1_transducer, r2_api, r3_pairing, r4_link_paths]


# ---------------------------------------------------------------------------
# self-test mutants (computed from the current tree)


def _has_end_flush(cr: FunctionInfo) -> bool:
    loops = [st for st in cr.node.body if isinstance(st, ast.For)]
    return bool(loops) and any(isinstance(st, ast.If) for st in cr.node.body[cr.node.body.index(loops[0]) + 1 :])


def mutants(corpus: Corpus):
    out: list = []
    inv = corpus.mod("inventory")
    base = corpus.mod("mdit_to_docutils.base")
    sph = corpus.mod("mdit_to_docutils.sphinx_")
    refs = corpus.mod("sphinx_ext.myst_refs")

    def add(mid, rule_id, mod, node, text, expect, canary=False):
        if node is None:
            out.append((mid, "construct not found on this tree"))
        else:
            out.append(Mutant(mid, rule_id, mod.rel, splice(mod.src, node, text), expect=expect, canary=canary))

    # ---- R1
    cr = inv.func("_create_regex")
    loop = find_node(cr, lambda n: isinstance(n, ast.For))
    escs = sorted([n for n in walk_local(cr.node) if isinstance(n, ast.Call) and unparse(n.func) == "re.escape" and isinstance(n.args[0], ast.Name)], key=lambda n: n.lineno)
    add("c19-literal-not-escaped", "C19.R1", inv, escs[-1] if escs else None, "char", "other character", canary=not _has_end_flush(cr))
    anyc = find_node(cr, lambda n: isinstance(n, ast.Constant) and n.value == ".*")
    add("c19-star-needs-one-char", "C19.R1", inv, anyc, '".+"', "assembled from the literal parts" if any(isinstance(st, ast.For) for st in cr.node.body[cr.node.body.index(loop) + 1 :]) else "next character '*'")
    # 3924e09 (one backtracking wildcard, the others atomic "first occurrence"): revert + the class
    asm = [st for st in (cr.node.body[cr.node.body.index(loop) + 1 :] if loop is not None else []) if isinstance(st, ast.For)]
    tpl = find_node(cr, lambda n: isinstance(n, ast.JoinedStr) and "?=" in unparse(n)) if asm else None
    if tpl is not None:
        pvars = [v.value.id for v in tpl.values if isinstance(v, ast.FormattedValue) and isinstance(v.value, ast.Name)]
        pv_ = [x for x in pvars if x != "i"][-1] if pvars else "part"
        add("c19-every-wildcard-backtracks", "C19.R1", inv, tpl, f'".*" + {pv_}', "at most one backtracking wildcard", canary=True)
        seg = ast.get_source_segment(inv.src, tpl)
        add("c19-atomic-wildcard-takes-last-occurrence", "C19.R1", inv, tpl, seg.replace(".*?", ".*", 1), "assembled from the literal parts")
        lastw = find_node(cr, lambda n: isinstance(n, ast.If) and "len(" in unparse(n.test) and parent(n) is cr.node)
        if lastw is not None and len(lastw.body) == 1 and isinstance(lastw.body[0], ast.AugAssign):
            av = unparse(lastw.body[0].target)
            add("c19-last-wildcard-atomic-too", "C19.R1", inv, lastw.body[0], f'{av} += f"(?=(?P<last>.*?{{{unparse(lastw.body[0].value.right)}}}))(?P=last)"' if isinstance(lastw.body[0].value, ast.BinOp) else "pass", "assembled from the literal parts")
    else:
        out.append(("c19-every-wildcard-backtracks", "the assembly with atomic wildcards (fix 3924e09) is not in this tree"))
    resets = sorted([n for n in walk_local(cr.node) if isinstance(n, ast.Assign) and isinstance(n.value, ast.Constant) and n.value.value is False and parent(n) is not cr.node], key=lambda n: n.lineno)
    add("c19-pending-not-reset-after-escaped-star", "C19.R1", inv, resets[0] if resets and isinstance(parent(resets[0]), ast.If) else None, "pass", "_create_regex")
    lit_bsl = find_node(cr, lambda n: isinstance(n, ast.If) and loop is not None and parent(n) is loop and len(n.body) == 1 and isinstance(n.body[0], ast.AugAssign) and "re.escape('\\\\')" in unparse(n.body[0]))
    add("c19-lone-backslash-dropped-mid-pattern", "C19.R1", inv, lit_bsl, "pass", "backslash pending, next character other")
    comp = find_node(cr, lambda n: isinstance(n, ast.Call) and unparse(n.func) == "re.compile")
    add("c19-compile-ignorecase", "C19.R1", inv, comp, f"re.compile({unparse(comp.args[0])}, re.IGNORECASE)" if comp is not None else "", "compile flags")
    first_if = find_node(cr, lambda n: isinstance(n, ast.If) and isinstance(n.test, ast.BoolOp) and loop is not None and parent(n) is loop)
    add("c19-escaped-star-test-loses-flag", "C19.R1", inv, first_if.test if first_if is not None else None, 'char == "*" and False', "backslash pending, next character '*'")
    # F14 (end-of-pattern flush): a revert mutant only exists once the repair is in the tree
    if loop is not None:
        body = cr.node.body
        post = [st for st in body[body.index(loop) + 1 :] if isinstance(st, ast.If)]
        if post:
            add("c19-f14-end-flush-reverted", "C19.R1", inv, post[0], "pass", "end of pattern, backslash pending")
        else:
            out.append(("c19-f14-end-flush-reverted", "F14 is not repaired on this tree: the end-of-pattern violation itself is live"))
    # class "the raw pattern is rewritten before the character scan"
    first = next((st for st in cr.node.body if not (isinstance(st, ast.Expr) and isinstance(st.value, ast.Constant))), None)
    if first is not None and loop is not None:
        seg = ast.get_source_segment(inv.src, first)
        ind = " " * first.col_offset
        pv = cr.params[0]
        add("c19-pattern-star-runs-collapsed", "C19.R1", inv, first, f"{pv} = re.sub(r'\\*{{2,}}', '*', {pv})\n{ind}{seg}", "rewritten before it is translated")
        add("c19-pattern-star-pairs-replaced", "C19.R1", inv, first, f"{pv} = {pv}.replace('**', '*')\n{ind}{seg}", "rewritten before it is translated")
        add("c19-pattern-stripped", "C19.R1", inv, first, f"{pv} = {pv}.strip()\n{ind}{seg}", "rewritten before it is translated")
    # 647520d (re.DOTALL): revert
    if comp is not None and (len(comp.args) > 1 or comp.keywords):
        add("c19-dotall-reverted", "C19.R1", inv, comp, f"re.compile({unparse(comp.args[0])})", "wildcard fragment matches every character")
    else:
        out.append(("c19-dotall-reverted", "re.compile carries no flags on this tree"))
    # class "an end anchor plus Pattern.match instead of a full match" (`$` also matches before a final line feed)
    if comp is not None and inv.src.count(".fullmatch(") == 1:
        out.append(Mutant("c19-dollar-anchor-with-match", "C19.R2", inv.rel, splice(inv.src, comp.args[0], f'{unparse(comp.args[0])} + "$"').replace(".fullmatch(", ".match("), expect="whole-name"))
    else:
        out.append(("c19-dollar-anchor-with-match", "re.compile / fullmatch not found in the expected shape"))
    # ---- R2
    mw = inv.func("match_with_wildcard")
    fm = find_node(mw, lambda n: isinstance(n, ast.Attribute) and n.attr == "fullmatch")
    add("c19-fullmatch-to-match", "C19.R2", inv, fm, f"{unparse(fm.value)}.match" if fm is not None else "", "whole-name", canary=True)
    nt = find_node(mw, lambda n: isinstance(n, ast.If) and _is_none_test(n.test, mw.params[1]) is True)
    add("c19-none-test-becomes-falsy-test", "C19.R2", inv, nt.test if nt is not None else None, f"not {mw.params[1]}", "omitted pattern")
    add("c19-none-rule-dropped", "C19.R2", inv, nt, "pass", "omitted pattern")
    # class "a regex-free shortcut that reads the '*' of the raw pattern without regard to the escape"
    rx = find_node(mw, lambda n: isinstance(n, ast.Assign) and isinstance(n.value, ast.Call) and unparse(n.value.func) == "_create_regex")
    if rx is not None:
        ind_ = " " * rx.col_offset
        seg_ = ast.get_source_segment(inv.src, rx)
        pn, nn = mw.params[1], mw.params[0]
        add("c19-prefix-shortcut-ignores-escaped-star", "C19.R2", inv, rx, f"if {pn}.count('*') == 1 and {pn}.endswith('*'):\n{ind_}    return {nn}.startswith({pn}[:-1])\n{ind_}{seg_}", "regex-free shortcut")
        add("c19-infix-shortcut-ignores-escaped-star", "C19.R2", inv, rx, f"if {pn}.count('*') == 2 and {pn}.startswith('*') and {pn}.endswith('*'):\n{ind_}    return {pn}[1:-1] in {nn}\n{ind_}{seg_}", "regex-free shortcut")
    cc = find_node(mw, lambda n: isinstance(n, ast.Call) and unparse(n.func) == "_create_regex")
    add("c19-cache-key-not-full-pattern", "C19.R2", inv, cc.args[0] if cc is not None else None, f"{mw.params[1]}.strip()", "whole pattern")
    # dce2a78 (an empty -l pattern is a pattern): revert + partial weakenings
    cli_ = inv.func("inventory_cli")
    nt_ = find_node(cli_, lambda n: isinstance(n, ast.Compare) and len(n.ops) == 1 and isinstance(n.ops[0], ast.IsNot) and isinstance(n.comparators[0], ast.Constant) and n.comparators[0].value is None and isinstance(parent(n), ast.BoolOp) and any(isinstance(v_, ast.UnaryOp) or isinstance(v_, ast.Call) for v_ in parent(n).values))
    if nt_ is not None:
        lv = unparse(nt_.left)
        add("c19-cli-empty-location-pattern-means-no-filter", "C19.R2", inv, nt_, lv, "the empty pattern is a pattern")
        add("c19-cli-empty-location-pattern-skipped", "C19.R2", inv, nt_, f'{lv} is not None and {lv} != ""', "the empty pattern is a pattern")
        add("c19-cli-location-filter-needs-length", "C19.R2", inv, nt_, f"{lv} is not None and len({lv}) > 0", "the empty pattern is a pattern")
    else:
        out.append(("c19-cli-empty-location-pattern-means-no-filter", "the `is not None` test of the location option was not found next to its match"))
    # class "a compiled wildcard pattern applied with match/search instead of a full match" (outside the filter functions)
    lc_ = find_node(cli_, lambda n: isinstance(n, ast.Call) and unparse(n.func) == "match_with_wildcard" and len(n.args) == 2)
    if lc_ is not None:
        add("c19-cli-location-pattern-prefix-matched", "C19.R2", inv, lc_, f"_create_regex({unparse(lc_.args[1])}).match({unparse(lc_.args[0])})", "applied to the whole value")
        add("c19-cli-location-pattern-searched", "C19.R2", inv, lc_, f"_create_regex({unparse(lc_.args[1])}).search({unparse(lc_.args[0])})", "applied to the whole value")
    # ---- R3
    fn = inv.func("filter_inventories")
    fs = inv.func("filter_sphinx_inventories")
    c = find_node(fn, lambda n: isinstance(n, ast.Call) and unparse(n.func) == "match_with_wildcard" and unparse(n.args[1]) == "otypes")
    add("c19-native-otype-tested-against-domains", "C19.R3", inv, c.args[1] if c is not None else None, "domains", "OTYPE is matched")
    c = find_node(fn, lambda n: isinstance(n, ast.If) and "targets" in unparse(n.test))
    add("c19-native-name-test-dropped", "C19.R3", inv, c.test if c is not None else None, "True", "guarded by the NAME test")
    sp = find_node(fs, lambda n: isinstance(n, ast.Assign) and isinstance(n.value, ast.Call) and isinstance(n.value.func, ast.Attribute) and n.value.func.attr == "split")
    if sp is not None and isinstance(sp.targets[0], ast.Tuple):
        a, b = [unparse(e) for e in sp.targets[0].elts]
        add("c19-sphinx-domain-otype-unpacked-swapped", "C19.R3", inv, sp.targets[0], f"{b}, {a}", "filter_sphinx_inventories")
    ym = find_node(fs, lambda n: isinstance(n, ast.Call) and unparse(n.func) == "InvMatch")
    if ym is not None:
        kd = {k.arg: k for k in ym.keywords}
        if "domain" in kd and "otype" in kd:
            add("c19-sphinx-invmatch-domain-from-otype", "C19.R3", inv, kd["domain"].value, unparse(kd["otype"].value), "InvMatch.domain")
        if "text" in kd:
            add("c19-sphinx-dash-text-kept", "C19.R3", inv, kd["text"].value, "(text or None)", "InvMatch.text")
    up = find_node(fs, lambda n: isinstance(n, ast.Assign) and isinstance(n.targets[0], ast.Tuple) and len(n.targets[0].elts) == 4)
    if up is not None:
        e = [unparse(x) for x in up.targets[0].elts]
        add("c19-sphinx-item-tuple-misread", "C19.R3", inv, up.targets[0], f"{e[0]}, {e[1]}, {e[3]}, {e[2]}", "InvMatch.loc")
    lp = find_node(fn, lambda n: isinstance(n, ast.For) and unparse(n.iter).startswith("obj_data"))
    add("c19-native-sorted-names", "C19.R3", inv, lp.iter if lp is not None else None, f"sorted({unparse(lp.iter)})" if lp is not None else "", "iteration order")
    ym = find_node(fn, lambda n: isinstance(n, ast.Call) and unparse(n.func) == "InvMatch")
    if ym is not None:
        kd = {k.arg: k for k in ym.keywords}
        if "loc" in kd and "text" in kd:
            add("c19-native-loc-from-text", "C19.R3", inv, kd["loc"].value, unparse(kd["text"].value), "InvMatch.loc")
    # class "the pattern used as a literal key / enumeration cut short" (entries bypass the wildcard test)
    if lp is not None and isinstance(lp.iter, ast.Call) and isinstance(lp.iter.func, ast.Attribute):
        mp = unparse(lp.iter.func.value)
        add("c19-native-exact-hit-shortcut", "C19.R3", inv, lp.iter.func.value, f"({{targets: {mp}[targets]}} if targets in {mp} else {mp})", "OTMAP visits every entry")
    ld = find_node(fn, lambda n: isinstance(n, ast.For) and "'objects'" in unparse(n.iter))
    if ld is not None and isinstance(ld.iter, ast.Call) and isinstance(ld.iter.func, ast.Attribute):
        mp = unparse(ld.iter.func.value)
        add("c19-native-domain-exact-hit-shortcut", "C19.R3", inv, ld.iter.func.value, f"({{domains: {mp}[domains]}} if domains in {mp} else {mp})", "OBJECTS visits every entry")
    ls = find_node(fs, lambda n: isinstance(n, ast.For) and isinstance(n.target, ast.Name) and isinstance(n.iter, ast.Name) and any(isinstance(b, ast.If) and "targets" in unparse(b.test) for b in n.body))
    if ls is not None:
        add("c19-sphinx-exact-hit-shortcut", "C19.R3", inv, ls.iter, f"([targets] if targets in {ls.iter.id} else {ls.iter.id})", "OTMAP visits every entry")
    ys = find_node(fn, lambda n: isinstance(n, ast.Expr) and isinstance(n.value, ast.Yield))
    if ys is not None:
        ind = " " * ys.col_offset
        add("c19-native-stop-after-first-hit", "C19.R3", inv, ys, ast.get_source_segment(inv.src, ys) + f"\n{ind}break", "enumeration is not cut short")
    # class "a coordinate tested with a compiled pattern's match()/search() instead of a full match"
    dcn = find_node(fn, lambda n: isinstance(n, ast.Call) and unparse(n.func) == "match_with_wildcard" and unparse(n.args[1]) == "domains")
    if dcn is not None:
        add("c19-native-compiled-pattern-prefix-match", "C19.R3", inv, dcn, f"_create_regex('*' if domains is None else domains).match({unparse(dcn.args[0])})", "DOMAIN is tested with a whole-string")
    ocs = find_node(fs, lambda n: isinstance(n, ast.Call) and unparse(n.func) == "match_with_wildcard" and unparse(n.args[1]) == "otypes")
    if ocs is not None:
        add("c19-sphinx-compiled-pattern-search", "C19.R3", inv, ocs, f"_create_regex('*' if otypes is None else otypes).search({unparse(ocs.args[0])})", "OTYPE is tested with a whole-string")
    # class "the domain:type key cut at another colon than from_sphinx / load cut it"
    spf = find_node(fs, lambda n: isinstance(n, ast.Call) and isinstance(n.func, ast.Attribute) and n.func.attr == "split" and len(n.args) == 2 and isinstance(parent(n), ast.Assign))
    # a6d2b5d (flat keys grouped by domain, as the native nesting lists them): revert + the class
    srt = find_node(fs, lambda n: isinstance(n, ast.Expr) and isinstance(n.value, ast.Call) and isinstance(n.value.func, ast.Attribute) and n.value.func.attr == "sort")
    if srt is not None:
        add("c19-sphinx-keys-not-grouped-by-domain", "C19.R3", inv, srt, "pass", "grouped by domain", canary=True)
        add("c19-sphinx-keys-sorted-alphabetically", "C19.R3", inv, srt, f"{unparse(srt.value.func.value)}.sort()", "grouped by domain")
        lam = srt.value.keywords[0].value if srt.value.keywords and isinstance(srt.value.keywords[0].value, ast.Lambda) else None
        sub0 = find_node(fs, lambda n: lam is not None and isinstance(n, ast.Subscript) and isinstance(n.slice, ast.Constant) and n.slice.value == 0 and any(x is n for x in ast.walk(lam)))
        if sub0 is not None:
            add("c19-sphinx-keys-grouped-by-type", "C19.R3", inv, sub0.slice, "1", "grouped by domain")
        dsp = find_node(fs, lambda n: isinstance(n, ast.Call) and isinstance(n.func, ast.Attribute) and n.func.attr == "split" and isinstance(parent(n), ast.Subscript) and isinstance(parent(parent(n)), ast.ListComp))
        add("c19-sphinx-domain-list-cut-at-last-colon", "C19.R3", inv, dsp.func if dsp is not None else None, f"{unparse(dsp.func.value)}.rsplit" if dsp is not None else "", "grouped by domain")
        # class "every domain ranked by its last occurrence" ({domain: index} over enumerate instead of list.index)
        dl_ = find_node(fs, lambda n: isinstance(n, ast.Assign) and isinstance(n.value, ast.ListComp) and isinstance(n.value.elt, ast.Subscript) and isinstance(n.targets[0], ast.Name))
        lam_ = srt.value.keywords[0].value if srt.value.keywords and isinstance(srt.value.keywords[0].value, ast.Lambda) else None
        if dl_ is not None and lam_ is not None and isinstance(lam_.body, ast.Call) and isinstance(lam_.body.func, ast.Attribute) and lam_.body.func.attr == "index" and dl_.lineno < lam_.lineno:
            gen_ = dl_.value.generators[0]
            dn_ = dl_.targets[0].id
            src_ = splice(inv.src, lam_.body, f"{dn_}[{unparse(lam_.body.args[0])}]")
            src_ = splice(src_, dl_.value, f"{{{unparse(dl_.value.elt)}: i_ for i_, {unparse(gen_.target)} in enumerate({unparse(gen_.iter)})}}")
            out.append(Mutant("c19-sphinx-domains-ranked-by-last-occurrence", "C19.R3", inv.rel, src_, expect="grouped by domain"))
        else:
            out.append(("c19-sphinx-domains-ranked-by-last-occurrence", "domain list + list.index sort key not found in the expected shape"))
    else:
        out.append(("c19-sphinx-keys-not-grouped-by-domain", "no sort of the flat keys (fix a6d2b5d) in this tree"))
    if spf is not None:
        add("c19-sphinx-key-split-at-last-colon", "C19.R3", inv, spf.func, f"{unparse(spf.func.value)}.rsplit", "key is split where")
        spa = parent(spf)
        if isinstance(spa, ast.Assign) and isinstance(spa.targets[0], ast.Tuple) and len(spa.targets[0].elts) == 2:
            a_, b_ = [unparse(e) for e in spa.targets[0].elts]
            add("c19-sphinx-key-rpartition", "C19.R3", inv, spa, f"{a_}, _, {b_} = {unparse(spf.func.value)}.rpartition(':')", "key is split where")
    fsf = inv.func("from_sphinx")
    spn = find_node(fsf, lambda n: isinstance(n, ast.Call) and isinstance(n.func, ast.Attribute) and n.func.attr == "split" and len(n.args) == 2)
    add("c19-from-sphinx-split-at-last-colon", "C19.R3", inv, spn.func if spn is not None else None, f"{unparse(spn.func.value)}.rsplit" if spn is not None else "", "key is split where")
    # class "a plain string test (startswith ...) as a fast path next to the wildcard matcher"
    for mid, f_ in (("c19-sphinx-prefix-fast-path-flag", fs), ("c19-native-prefix-fast-path-flag", fn)):
        iff = find_node(f_, lambda n: isinstance(n, ast.If) and isinstance(n.test, ast.Call) and unparse(n.test.func) == "match_with_wildcard" and unparse(n.test.args[1]) == "targets")
        if iff is None:
            out.append((mid, "name test not found as a plain if"))
            continue
        ind = " " * iff.col_offset
        tv = unparse(iff.test.args[0])
        seg = ast.get_source_segment(inv.src, iff)
        tseg = ast.get_source_segment(inv.src, iff.test)
        pre = (f"if targets is not None and targets.endswith('*') and '*' not in targets[:-1]:\n{ind}    matched = {tv}.startswith(targets[:-1])\n"
               f"{ind}else:\n{ind}    matched = {tseg}\n{ind}")
        add(mid, "C19.R3", inv, iff, pre + seg.replace(tseg, "matched", 1), "guarded by the NAME test")
    iff = find_node(fn, lambda n: isinstance(n, ast.If) and isinstance(n.test, ast.Call) and unparse(n.test.func) == "match_with_wildcard" and unparse(n.test.args[1]) == "targets")
    if iff is not None:
        tv = unparse(iff.test.args[0])
        add("c19-native-exact-name-short-circuit", "C19.R3", inv, iff.test, f"{tv} == targets or {unparse(iff.test)}", "guarded by the NAME test")
    # class "the joined domain:type key matched with one pattern"
    tst = find_node(fs, lambda n: isinstance(n, ast.If) and "domains" in unparse(n.test) and "otypes" in unparse(n.test))
    keyvar = find_node(fs, lambda n: isinstance(n, ast.Assign) and isinstance(n.value, ast.Call) and isinstance(n.value.func, ast.Attribute) and n.value.func.attr == "split")
    if tst is not None and keyvar is not None:
        kv = unparse(keyvar.value.func.value)
        add("c19-sphinx-joined-key-pattern", "C19.R3", inv, tst.test, f"not match_with_wildcard({kv}, f\"{{domains or '*'}}:{{otypes or '*'}}\")", "unsplit domain:type key")
        dc = find_node(fs, lambda n: isinstance(n, ast.Call) and unparse(n.func) == "match_with_wildcard" and unparse(n.args[1]) == "domains")
        add("c19-sphinx-domain-filter-on-whole-key", "C19.R3", inv, dc.args[0] if dc is not None else None, kv, "unsplit domain:type key")
    # ---- R4
    rl = base.func("DocutilsRenderer.render_link_inventory")
    # class "an IndexError for a missing later part discards / skips the parts that were given"
    wp = find_node(rl, lambda n: isinstance(n, ast.With) and "suppress" in unparse(n.items[0].context_expr) and len(n.body) == 3 and all(isinstance(b, ast.Assign) and isinstance(_or_none(b.value) or b.value, ast.Subscript) for b in n.body))
    if wp is not None:
        ind = " " * wp.body[0].col_offset
        hdr = f"with {unparse(wp.items[0].context_expr)}:\n{ind}"
        tg = ", ".join(unparse(b.targets[0]) for b in wp.body)
        vs = ", ".join(unparse(b.value) for b in wp.body)
        add("c19-href-parts-merged-into-one-assignment", "C19.R4", base, wp, hdr + f"{tg} = {vs}", "inv: path with 1 part", canary=True)
        add("c19-href-parts-assigned-last-first", "C19.R4", base, wp, hdr + f"\n{ind}".join(ast.get_source_segment(base.src, b) for b in reversed(wp.body)), "inv: path with 2 part")
        pv = unparse((_or_none(wp.body[0].value) or wp.body[0].value).value)
        # 94838ee (an empty part counts as omitted): revert + partial weakenings
        opt = [b for b in wp.body if _or_none(b.value) is not None]
        if len(opt) == 3:
            add("c19-empty-href-parts-passed-as-empty-patterns", "C19.R4", base, wp, hdr + f"\n{ind}".join(f"{unparse(b.targets[0])} = {unparse(_or_none(b.value))}" for b in wp.body), "left empty counts as omitted")
            add("c19-empty-inventory-part-passed-as-empty-pattern", "C19.R4", base, wp.body[0].value, unparse(_or_none(wp.body[0].value)), "left empty counts as omitted")
            add("c19-empty-type-part-passed-as-empty-pattern", "C19.R4", base, wp.body[2].value, unparse(_or_none(wp.body[2].value)), "left empty counts as omitted")
            # class "the normalisation moved into one implementation of the lookup only" (the Sphinx override lacks it)
            gmi = base.func("DocutilsRenderer.get_inventory_matches")
            fc_ = find_node(gmi, lambda n: isinstance(n, ast.Call) and unparse(n.func).endswith("filter_inventories"))
            kws_ = {k_.arg: k_ for k_ in fc_.keywords} if fc_ is not None else {}
            if fc_ is not None and all(a_ in kws_ for a_ in ("invs", "domains", "otypes")) and fc_.lineno > wp.lineno:
                src_ = base.src
                for a_ in sorted(("invs", "domains", "otypes"), key=lambda a__: -kws_[a__].value.lineno):
                    src_ = splice(src_, kws_[a_].value, f"{unparse(kws_[a_].value)} or None")
                src_ = splice(src_, wp, hdr + f"\n{ind}".join(f"{unparse(b.targets[0])} = {unparse(_or_none(b.value))}" for b in wp.body))
                out.append(Mutant("c19-empty-part-normalised-in-the-docutils-lookup-only", "C19.R4", base.rel, src_, expect="left empty counts as omitted"))
        else:
            out.append(("c19-empty-href-parts-passed-as-empty-patterns", "the parts are not normalised with `or None` on this tree"))
        add("c19-href-parts-behind-length-guard", "C19.R4", base, wp, f"if len({pv}) > 2:\n{ind}" + f"\n{ind}".join(ast.get_source_segment(base.src, b) for b in wp.body), "inv: path with 2 part")
    else:
        out.append(("c19-href-parts-merged-into-one-assignment", "the `with suppress(IndexError)` block of three part assignments was not found"))
    # class "the destination cannot be parsed" (aab162b): handler of the try around urlparse
    pt = find_node(rl, lambda n: isinstance(n, ast.Try) and "urlparse" in unparse(n.body[0]) and n.handlers)
    if pt is not None:
        h = pt.handlers[0]
        hret = [b for b in h.body if isinstance(b, ast.Return)]
        hwarn = [b for b in h.body if isinstance(b, ast.Expr) and "IREF_MISSING" in unparse(b)]
        add("c19-unparsable-href-handler-falls-through", "C19.R4", base, hret[0] if hret else None, "pass", "destination cannot be parsed")
        add("c19-unparsable-href-handler-reraises", "C19.R4", base, hret[0] if hret else None, "raise", "destination cannot be parsed")
        add("c19-unparsable-href-warning-dropped", "C19.R4", base, hwarn[0] if hwarn else None, "pass", "destination cannot be parsed")
    # (no try around the href parse on a tree that splits the destination literally: nothing to mutate)
    # 59f123f / 7726d50 / 0aebc8a: reverts of the three repairs of the href decomposition
    pct = find_node(rl, lambda n: isinstance(n, ast.Assign) and isinstance(n.value, ast.Call) and isinstance(n.value.func, ast.Attribute) and n.value.func.attr == "replace" and [unparse(a) for a in n.value.args] == ["'%25'", "'%'"])
    add("c19-percent-stays-encoded", "C19.R4", base, pct, "pass", "literal % of the destination")
    spl = find_node(rl, lambda n: isinstance(n, ast.Call) and isinstance(n.func, ast.Attribute) and n.func.attr == "split" and len(n.args) == 2 and unparse(n.args[0]) == "':'" and unparse(n.args[1]) == "2")
    add("c19-href-type-cut-at-every-colon", "C19.R4", base, spl, f"{unparse(spl.func)}(':')" if spl is not None else "", "everything after the second")
    prt = find_node(rl, lambda n: isinstance(n, ast.Assign) and isinstance(n.targets[0], ast.Tuple) and len(n.targets[0].elts) == 3 and "partition('#')" in unparse(n.value))
    if prt is not None and "urlparse" in base.imports:
        tg = [unparse(e) for e in prt.targets[0].elts]
        hv = unparse(prt.value.func.value.value.func.value) if isinstance(prt.value, ast.Call) and isinstance(prt.value.func.value, ast.Subscript) and isinstance(prt.value.func.value.value, ast.Call) else "href"
        add("c19-href-parsed-as-url", "C19.R4", base, prt, f"{tg[0]}, {tg[2]} = urlparse({hv}).path, urlparse({hv}).fragment", "split literally")
    else:
        out.append(("c19-href-parsed-as-url", "literal partition of the destination (fix 0aebc8a) not found / urlparse not imported"))
    # the name pattern starts after the FIRST '#' (entry names contain '#'): the cut moved to the last one, in one
    # statement, and for the target only (the path still ends at the first '#', the middle of the name is lost)
    hcut = find_node(rl, lambda n: isinstance(n, ast.Call) and isinstance(n.func, ast.Attribute) and n.func.attr == "partition" and len(n.args) == 1 and unparse(n.args[0]) == "'#'")
    add("c19-href-cut-at-last-hash", "C19.R4", base, hcut, f"{unparse(hcut.func.value)}.rpartition('#')" if hcut is not None else "", "after the first '#'")
    if prt is not None and hcut is not None and prt.value is hcut:
        tg = [unparse(e) for e in prt.targets[0].elts]
        ind = " " * prt.col_offset
        rcv = unparse(hcut.func.value)
        add("c19-href-target-cut-at-last-hash", "C19.R4", base, prt, f"{tg[0]} = {rcv}.partition('#')[0]\n{ind}{tg[2]} = {rcv}.rpartition('#')[2]", "after the first '#'")
    else:
        out.append(("c19-href-target-cut-at-last-hash", "three-way unpacking of the '#' partition not found"))
    # a2a9a1a (inventories re-loaded for the configuration of every render): revert + the class "dropped only when the keys change"
    sr = base.func("DocutilsRenderer.setup_render")
    rs = find_node(sr, lambda n: isinstance(n, ast.Assign) and unparse(n.targets[0]) == "self._inventories" and isinstance(n.value, ast.Constant) and n.value.value is None)
    if rs is not None:
        ind = " " * rs.col_offset
        add("c19-inventories-kept-across-configurations", "C19.R4", base, rs, "pass", "dropped when the renderer takes a configuration")
        add("c19-inventories-dropped-only-when-keys-change", "C19.R4", base, rs, f"if self._inventories is not None and set(self._inventories) != set(self.md_config.inventories):\n{ind}    self._inventories = None", "dropped when the renderer takes a configuration")
    else:
        out.append(("c19-inventories-kept-across-configurations", "no unconditional reset of self._inventories in setup_render"))
    # class "which inventories are registered depends on the link being resolved"
    gm0 = base.func("DocutilsRenderer.get_inventory_matches")
    ll = find_node(gm0, lambda n: isinstance(n, ast.For) and "inventories.items()" in unparse(n.iter))
    if ll is not None and isinstance(ll.target, ast.Tuple) and isinstance(ll.target.elts[0], ast.Name):
        kv = ll.target.elts[0].id
        ind = " " * ll.body[0].col_offset
        add("c19-inventories-loaded-on-demand", "C19.R4", base, ll.body[0], f"if not inventory.match_with_wildcard({kv}, invs):\n{ind}    continue\n{ind}" + ast.get_source_segment(base.src, ll.body[0]), "registered in configuration order")
    # class "the loaded inventory's base URL is not the configuration entry's"
    gm = base.func("DocutilsRenderer.get_inventory_matches")
    fc = find_node(gm, lambda n: isinstance(n, ast.Call) and unparse(n.func).endswith("fetch_inventory"))
    if fc is not None and kwarg(fc, "base_url") is not None and fc.args:
        add("c19-base-url-from-load-path", "C19.R4", base, kwarg(fc, "base_url"), unparse(fc.args[0]), "base URL")
        add("c19-inventory-memo-keyed-by-location-only", "C19.R4", base, fc, f"vars(inventory).setdefault('_loaded', {{}}).setdefault({unparse(fc.args[0])}, {unparse(fc)})", "base URL")
    m0 = find_node(rl, lambda n: isinstance(n, ast.Subscript) and unparse(n) == "matches[0]")
    add("c19-last-match-used", "C19.R4", base, m0, "matches[-1]", "first match")
    amb = find_node(rl, lambda n: isinstance(n, ast.If) and unparse(n.test) == "len(matches) > 1")
    add("c19-ambiguous-threshold-off-by-one", "C19.R4", base, amb.test if amb is not None else None, "len(matches) > 2", "several matches")
    if amb is not None:
        # class "count test on a derived (star-rest) list is off by one"
        seg = ast.get_source_segment(base.src, amb)
        tseg = ast.get_source_segment(base.src, amb.test)
        ind = " " * amb.col_offset
        add("c19-ambiguous-test-on-rest-off-by-one", "C19.R4", base, amb, f"_first, *others = matches\n{ind}" + seg.replace(tseg, "len(others) > 1", 1), "several matches")
        add("c19-ambiguous-test-on-rest-needs-none", "C19.R4", base, amb, f"_first, *others = matches\n{ind}" + seg.replace(tseg, "len(others) >= 0", 1), "exactly one match")
    if amb is not None:
        # class "the ambiguity test counts something derived from the matches (distinct values) instead of the matches"
        add("c19-ambiguous-test-on-distinct-locations", "C19.R4", base, amb.test, "len({(m.base_url, m.loc) for m in matches}) > 1", "several matches")
        add("c19-ambiguous-test-on-distinct-names", "C19.R4", base, amb.test, "len(set(m.name for m in matches)) > 1", "several matches")
    # class "the base URL is lost on its way fetch_inventory -> load -> loader -> InventoryType"
    ld = inv.func("load")
    c1 = find_node(ld, lambda n: isinstance(n, ast.Call) and unparse(n.func) == "_load_v1" and len(n.args) == 2)
    add("c19-load-v1-base-url-dropped", "C19.R4", inv, c1.args[1] if c1 is not None else None, "None", "handed on to _load_v1")
    fe = inv.func("fetch_inventory")
    c2 = find_node(fe, lambda n: isinstance(n, ast.Call) and unparse(n.func) == "load" and kwarg(n, "base_url") is not None)
    add("c19-fetch-inventory-base-url-not-handed-on", "C19.R4", inv, c2, f"load({unparse(c2.args[0])})" if c2 is not None and c2.args else "", "handed on to load")
    l2 = inv.func("_load_v2")
    dv = find_node(l2, lambda n: isinstance(n, ast.Dict) and any(isinstance(k_, ast.Constant) and k_.value == "base_url" for k_ in n.keys))
    if dv is not None:
        bv = [v_ for k_, v_ in zip(dv.keys, dv.values) if isinstance(k_, ast.Constant) and k_.value == "base_url"][0]
        add("c19-load-v2-inventory-base-url-none", "C19.R4", inv, bv, "None", "InventoryType.base_url")
    nm = find_node(rl, lambda n: isinstance(n, ast.If) and unparse(n.test) == "not matches")
    add("c19-missing-branch-falls-through", "C19.R4", base, nm.body[-1] if nm is not None and isinstance(nm.body[-1], ast.Return) else None, "pass", "no match")
    if amb is not None:
        w = find_node(rl, lambda n: isinstance(n, ast.Expr) and "IREF_AMBIGUOUS" in unparse(n) and parent(n) is amb)
        add("c19-ambiguous-warning-dropped", "C19.R4", base, w, "pass", "several matches")
    ru = find_node(rl, lambda n: isinstance(n, ast.IfExp) and "base_url" in unparse(n))
    add("c19-refuri-base-url-dropped", "C19.R4", base, ru, "match.loc", "refuri")
    if ru is not None and isinstance(ru.body, ast.Call) and len(ru.body.args) == 2:
        add("c19-refuri-join-operands-swapped", "C19.R4", base, ru.body, f"{unparse(ru.body.func)}({unparse(ru.body.args[1])}, {unparse(ru.body.args[0])})", "refuri")
    imp = next((st for st in base.tree.body if isinstance(st, ast.ImportFrom) and st.module == "urllib.parse" and st.level == 0), None)
    if ru is not None and isinstance(ru.body, ast.Call) and imp is not None and imp.lineno < ru.lineno:
        # class "URL-relative resolution instead of appending the location to the base URL"
        src_ = splice(base.src, ru.body.func, "urljoin")  # (the later edit first: the import line stays where it is)
        src_ = splice(src_, imp, "from urllib.parse import " + ", ".join(sorted({a.name for a in imp.names} | {"urljoin"})))
        out.append(Mutant("c19-refuri-urljoin", "C19.R4", base.rel, src_, expect="refuri"))
    else:
        out.append(("c19-refuri-urljoin", "refuri join / urllib import not found in the expected shape"))
    dm = find_node(rl, lambda n: isinstance(n, ast.Assign) and unparse(n.targets[0]) == "domains" and isinstance(_or_none(n.value) or n.value, ast.Subscript))
    add("c19-href-domain-read-from-type-slot", "C19.R4", base, (_or_none(dm.value) or dm.value).slice if dm is not None else None, "2", "domains=")
    sg = sph.func("SphinxRenderer.get_inventory_matches")
    c = find_node(sg, lambda n: isinstance(n, ast.Call) and unparse(n.func).endswith("filter_sphinx_inventories"))
    if c is not None:
        kd = {k.arg: k for k in c.keywords}
        if "domains" in kd:
            add("c19-sphinx-renderer-domains-from-otypes", "C19.R4", sph, kd["domains"].value, "otypes", "domains=")
    # class "matches re-ordered between the filter and the link"
    for mid, mod_, f_ in (("c19-sphinx-matches-sorted", sph, sg), ("c19-docutils-matches-sorted", base, base.func("DocutilsRenderer.get_inventory_matches"))):
        lc = find_node(f_, lambda n: isinstance(n, ast.Call) and isinstance(n.func, ast.Name) and n.func.id == "list" and isinstance(parent(n), ast.Return))
        add(mid, "C19.R4", mod_, lc, f"sorted({unparse(lc.args[0])}, key=lambda m: m.name)" if lc is not None else "", "returned in inventory order")
    rr = refs.func("MystReferenceResolver._resolve_myst_ref_intersphinx")
    amb2 = find_node(rr, lambda n: isinstance(n, ast.If) and unparse(n.test) == "len(matches) > 1")
    add("c19-intersphinx-ambiguous-for-single-match", "C19.R4", refs, amb2.test if amb2 is not None else None, "len(matches) >= 1", "exactly one match")
    cli = inv.func("inventory_cli")
    c = find_node(cli, lambda n: isinstance(n, ast.Call) and unparse(n.func) == "filter_inventories")
    if c is not None:
        kd = {k.arg: k for k in c.keywords}
        if "otypes" in kd:
            add("c19-cli-type-filter-from-name-option", "C19.R4", inv, kd["otypes"].value, "args.name", "otypes=")
    return out
